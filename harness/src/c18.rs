//! C18: PeerId parsing / derivation / conversions, three-way: litep2p, Coq model, libp2p-identity
//! 0.2.14 (the reference; `multiaddr::PeerId` is the same type). Case format: coq/C18/Glue.v.
use crate::util::*;
use litep2p::{
    crypto::{
        ed25519,
        verif::{verif_parse_and_verify_peer_id, VERIF_STATIC_KEY_DOMAIN},
        verif_noise_identity::verif_decode_key_message,
        PublicKey, RemotePublicKey,
    },
    transport::verif::AddressRecord,
    PeerId,
};
use multiaddr::{Multiaddr, Protocol};
use sha2::{Digest, Sha256};
use std::{
    panic::{catch_unwind, AssertUnwindSafe},
    path::Path,
    str::FromStr,
};

mod gen {
    include!("c18_gen.rs");
}

type RefPeerId = multiaddr::PeerId; // = libp2p_identity::PeerId
type Multihash = multihash::Multihash<64>;

fn el(out: &mut Vec<u64>, b: &[u8]) {
    out.push(b.len() as u64);
    out.extend(b.iter().map(|x| *x as u64));
}

/// count-prefixed list at `*i`; numbers above 255 are kept (the model rejects them)
fn take_list(c: &[u64], i: &mut usize) -> Option<Vec<u64>> {
    let n = *c.get(*i)? as usize;
    *i += 1;
    if *i + n > c.len() {
        return None;
    }
    let v = c[*i..*i + n].to_vec();
    *i += n;
    Some(v)
}

fn as_bytes(v: &[u64]) -> Option<Vec<u8>> {
    v.iter().map(|x| u8::try_from(*x).ok()).collect()
}

// ---------------------------------------------------------------- binary serde (not human readable)

mod binserde {
    use serde::{de, ser};
    use std::fmt;

    #[derive(Debug)]
    pub struct E(String);
    impl fmt::Display for E {
        fn fmt(&self, f: &mut fmt::Formatter) -> fmt::Result {
            f.write_str(&self.0)
        }
    }
    impl std::error::Error for E {}
    impl ser::Error for E {
        fn custom<T: fmt::Display>(m: T) -> Self {
            E(m.to_string())
        }
    }
    impl de::Error for E {
        fn custom<T: fmt::Display>(m: T) -> Self {
            E(m.to_string())
        }
    }

    pub struct BytesOnly;
    macro_rules! no {
        ($($f:ident($t:ty))*) => { $(fn $f(self, _: $t) -> Result<Vec<u8>, E> { Err(E("not bytes".into())) })* };
    }
    impl ser::Serializer for BytesOnly {
        type Ok = Vec<u8>;
        type Error = E;
        type SerializeSeq = ser::Impossible<Vec<u8>, E>;
        type SerializeTuple = ser::Impossible<Vec<u8>, E>;
        type SerializeTupleStruct = ser::Impossible<Vec<u8>, E>;
        type SerializeTupleVariant = ser::Impossible<Vec<u8>, E>;
        type SerializeMap = ser::Impossible<Vec<u8>, E>;
        type SerializeStruct = ser::Impossible<Vec<u8>, E>;
        type SerializeStructVariant = ser::Impossible<Vec<u8>, E>;
        fn is_human_readable(&self) -> bool {
            false
        }
        fn serialize_bytes(self, v: &[u8]) -> Result<Vec<u8>, E> {
            Ok(v.to_vec())
        }
        no! { serialize_bool(bool) serialize_i8(i8) serialize_i16(i16) serialize_i32(i32) serialize_i64(i64)
              serialize_u8(u8) serialize_u16(u16) serialize_u32(u32) serialize_u64(u64) serialize_f32(f32)
              serialize_f64(f64) serialize_char(char) serialize_str(&str) serialize_unit_struct(&'static str) }
        fn serialize_none(self) -> Result<Vec<u8>, E> {
            Err(E("none".into()))
        }
        fn serialize_some<T: ?Sized + ser::Serialize>(self, _: &T) -> Result<Vec<u8>, E> {
            Err(E("some".into()))
        }
        fn serialize_unit(self) -> Result<Vec<u8>, E> {
            Err(E("unit".into()))
        }
        fn serialize_unit_variant(self, _: &'static str, _: u32, _: &'static str) -> Result<Vec<u8>, E> {
            Err(E("variant".into()))
        }
        fn serialize_newtype_struct<T: ?Sized + ser::Serialize>(self, _: &'static str, _: &T) -> Result<Vec<u8>, E> {
            Err(E("newtype".into()))
        }
        fn serialize_newtype_variant<T: ?Sized + ser::Serialize>(
            self,
            _: &'static str,
            _: u32,
            _: &'static str,
            _: &T,
        ) -> Result<Vec<u8>, E> {
            Err(E("newtype variant".into()))
        }
        fn serialize_seq(self, _: Option<usize>) -> Result<Self::SerializeSeq, E> {
            Err(E("seq".into()))
        }
        fn serialize_tuple(self, _: usize) -> Result<Self::SerializeTuple, E> {
            Err(E("tuple".into()))
        }
        fn serialize_tuple_struct(self, _: &'static str, _: usize) -> Result<Self::SerializeTupleStruct, E> {
            Err(E("tuple struct".into()))
        }
        fn serialize_tuple_variant(
            self,
            _: &'static str,
            _: u32,
            _: &'static str,
            _: usize,
        ) -> Result<Self::SerializeTupleVariant, E> {
            Err(E("tuple variant".into()))
        }
        fn serialize_map(self, _: Option<usize>) -> Result<Self::SerializeMap, E> {
            Err(E("map".into()))
        }
        fn serialize_struct(self, _: &'static str, _: usize) -> Result<Self::SerializeStruct, E> {
            Err(E("struct".into()))
        }
        fn serialize_struct_variant(
            self,
            _: &'static str,
            _: u32,
            _: &'static str,
            _: usize,
        ) -> Result<Self::SerializeStructVariant, E> {
            Err(E("struct variant".into()))
        }
    }

    /// A format that claims to be human readable but hands over bytes, and one that does not
    /// claim it but hands over a string: `Deserialize for PeerId` picks deserialize_str /
    /// deserialize_bytes by the claim, the visitor must cope with what actually arrives.
    pub struct Cross<'a> {
        pub human: bool,
        pub bytes: Option<&'a [u8]>,
        pub text: Option<&'a str>,
    }
    impl<'de, 'a> de::Deserializer<'de> for Cross<'a> {
        type Error = E;
        fn is_human_readable(&self) -> bool {
            self.human
        }
        fn deserialize_any<V: de::Visitor<'de>>(self, v: V) -> Result<V::Value, E> {
            match (self.bytes, self.text) {
                (Some(b), _) => v.visit_bytes(b),
                (_, Some(t)) => v.visit_str(t),
                _ => Err(E("nothing".into())),
            }
        }
        serde::forward_to_deserialize_any! {
            bool i8 i16 i32 i64 i128 u8 u16 u32 u64 u128 f32 f64 char str string bytes byte_buf option
            unit unit_struct newtype_struct seq tuple tuple_struct map struct enum identifier ignored_any
        }
    }

    pub struct FromBytes<'a>(pub &'a [u8]);
    impl<'de, 'a> de::Deserializer<'de> for FromBytes<'a> {
        type Error = E;
        fn is_human_readable(&self) -> bool {
            false
        }
        fn deserialize_any<V: de::Visitor<'de>>(self, v: V) -> Result<V::Value, E> {
            v.visit_bytes(self.0)
        }
        serde::forward_to_deserialize_any! {
            bool i8 i16 i32 i64 i128 u8 u16 u32 u64 u128 f32 f64 char str string bytes byte_buf option
            unit unit_struct newtype_struct seq tuple tuple_struct map struct enum identifier ignored_any
        }
    }
}

// ---------------------------------------------------------------- running a case

fn last_p2p(addr: &Multiaddr) -> Option<RefPeerId> {
    match addr.iter().last() {
        Some(Protocol::P2p(p)) => Some(p),
        _ => None,
    }
}

/// Everything the property says about an accepted peer id: the three renderings, nine
/// round-trip flags, agreement with the reference.
fn accepted_tail(p: PeerId, refp: Option<RefPeerId>, agree: bool, out: &mut Vec<u64>) {
    use serde::{Deserialize, Serialize};
    let bytes = p.to_bytes();
    let text = p.to_base58();
    // the "infallible" conversion whose expect() rests on the admission invariant
    let mp: RefPeerId = p.into();
    let addr = Multiaddr::empty().with(Protocol::P2p(mp));
    let comp = addr.to_vec();
    el(out, &bytes);
    el(out, text.as_bytes());
    el(out, &comp);
    let f1 = matches!(PeerId::from_bytes(&bytes), Ok(q) if q == p);
    let f2 = matches!(PeerId::from_str(&text), Ok(q) if q == p)
        && p.to_string() == text
        && format!("{p:?}") == format!("PeerId({text:?})");
    let f3 = PeerId::try_from_multiaddr(&addr) == Some(p);
    let f4 = matches!(Multiaddr::try_from(comp.clone()), Ok(a) if PeerId::try_from_multiaddr(&a) == Some(p));
    let atext = format!("/p2p/{text}");
    let f5 = matches!(atext.parse::<Multiaddr>(), Ok(a) if PeerId::try_from_multiaddr(&a) == Some(p))
        && addr.to_string() == atext;
    let json = serde_json::to_string(&p).unwrap_or_default();
    let f6 = json == format!("\"{text}\"") && matches!(serde_json::from_str::<PeerId>(&json), Ok(q) if q == p);
    let ser = p.serialize(binserde::BytesOnly);
    let f7 = matches!(&ser, Ok(b) if *b == bytes)
        && matches!(PeerId::deserialize(binserde::FromBytes(&bytes)), Ok(q) if q == p);
    let f8 = matches!(PeerId::try_from(bytes.clone()), Ok(q) if q == p) && Vec::<u8>::from(p) == bytes;
    let mh = Multihash::from(p);
    let f9 = matches!(PeerId::try_from(mh), Ok(q) if q == p)
        && p.to_multiaddr_peer_id().is_ok()
        && matches!(PeerId::from_multihash(mp), Ok(q) if q == p)
        && mh.to_bytes() == bytes;
    for f in [f1, f2, f3, f4, f5, f6, f7, f8, f9, agree] {
        out.push(f as u64);
    }
    match refp {
        Some(r) => {
            out.push(1);
            out.push((r.to_bytes() == bytes && r.to_base58() == text && r == mp) as u64);
        }
        None => {
            out.push(0);
            out.push(0);
        }
    }
}

fn parse_result(kind: u64, r: Option<PeerId>, refp: Option<RefPeerId>, agree: bool) -> Vec<u64> {
    let mut out = vec![kind];
    match r {
        Some(p) => {
            out.push(1);
            accepted_tail(p, refp, agree, &mut out);
        }
        None => {
            out.push(0);
            out.push(refp.is_some() as u64);
            out.push(agree as u64);
        }
    }
    out
}

/// Every other way of turning the same bytes into a PeerId gives the same answer.
fn bytes_entry_points_agree(b: &[u8], r: Option<PeerId>) -> bool {
    use serde::Deserialize;
    let a1 = PeerId::try_from(b.to_vec()).ok();
    let a2 = PeerId::deserialize(binserde::FromBytes(b)).ok();
    let mh = Multihash::from_bytes(b).ok();
    let a3 = mh.and_then(|m| PeerId::try_from(m).ok());
    let a4 = mh.and_then(|m| PeerId::from_multihash(m).ok());
    // a "human readable" format that hands over bytes still ends in from_bytes
    let a5 = PeerId::deserialize(binserde::Cross { human: true, bytes: Some(b), text: None }).ok();
    a1 == r && a2 == r && a3 == r && a4 == r && a5 == r
}

fn json_plain(s: &str) -> bool {
    s.bytes().all(|c| (32..127).contains(&c) && c != b'"' && c != b'\\')
}

/// Every other way of turning the same text into a PeerId gives the same answer.
fn text_entry_points_agree(s: &str, r: Option<PeerId>) -> bool {
    use serde::{de::value::StrDeserializer, de::IntoDeserializer, Deserialize};
    let a1 = s.parse::<PeerId>().ok();
    let de: StrDeserializer<'_, binserde::E> = s.into_deserializer();
    let a2 = PeerId::deserialize(de).ok();
    // a binary format that hands over a string still ends in from_str
    let a3 = PeerId::deserialize(binserde::Cross { human: false, bytes: None, text: Some(s) }).ok();
    let mut ok = a1 == r && a2 == r && a3 == r;
    if json_plain(s) {
        ok &= serde_json::from_str::<PeerId>(&format!("\"{s}\"")).ok() == r;
    }
    if !s.contains('/') {
        for name in ["p2p", "ipfs"] {
            let a = format!("/{name}/{s}").parse::<Multiaddr>().ok();
            ok &= a.as_ref().and_then(PeerId::try_from_multiaddr) == r;
        }
    }
    ok
}

/// The local-id sites of the table: `Litep2p::new` (src/lib.rs) — which also runs
/// `TransportManagerBuilder::build` (src/transport/manager/mod.rs) — for one case in eight.
fn local_ids_agree(kp: &ed25519::Keypair, pid: PeerId) -> bool {
    if kp.public().to_bytes()[0] % 8 != 0 {
        return true;
    }
    let rt = match tokio::runtime::Builder::new_current_thread().enable_all().build() {
        Ok(rt) => rt,
        Err(_) => return false,
    };
    rt.block_on(async {
        let config = litep2p::config::ConfigBuilder::new()
            .with_keypair(kp.clone())
            .with_tcp(litep2p::transport::tcp::config::Config {
                listen_addresses: vec![],
                reuse_port: false,
                ..Default::default()
            })
            .build();
        match litep2p::Litep2p::new(config) {
            Ok(l) => *l.local_peer_id() == pid,
            Err(e) => {
                eprintln!("c18: Litep2p::new failed: {e:?}");
                false
            }
        }
    })
}

fn litep2p_decode_key(blob: &[u8]) -> Option<(RemotePublicKey, [u8; 32])> {
    match RemotePublicKey::from_protobuf_encoding(blob) {
        Ok(RemotePublicKey::Ed25519(k)) => {
            let b = k.to_bytes();
            Some((RemotePublicKey::Ed25519(k), b))
        }
        _ => None,
    }
}

fn keypair_of(secret: &[u8]) -> Option<ed25519::Keypair> {
    let mut s = secret.to_vec();
    let sk = ed25519::SecretKey::try_from_bytes(&mut s[..]).ok()?;
    Some(ed25519::Keypair::from(sk))
}

/// Fills in the oracle fields of a kind-4 / kind-5 case from its blob / secret (so stored cases
/// stay consistent) and returns the canonical case; other kinds are returned unchanged.
fn normalise(c: &[u64]) -> Vec<u64> {
    match c.first() {
        Some(4) => {
            let mut i = 1;
            let Some(blob) = take_list(c, &mut i).and_then(|v| as_bytes(&v)) else { return c.to_vec() };
            mk_blob_case(&blob)
        }
        Some(5) => {
            let mut i = 1;
            let Some(secret) = take_list(c, &mut i).and_then(|v| as_bytes(&v)) else { return c.to_vec() };
            let _pub = take_list(c, &mut i);
            let Some(blob) = take_list(c, &mut i).and_then(|v| as_bytes(&v)) else { return c.to_vec() };
            if secret.len() != 32 {
                return c.to_vec();
            }
            mk_key_case(&secret, &blob)
        }
        Some(9) => {
            let mut i = 1;
            let Some(secret) = take_list(c, &mut i).and_then(|v| as_bytes(&v)) else { return c.to_vec() };
            let _pub = take_list(c, &mut i);
            let Some(blob) = take_list(c, &mut i).and_then(|v| as_bytes(&v)) else { return c.to_vec() };
            if secret.len() != 32 {
                return c.to_vec();
            }
            let mut k = mk_key_case(&secret, &blob);
            k[0] = 9;
            k
        }
        Some(10) => aux::normalise_rsa(c),
        _ => c.to_vec(),
    }
}

/// The Data field as the real prost decoder sees it, and whether the curve check takes it.
fn curve_bit(blob: &[u8]) -> bool {
    match verif_decode_key_message(blob) {
        Some((_, data)) => ed25519::PublicKey::try_from_bytes(&data).is_ok(),
        None => false,
    }
}

fn mk_blob_case(blob: &[u8]) -> Vec<u64> {
    let mut c = vec![4];
    el(&mut c, blob);
    c.push(curve_bit(blob) as u64);
    c
}

fn mk_key_case(secret: &[u8], blob: &[u8]) -> Vec<u64> {
    let kp = keypair_of(secret).expect("32-byte secret");
    let pk = kp.public().to_bytes();
    let mut c = vec![5];
    el(&mut c, secret);
    el(&mut c, &pk);
    el(&mut c, blob);
    c
}

fn run_case(c: &[u64]) -> Option<Vec<u64>> {
    let mut i = 1;
    match *c.first()? {
        1 => {
            let b = as_bytes(&take_list(c, &mut i)?);
            if i != c.len() {
                return None;
            }
            let Some(b) = b else { return Some(vec![1, 0, 0, 1]) };
            let r = PeerId::from_bytes(&b).ok();
            let agree = bytes_entry_points_agree(&b, r);
            Some(parse_result(1, r, RefPeerId::from_bytes(&b).ok(), agree))
        }
        2 => {
            let b = as_bytes(&take_list(c, &mut i)?);
            if i != c.len() {
                return None;
            }
            // text that is not UTF-8 cannot be handed to from_str; bs58 refuses every non-ASCII character
            let Some(s) = b.and_then(|b| String::from_utf8(b).ok()) else { return Some(vec![2, 0, 0, 1, 1]) };
            let res = PeerId::from_str(&s);
            let err = match &res {
                Ok(_) => 0,
                Err(litep2p::ParseError::B58(_)) => 1,
                Err(litep2p::ParseError::MultiHash) => 2,
            };
            let r = res.ok();
            let agree = text_entry_points_agree(&s, r);
            let mut t = parse_result(2, r, RefPeerId::from_str(&s).ok(), agree);
            if r.is_none() {
                t.push(err);
            }
            Some(t)
        }
        3 => {
            let b = as_bytes(&take_list(c, &mut i)?);
            if i != c.len() {
                return None;
            }
            let Some(b) = b else { return Some(vec![3, 0, 0, 1]) };
            let addr = Multiaddr::try_from(b).ok();
            let r = addr.as_ref().and_then(PeerId::try_from_multiaddr);
            let refp = addr.as_ref().and_then(last_p2p);
            // the textual form of an accepted binary address parses back to the same id
            let agree = match &addr {
                Some(a) => a.to_string().parse::<Multiaddr>().ok().as_ref().and_then(PeerId::try_from_multiaddr) == r,
                None => true,
            };
            Some(parse_result(3, r, refp, agree))
        }
        4 => {
            let blob = as_bytes(&take_list(c, &mut i)?)?;
            let mut out = vec![4];
            el(&mut out, &PeerId::from_public_key_protobuf(&blob).to_bytes());
            // the message as the real prost decoder reads it (type as the u32 two's complement)
            match verif_decode_key_message(&blob) {
                Some((t, data)) => {
                    out.push(1);
                    out.push(t as u32 as u64);
                    el(&mut out, &data);
                }
                None => out.push(0),
            }
            match litep2p_decode_key(&blob) {
                Some((rk, k)) => {
                    out.push(1);
                    el(&mut out, &k);
                    // the derivation used by Noise and the TLS certificate parser
                    el(&mut out, &rk.to_peer_id(&blob).to_bytes());
                }
                None => out.push(0),
            }
            match libp2p_identity::PublicKey::try_decode_protobuf(&blob) {
                Ok(k) => {
                    out.push(1);
                    el(&mut out, &k.to_peer_id().to_bytes());
                }
                Err(_) => out.push(0),
            }
            Some(out)
        }
        5 => {
            let secret = as_bytes(&take_list(c, &mut i)?)?;
            let _pub = take_list(c, &mut i)?;
            let blob = as_bytes(&take_list(c, &mut i)?)?;
            let kp = keypair_of(&secret)?;
            let pk = kp.public();
            let public = PublicKey::Ed25519(pk.clone());
            let pid = PeerId::from_public_key(&public);
            let mut out = vec![5];
            el(&mut out, &pid.to_bytes());
            el(&mut out, &pk.to_bytes());
            // the real Noise identity check with a valid signature over the remote DH key
            let dh = [0x42u8; 32];
            let sig = kp.sign(&[VERIF_STATIC_KEY_DOMAIN.as_bytes(), &dh[..]].concat());
            match verif_parse_and_verify_peer_id(Some(blob), Some(sig), &dh) {
                Ok(p) => {
                    out.push(1);
                    el(&mut out, &p.to_bytes());
                }
                Err(_) => out.push(0),
            }
            let refkp = libp2p_identity::Keypair::ed25519_from_bytes(secret.clone()).ok()?;
            el(&mut out, &refkp.public().to_peer_id().to_bytes());
            // another key is told apart; the legacy SHA-256 id of the same encoding is recognised
            let other = keypair_of(&{
                let mut o = secret.clone();
                o[0] ^= 1;
                o
            })?;
            let other_public = PublicKey::Ed25519(other.public());
            let enc = public.to_protobuf_encoding();
            let legacy = Multihash::wrap(0x12, &Sha256::digest(&enc)).ok().and_then(|m| PeerId::from_multihash(m).ok())?;
            let same = pid.is_public_key(&public) == Some(true)
                && pid.is_public_key(&other_public) == Some(false)
                && other.public().to_peer_id().is_public_key(&public) == Some(false)
                && legacy.is_public_key(&public) == Some(true)
                && legacy.is_public_key(&other_public) == Some(false)
                && legacy != pid
                && pk.to_peer_id() == pid
                && public.to_peer_id() == pid
                && PeerId::from(public.clone()) == pid
                && local_ids_agree(&kp, pid)
                && PeerId::from(&public) == pid
                && PeerId::from_public_key_protobuf(&public.to_protobuf_encoding()) == pid
                && refkp.public().encode_protobuf() == public.to_protobuf_encoding();
            out.push(same as u64);
            Some(out)
        }
        6 => {
            let b = as_bytes(&take_list(c, &mut i)?);
            if i != c.len() {
                return None;
            }
            let Some(s) = b.and_then(|b| String::from_utf8(b).ok()) else { return Some(vec![6, 0, 0, 1]) };
            let addr = s.parse::<Multiaddr>().ok();
            let r = addr.as_ref().and_then(PeerId::try_from_multiaddr);
            let refp = addr.as_ref().and_then(last_p2p);
            // binary and textual re-renderings of an accepted address lead to the same id
            let agree = match &addr {
                Some(a) => {
                    Multiaddr::try_from(a.to_vec()).ok().as_ref().and_then(PeerId::try_from_multiaddr) == r
                        && a.to_string().parse::<Multiaddr>().ok().as_ref().and_then(PeerId::try_from_multiaddr)
                            == r
                }
                None => true,
            };
            Some(parse_result(6, r, refp, agree))
        }
        7 => {
            let b1 = as_bytes(&take_list(c, &mut i)?);
            let b2 = as_bytes(&take_list(c, &mut i)?);
            if i != c.len() {
                return None;
            }
            let p = b1.and_then(|b| PeerId::from_bytes(&b).ok());
            let q = b2.and_then(|b| PeerId::from_bytes(&b).ok());
            let mut out = vec![7, p.is_some() as u64, q.is_some() as u64];
            if let (Some(p), Some(q)) = (p, q) {
                use std::cmp::Ordering::*;
                use std::hash::{BuildHasher, Hash, Hasher};
                let ord = |o| match o {
                    Less => 0u64,
                    Equal => 1,
                    Greater => 2,
                };
                let bh = std::collections::hash_map::RandomState::new();
                let h = |x: &PeerId| {
                    let mut s = bh.build_hasher();
                    x.hash(&mut s);
                    s.finish()
                };
                let eq = p == q;
                // Ord, PartialOrd and their mirror images are one relation
                let o = p.cmp(&q);
                let coherent = p.partial_cmp(&q) == Some(o) && q.cmp(&p) == o.reverse() && (o == Equal) == eq;
                out.push(eq as u64);
                out.push(if coherent { ord(o) } else { 9 });
                out.push((!eq || h(&p) == h(&q)) as u64);
                out.push((p.to_bytes() == q.to_bytes()) as u64);
                out.push(ord(p.to_bytes().cmp(&q.to_bytes())));
                out.push((p.to_base58() == q.to_base58()) as u64);
            }
            Some(out)
        }
        8 => {
            let n = *c.get(1)?;
            if c.len() != 2 {
                return None;
            }
            let mut seen = std::collections::HashSet::new();
            let mut ok = true;
            for _ in 0..n.min(64) {
                let p = PeerId::random();
                let mh = Multihash::from(p);
                let mut t = vec![];
                accepted_tail(p, RefPeerId::from_bytes(&p.to_bytes()).ok(), true, &mut t);
                let k = t.len();
                ok &= mh.code() == 0 && mh.digest().len() == 32 && t[k - 12..].iter().all(|x| *x == 1);
                ok &= seen.insert(p);
            }
            Some(vec![8, ok as u64])
        }
        9 => aux::run_tls(c),
        10 => aux::run_rsa(c),
        11 => {
            let pb = as_bytes(&take_list(c, &mut i)?);
            let ab = as_bytes(&take_list(c, &mut i)?);
            if i != c.len() {
                return None;
            }
            let Some(peer) = pb.and_then(|b| PeerId::from_bytes(&b).ok()) else { return Some(vec![11, 0]) };
            let Some(addr) = ab.and_then(|b| Multiaddr::try_from(b).ok()) else { return Some(vec![11, 1, 0]) };
            let mut out = vec![11, 1, 1];
            let opt = |out: &mut Vec<u64>, p: Option<PeerId>| match p {
                Some(p) => {
                    out.push(1);
                    el(out, &p.to_bytes());
                }
                None => out.push(0),
            };
            opt(&mut out, PeerId::try_from_multiaddr(&addr));
            // src/transport/manager/address.rs: appends /p2p/<peer> through the infallible From
            let rec = AddressRecord::new(&peer, addr.clone(), 0);
            el(&mut out, &rec.address().to_vec());
            opt(&mut out, PeerId::try_from_multiaddr(rec.address()));
            out.push(AddressRecord::from_multiaddr(addr).is_some() as u64);
            Some(out)
        }
        _ => None,
    }
}

// ---------------------------------------------------------------- QUIC (TLS certificate) and RSA: optional build

#[cfg(not(all(feature = "quic", feature = "rsa")))]
mod aux {
    pub const ENABLED: bool = false;
    pub fn run_tls(_: &[u64]) -> Option<Vec<u64>> {
        None
    }
    pub fn run_rsa(_: &[u64]) -> Option<Vec<u64>> {
        None
    }
    pub fn normalise_rsa(c: &[u64]) -> Vec<u64> {
        c.to_vec()
    }
    pub fn gen_rsa_case(_: &mut crate::util::Rng) -> Vec<u64> {
        vec![8, 1]
    }
}

#[cfg(all(feature = "quic", feature = "rsa"))]
mod aux {
    use super::*;
    use litep2p::crypto::verif_tls::{verif_generate_with_identity, verif_parse_peer_id};
    use ring::signature::{KeyPair, RsaKeyPair, RSA_PKCS1_SHA256};

    pub const ENABLED: bool = true;

    /// rust-libp2p's RSA test keys (libp2p-identity 0.2.14, src/test/rsa-*.pk8)
    const KEYS: [&[u8]; 3] =
        [include_bytes!("c18_rsa-2048.pk8"), include_bytes!("c18_rsa-3072.pk8"), include_bytes!("c18_rsa-4096.pk8")];

    /// the TLS certificate path (QUIC): a certificate whose libp2p extension carries `blob`,
    /// signed with the host key, parsed and verified by the real code
    pub fn run_tls(c: &[u64]) -> Option<Vec<u64>> {
        let mut i = 1;
        let secret = as_bytes(&take_list(c, &mut i)?)?;
        let _pub = take_list(c, &mut i)?;
        let blob = as_bytes(&take_list(c, &mut i)?)?;
        let kp = keypair_of(&secret)?;
        let pk = kp.public();
        let public = PublicKey::Ed25519(pk.clone());
        let pid = PeerId::from_public_key(&public);
        let mut out = vec![9];
        el(&mut out, &pid.to_bytes());
        el(&mut out, &pk.to_bytes());
        let der = verif_generate_with_identity(blob, &|m| kp.sign(m)).ok()?;
        match verif_parse_peer_id(&der) {
            Some(p) => {
                out.push(1);
                el(&mut out, &p.to_bytes());
            }
            None => out.push(0),
        }
        let refkp = libp2p_identity::Keypair::ed25519_from_bytes(secret.clone()).ok()?;
        el(&mut out, &refkp.public().to_peer_id().to_bytes());
        // the crate's own certificate (tls::certificate::generate, not the hook's copy) carries the
        // canonical encoding and parses back to the local id
        let own = litep2p::crypto::verif_tls::verif_tls_generate(&kp)
            .and_then(|der| litep2p::crypto::verif_tls::verif_tls_parse(&der));
        out.push((pid.is_public_key(&public) == Some(true) && own == Some(pid)) as u64);
        Some(out)
    }

    fn der_len(n: usize) -> Vec<u8> {
        if n < 128 {
            vec![n as u8]
        } else {
            let be: Vec<u8> = n.to_be_bytes().iter().copied().skip_while(|b| *b == 0).collect();
            let mut v = vec![0x80 | be.len() as u8];
            v.extend(be);
            v
        }
    }
    fn der(tag: u8, content: &[u8]) -> Vec<u8> {
        let mut v = vec![tag];
        v.extend(der_len(content.len()));
        v.extend(content);
        v
    }
    /// SubjectPublicKeyInfo { { rsaEncryption, NULL }, BIT STRING pkcs1 } — written by hand, not
    /// with the crate's encoder
    pub fn spki(pkcs1: &[u8]) -> Vec<u8> {
        let alg = der(0x30, &[0x06, 0x09, 0x2a, 0x86, 0x48, 0x86, 0xf7, 0x0d, 0x01, 0x01, 0x01, 0x05, 0x00]);
        let mut bits = vec![0u8];
        bits.extend(pkcs1);
        der(0x30, &[alg, der(0x03, &bits)].concat())
    }
    pub fn canonical(pkcs1: &[u8]) -> Vec<u8> {
        let s = spki(pkcs1);
        let mut v = vec![0x08, 0x00, 0x12];
        v.extend(varint(s.len() as u64));
        v.extend(s);
        v
    }

    fn key_for(pkcs1: &[u8]) -> Option<RsaKeyPair> {
        KEYS.iter().filter_map(|k| RsaKeyPair::from_pkcs8(k).ok()).find(|k| k.public_key().as_ref() == pkcs1)
    }

    fn mk_case(blob: &[u8], pkcs1: &[u8]) -> Vec<u64> {
        let mut c = vec![10];
        el(&mut c, blob);
        el(&mut c, pkcs1);
        // oracle: does the X.509 parser take the Data field (as the real prost decoder reads it) for
        // this key — asked through the canonical framing 08 00 12 len around that field
        let want = RemotePublicKey::from_protobuf_encoding(&canonical(pkcs1)).ok();
        let xacc = match verif_decode_key_message(blob) {
            Some((_, data)) => {
                let mut framed = vec![0x08, 0x00, 0x12];
                framed.extend(varint(data.len() as u64));
                framed.extend(&data);
                want.is_some() && RemotePublicKey::from_protobuf_encoding(&framed).ok() == want
            }
            None => false,
        };
        c.push(xacc as u64);
        c
    }

    pub fn normalise_rsa(c: &[u64]) -> Vec<u64> {
        let mut i = 1;
        let Some(blob) = take_list(c, &mut i).and_then(|v| as_bytes(&v)) else { return c.to_vec() };
        let Some(pk) = take_list(c, &mut i).and_then(|v| as_bytes(&v)) else { return c.to_vec() };
        mk_case(&blob, &pk)
    }

    pub fn run_rsa(c: &[u64]) -> Option<Vec<u64>> {
        let mut i = 1;
        let blob = as_bytes(&take_list(c, &mut i)?)?;
        let pkcs1 = as_bytes(&take_list(c, &mut i)?)?;
        let kp = key_for(&pkcs1)?;
        let sign = |m: &[u8]| {
            let mut sig = vec![0u8; kp.public().modulus_len()];
            kp.sign(&RSA_PKCS1_SHA256, &ring::rand::SystemRandom::new(), m, &mut sig).expect("rsa sign");
            sig
        };
        let want = RemotePublicKey::from_protobuf_encoding(&canonical(&pkcs1)).ok();
        let mut out = vec![10];
        match RemotePublicKey::from_protobuf_encoding(&blob) {
            Ok(k) if Some(&k) == want.as_ref() => {
                out.push(1);
                el(&mut out, &k.to_peer_id(&blob).to_bytes());
            }
            _ => out.push(0),
        }
        let dh = [0x42u8; 32];
        let sig = sign(&[VERIF_STATIC_KEY_DOMAIN.as_bytes(), &dh[..]].concat());
        match verif_parse_and_verify_peer_id(Some(blob.clone()), Some(sig), &dh) {
            Ok(p) => {
                out.push(1);
                el(&mut out, &p.to_bytes());
            }
            Err(_) => out.push(0),
        }
        let der = verif_generate_with_identity(blob, &sign).ok()?;
        match verif_parse_peer_id(&der) {
            Some(p) => {
                out.push(1);
                el(&mut out, &p.to_bytes());
            }
            None => out.push(0),
        }
        Some(out)
    }

    pub fn gen_rsa_case(rng: &mut Rng) -> Vec<u64> {
        let kp = RsaKeyPair::from_pkcs8(KEYS[rng.below(3) as usize]).expect("test key");
        let pkcs1 = kp.public_key().as_ref().to_vec();
        let mut data = spki(&pkcs1);
        match rng.below(12) {
            0 => data.extend(rand_bytes(rng, 3)), // trailing bytes after the DER structure
            1 => {
                let i = rng.below(data.len() as u64) as usize;
                data[i] ^= 1 << rng.below(8);
            }
            2 => {
                data.pop();
            }
            _ => {}
        }
        let tfield = |rng: &mut Rng, t: u64| {
            let mut f = vec![0x08];
            let st = if rng.chance(20) { rng.pick(&[1u64, 2, 3]) } else { 0 };
            f.extend(styled_varint(rng, t, 10, 1, st));
            f
        };
        let mut dfield = vec![0x12];
        let st = if rng.chance(20) { rng.pick(&[1u64, 2]) } else { 0 };
        dfield.extend(styled_varint(rng, data.len() as u64, 10, 1, st));
        dfield.extend(&data);
        let ktype = if rng.chance(8) { rng.pick(&[1u64, 2, 3]) } else { 0 };
        let mut parts: Vec<Vec<u8>> = vec![tfield(rng, ktype), dfield];
        match rng.below(8) {
            0 => parts.swap(0, 1),
            1 => parts.push(vec![0x18, 0x05]),
            2 => parts.insert(0, vec![0x22, 0x02, 0xaa, 0xbb]),
            3 => parts.insert(0, tfield(rng, 1)),
            4 => parts.push(tfield(rng, 0)),
            _ => {}
        }
        mk_case(&parts.concat(), &pkcs1)
    }
}

// ---------------------------------------------------------------- generators

fn varint(mut v: u64) -> Vec<u8> {
    let mut o = vec![];
    loop {
        let b = (v & 0x7f) as u8;
        v >>= 7;
        if v == 0 {
            o.push(b);
            return o;
        }
        o.push(b | 0x80);
    }
}

/// A varint in one of several styles: 0 minimal, 1 zero-padded (non-minimal), 2 over-long to
/// `maxlen` bytes with only dropped bits set in the last byte (decodes to the same value),
/// 3 over-long with a kept bit set, 4 more than `maxlen` continuation bytes, 5 cut short.
fn styled_varint(rng: &mut Rng, v: u64, maxlen: usize, kept_bits_last: u32, style: u64) -> Vec<u8> {
    let mut o = varint(v);
    match style {
        1 => {
            let k = rng.range(1, 3) as usize;
            *o.last_mut().unwrap() |= 0x80;
            for _ in 1..k {
                o.push(0x80);
            }
            o.push(0x00);
        }
        2 | 3 => {
            if o.len() < maxlen {
                *o.last_mut().unwrap() |= 0x80;
                while o.len() < maxlen - 1 {
                    o.push(0x80);
                }
                let dropped = (rng.range(1, (1 << (7 - kept_bits_last)) - 1) as u8) << kept_bits_last;
                o.push(if style == 2 { dropped } else { dropped | 1 });
            }
        }
        4 => {
            *o.last_mut().unwrap() |= 0x80;
            while o.len() < maxlen + 1 {
                o.push(0x81);
            }
            o.push(0x01);
        }
        5 => {
            *o.last_mut().unwrap() |= 0x80;
        }
        _ => {}
    }
    o
}

fn pick_style(rng: &mut Rng) -> u64 {
    match rng.below(100) {
        0..=69 => 0,
        70..=77 => 1,
        78..=87 => 2,
        88..=92 => 3,
        93..=96 => 4,
        _ => 5,
    }
}

fn rand_bytes(rng: &mut Rng, n: usize) -> Vec<u8> {
    (0..n).map(|_| rng.next() as u8).collect()
}

fn gen_multihash_bytes(rng: &mut Rng) -> Vec<u8> {
    if rng.chance(3) {
        let n = rng.below(80) as usize;
        return rand_bytes(rng, n);
    }
    let good = rng.chance(35);
    let code = match if good { rng.below(5) } else { rng.below(9) } {
        0 | 1 => 0x00,
        2 => 0x11,
        3 | 4 => 0x12,
        5 => 0x13,
        6 => 0x16,
        7 => 0xb220,
        _ => match rng.below(4) {
            0 => rng.below(256),
            1 => rng.next() >> 1,
            2 => rng.next(),
            _ => u64::MAX,
        },
    };
    let l = match rng.below(10) {
        0 => rng.pick(&[0usize, 1, 31, 32, 33, 36, 41, 42, 43, 63, 64, 65, 70]),
        1 | 2 => 32,
        3 => 36,
        _ => rng.range(0, 70) as usize,
    };
    let declared = match if good { 5 } else { rng.below(12) } {
        0 => l as u64 + 1,
        1 => (l as u64).saturating_sub(1),
        2 => rng.pick(&[127u64, 128, 255, 256, 1 << 32, u64::MAX]),
        _ => l as u64,
    };
    let (mut s1, mut s2) = (pick_style(rng), pick_style(rng));
    if good {
        s1 = if s1 == 2 { 2 } else { 0 };
        s2 = if s2 == 2 { 2 } else { 0 };
    }
    let mut b = styled_varint(rng, code, 10, 1, s1);
    b.extend(styled_varint(rng, declared, 10, 1, s2));
    b.extend(rand_bytes(rng, l));
    match if good { 9 } else { rng.below(20) } {
        0 => b.extend(rand_bytes(rng, 1)),
        1 => b.extend(rand_bytes(rng, 2)),
        2 => {
            b.pop();
        }
        _ => {}
    }
    b
}

fn gen_text(rng: &mut Rng) -> Vec<u8> {
    let b = gen_multihash_bytes(rng);
    gen_text_of(rng, &b)
}

fn gen_text_of(rng: &mut Rng, b: &[u8]) -> Vec<u8> {
    let mut s = bs58::encode(b).into_string().into_bytes();
    match rng.below(16) {
        0 => {
            if !s.is_empty() {
                let i = rng.below(s.len() as u64) as usize;
                s[i] = rng.pick(&[b'0', b'O', b'I', b'l', b' ', b'/', b'+', 0x7f, 0]);
            }
        }
        1 => s.insert(0, b'1'),
        2 => s.push(b'1'),
        3 => {
            if !s.is_empty() {
                let i = rng.below(s.len() as u64) as usize;
                s[i] = *b"123456789ABCDEFGHJKLMNPQRSTUVWXYZabcdefghijkmnopqrstuvwxyz"
                    .get(rng.below(58) as usize)
                    .unwrap();
            }
        }
        4 => s.clear(),
        5 => s.insert(0, rng.pick(&[b' ', b'\n', b'\t', b'z'])),
        6 => s.push(rng.pick(&[b' ', b'\n', b'\t', b'\r', b'=', b'\0'])),
        _ => {}
    }
    s
}

fn gen_component(rng: &mut Rng) -> Vec<u8> {
    let mh = gen_multihash_bytes(rng);
    let id = match rng.below(12) {
        0 => rng.pick(&[6u64, 4, 290, 460, 420, 422, 0]),
        1 => 421 + (1 << 32),
        _ => 421,
    };
    let s1 = pick_style(rng);
    let s2 = pick_style(rng);
    let mut b = styled_varint(rng, id, 5, 4, s1);
    let n = match rng.below(12) {
        0 => mh.len() as u64 + 1,
        1 => (mh.len() as u64).saturating_sub(1),
        _ => mh.len() as u64,
    };
    b.extend(styled_varint(rng, n, 10, 1, s2));
    b.extend(&mh);
    if rng.chance(5) {
        let k = rng.range(1, 3) as usize;
        b.extend(rand_bytes(rng, k));
    }
    b
}

fn random_secret(rng: &mut Rng) -> Vec<u8> {
    rand_bytes(rng, 32)
}

/// Protobuf-aware mutator around `08 01 12 20 <key>`.
fn gen_blob(rng: &mut Rng, key: &[u8]) -> Vec<u8> {
    let tfield = |rng: &mut Rng, t: u64| {
        let mut f = vec![0x08];
        let st = if rng.chance(15) { rng.pick(&[1u64, 2, 3]) } else { 0 };
        f.extend(styled_varint(rng, t, 10, 1, st));
        f
    };
    let dfield = |rng: &mut Rng, d: &[u8]| {
        let mut f = vec![0x12];
        let st = if rng.chance(15) { rng.pick(&[1u64, 2]) } else { 0 };
        f.extend(styled_varint(rng, d.len() as u64, 10, 1, st));
        f.extend(d);
        f
    };
    let unknown = |rng: &mut Rng| -> Vec<u8> {
        match rng.below(6) {
            0 => vec![0x18, rng.next() as u8 & 0x7f],
            1 => {
                let mut v = vec![0x1d];
                v.extend(rand_bytes(rng, 4));
                v
            }
            2 => {
                let mut v = vec![0x19];
                v.extend(rand_bytes(rng, 8));
                v
            }
            3 => {
                let n = rng.below(50) as usize;
                let mut v = vec![0x22, n as u8];
                v.extend(rand_bytes(rng, n));
                v
            }
            4 => vec![0x1b, 0x1c],
            _ => vec![rng.next() as u8, rng.next() as u8],
        }
    };
    let ktype = if rng.chance(12) { rng.pick(&[0u64, 2, 3, 4, 1 << 31, (1 << 32) + 1, u64::MAX]) } else { 1 };
    let mut data = key.to_vec();
    match rng.below(16) {
        0 => {
            data.pop();
        }
        1 => data.push(7),
        2 => data = rand_bytes(rng, 32),
        3 => {
            let n = rng.below(90) as usize;
            data = rand_bytes(rng, n)
        }
        _ => {}
    }
    let mut parts: Vec<Vec<u8>> = vec![tfield(rng, ktype), dfield(rng, &data)];
    match rng.below(14) {
        0 => parts.swap(0, 1),
        1 => parts.push(unknown(rng)),
        2 => parts.insert(0, unknown(rng)),
        3 => parts.insert(1, unknown(rng)),
        4 => parts.insert(0, tfield(rng, 0)),
        5 => parts.push(tfield(rng, 1)),
        6 => {
            let other = rand_bytes(rng, 32);
            parts.insert(0, dfield(rng, &other))
        }
        7 => {
            parts.remove(0);
        }
        8 => {
            parts.remove(1);
        }
        _ => {}
    }
    let mut b: Vec<u8> = parts.concat();
    match rng.below(25) {
        0 => {
            let n = rng.below(b.len() as u64 + 1) as usize;
            b.truncate(n)
        }
        1 => {
            if !b.is_empty() {
                let i = rng.below(b.len() as u64) as usize;
                b[i] ^= 1 << rng.below(8);
            }
        }
        2 => {
            let n = rng.below(101) as usize;
            b = rand_bytes(rng, n)
        }
        _ => {}
    }
    b.truncate(100);
    b
}

/// bytes of an id that from_bytes accepts (canonical form)
fn gen_valid_id_bytes(rng: &mut Rng) -> Vec<u8> {
    let (code, l) = if rng.chance(50) {
        (0x00u8, rng.pick(&[0usize, 1, 31, 32, 32, 36, 36, 41, 42]))
    } else {
        (0x12u8, rng.pick(&[0usize, 1, 31, 32, 32, 32, 33, 63, 64]))
    };
    let mut b = vec![code, l as u8];
    if rng.chance(30) {
        // few distinct digests so that equal and nearly equal ids meet
        b.extend(std::iter::repeat(rng.below(3) as u8).take(l));
    } else {
        b.extend(rand_bytes(rng, l));
    }
    b
}

fn gen_addr_text(rng: &mut Rng) -> Vec<u8> {
    let id = |rng: &mut Rng| -> String {
        let b = if rng.chance(85) { gen_valid_id_bytes(rng) } else { gen_multihash_bytes(rng) };
        if rng.chance(80) {
            bs58::encode(&b).into_string()
        } else {
            String::from_utf8(gen_text_of(rng, &b)).unwrap_or_default()
        }
    };
    let mut s = String::new();
    let ncomp = rng.pick(&[1u64, 1, 1, 1, 2, 3]);
    for _ in 0..ncomp {
        match rng.below(12) {
            0 | 1 => s.push_str("/p2p-circuit"),
            2 | 3 => {
                s.push_str("/ipfs/");
                s.push_str(&id(rng));
            }
            4 => {
                s.push('/');
                s.push_str(rng.pick(&["P2P", "p2", "p2pp", "ip", "", "p2p-circui", "Ipfs"]));
                s.push('/');
                s.push_str(&id(rng));
            }
            _ => {
                s.push_str("/p2p/");
                s.push_str(&id(rng));
            }
        }
    }
    match rng.below(28) {
        0 => s.push('/'),
        1 => {
            if !s.is_empty() {
                s.remove(0);
            }
        }
        2 => s.insert(0, '/'),
        3 => s.push_str("/p2p"),
        4 => s.push_str("/ipfs"),
        5 => s.clear(),
        6 => s = "/".into(),
        _ => {}
    }
    s.into_bytes()
}

fn gen_pair(rng: &mut Rng) -> (Vec<u8>, Vec<u8>) {
    let a = if rng.chance(90) { gen_valid_id_bytes(rng) } else { gen_multihash_bytes(rng) };
    let b = match rng.below(8) {
        0 | 1 => a.clone(),
        2 | 3 => {
            let mut b = a.clone();
            if b.len() > 2 {
                let i = rng.range(2, b.len() as u64 - 1) as usize;
                b[i] = b[i].wrapping_add(rng.pick(&[1u8, 255, 128]));
            }
            b
        }
        4 => {
            // same digest, other code
            let mut b = a.clone();
            if !b.is_empty() {
                b[0] = if b[0] == 0 { 0x12 } else { 0 };
            }
            b
        }
        5 => {
            // digest one byte longer or shorter (a prefix of the other)
            let mut b = a.clone();
            if b.len() > 2 && rng.chance(50) {
                b.pop();
                b[1] = b[1].wrapping_sub(1);
            } else if b.len() >= 2 && b[1] < 42 {
                b.push(rng.pick(&[0u8, 1, 255]));
                b[1] = b[1].wrapping_add(1);
            }
            b
        }
        _ => gen_valid_id_bytes(rng),
    };
    if rng.chance(50) {
        (a, b)
    } else {
        (b, a)
    }
}

/// A binary multiaddress: a few well-formed components, then possibly a /p2p component in one of
/// the byte-level styles of `gen_component`, then possibly damage.
fn gen_addr_bytes(rng: &mut Rng) -> Vec<u8> {
    let mut a = Multiaddr::empty();
    let n = rng.pick(&[0u64, 1, 2, 2, 3, 4]);
    for _ in 0..n {
        let p = match rng.below(14) {
            0 | 1 => Protocol::Ip4(std::net::Ipv4Addr::new(rng.next() as u8, 2, 3, rng.next() as u8)),
            2 => Protocol::Ip6(std::net::Ipv6Addr::new(0x2001, 0xdb8, 0, 0, 0, 0, rng.next() as u16, 1)),
            3 | 4 => Protocol::Tcp(rng.next() as u16),
            5 => Protocol::Udp(rng.next() as u16),
            6 => Protocol::QuicV1,
            7 => Protocol::Ws(std::borrow::Cow::Borrowed("/")),
            8 => Protocol::Wss(std::borrow::Cow::Borrowed("/")),
            9 => Protocol::Dns4(std::borrow::Cow::Borrowed("example.com")),
            10 => Protocol::P2pCircuit,
            11 => Protocol::Memory(rng.next()),
            12 => Protocol::WebRTCDirect,
            _ => match RefPeerId::from_bytes(&gen_valid_id_bytes(rng)) {
                Ok(p) => Protocol::P2p(p),
                Err(_) => Protocol::P2pCircuit,
            },
        };
        a = a.with(p);
    }
    let mut b = a.to_vec();
    match rng.below(10) {
        0..=3 => b.extend(gen_component(rng)),
        4 | 5 => {
            let id = gen_valid_id_bytes(rng);
            b.extend([0xa5, 0x03, id.len() as u8]);
            b.extend(id);
        }
        _ => {}
    }
    match rng.below(30) {
        0 => {
            b.pop();
        }
        1 => {
            if !b.is_empty() {
                let i = rng.below(b.len() as u64) as usize;
                b[i] ^= 1 << rng.below(8);
            }
        }
        2 => b.extend(rand_bytes(rng, 2)),
        3 => b.extend([0x06, 0x1f, 0x90]), // a /tcp after the /p2p
        _ => {}
    }
    b
}

/// The part of the quantifier that is small enough to enumerate, run before the random cases of
/// every stream: every multihash code of interest x every digest length 0..=70 in canonical form
/// as bytes, as text and as a /p2p component; a key blob of every length 0..=100; every key type
/// of keys.proto (and numbers around / outside the enum, incl. the i32 wrap-arounds) x Data
/// lengths around 32 in canonical framing; every (code, length) pair once more as an
/// AddressRecord peer.
fn systematic_cases(rng: &mut Rng) -> Vec<Vec<u64>> {
    let mut out = Vec::new();
    for code in [0x00u64, 0x11, 0x12, 0x13, 0x16, 0xb220] {
        for l in 0..=70usize {
            let mut b = varint(code);
            b.extend(varint(l as u64));
            b.extend(rand_bytes(rng, l));
            let mut c = vec![1];
            el(&mut c, &b);
            out.push(c);
            if code == 0 || code == 0x12 {
                let mut c = vec![2];
                el(&mut c, bs58::encode(&b).into_string().as_bytes());
                out.push(c);
                let mut comp = vec![0xa5, 0x03];
                comp.extend(varint(b.len() as u64));
                comp.extend(&b);
                let mut c = vec![3];
                el(&mut c, &comp);
                out.push(c);
                let mut c = vec![11];
                el(&mut c, &b);
                el(&mut c, &[4, 10, 0, 0, 1, 6, 0x1f, 0x90]);
                out.push(c);
            }
        }
    }
    for l in 0..=100usize {
        out.push(mk_blob_case(&rand_bytes(rng, l)));
    }
    let key = keypair_of(&random_secret(rng)).unwrap().public().to_bytes().to_vec();
    // every entry of keys.proto's KeyType (table extracted from the source), the two numbers after the
    // last one, and the values whose `as i32` truncation lands inside / outside the enum
    let mut types: Vec<u64> = gen::KEY_TYPE_NUMBERS.to_vec();
    let top = types.iter().copied().max().unwrap_or(0);
    types.extend([top + 1, top + 2, 127, 128, (1 << 31) - 1, 1 << 31, u64::MAX]);
    types.extend(gen::KEY_TYPE_NUMBERS.iter().map(|t| (1u64 << 32) + t));
    types.push((1u64 << 32) + top + 1);
    for t in types {
        for dl in [0usize, 1, 31, 32, 33, 64] {
            let mut data = key.clone();
            data.resize(dl, 7);
            let mut b = vec![0x08];
            b.extend(varint(t));
            b.push(0x12);
            b.extend(varint(dl as u64));
            b.extend(&data);
            out.push(mk_blob_case(&b));
        }
    }
    out
}

fn gen_case(rng: &mut Rng, aux_only: bool) -> Vec<u64> {
    if aux_only {
        // the optional build: TLS certificates (QUIC) and RSA keys
        if rng.chance(35) {
            return aux::gen_rsa_case(rng);
        }
        let mut c = gen_key_case(rng);
        c[0] = 9;
        return c;
    }
    match rng.below(100) {
        0..=27 => {
            let mut c = vec![1];
            el(&mut c, &gen_multihash_bytes(rng));
            c
        }
        28..=39 => {
            let mut c = vec![2];
            el(&mut c, &gen_text(rng));
            c
        }
        40..=51 => {
            let mut c = vec![3];
            el(&mut c, &gen_component(rng));
            c
        }
        52..=63 => {
            let mut c = vec![6];
            el(&mut c, &gen_addr_text(rng));
            c
        }
        64..=73 => {
            let (a, b) = gen_pair(rng);
            let mut c = vec![7];
            el(&mut c, &a);
            el(&mut c, &b);
            c
        }
        74 => vec![8, rng.range(1, 8)],
        75..=80 => {
            let peer = if rng.chance(92) { gen_valid_id_bytes(rng) } else { gen_multihash_bytes(rng) };
            let mut c = vec![11];
            el(&mut c, &peer);
            el(&mut c, &gen_addr_bytes(rng));
            c
        }
        81..=90 => {
            let key = if rng.chance(80) {
                keypair_of(&random_secret(rng)).unwrap().public().to_bytes().to_vec()
            } else {
                rand_bytes(rng, 32)
            };
            mk_blob_case(&gen_blob(rng, &key))
        }
        _ => gen_key_case(rng),
    }
}

fn gen_key_case(rng: &mut Rng) -> Vec<u64> {
    let secret = random_secret(rng);
    let key = if rng.chance(92) {
        keypair_of(&secret).unwrap().public().to_bytes().to_vec()
    } else {
        keypair_of(&random_secret(rng)).unwrap().public().to_bytes().to_vec()
    };
    let blob = if rng.chance(35) {
        let mut b = vec![8, 1, 18, 32];
        b.extend(&key);
        b
    } else {
        gen_blob(rng, &key)
    };
    mk_key_case(&secret, &blob)
}

pub fn main(args: &Args) {
    let seed = args.u64("seed", 1);
    let ncases = args.u64("cases", 100);
    let mut out = Outputs::open(args);
    // util::Rng::new(seed) puts consecutive seeds one step apart on ONE splitmix64 orbit (seed k+1 is
    // seed k shifted by a case); take the output of one step as the state instead, so that different
    // seeds give unrelated case streams
    let mut rng = Rng(Rng::new(seed).next() ^ 0xC18_C18_C18);
    let run = |c: &[u64]| -> Vec<u64> {
        catch_unwind(AssertUnwindSafe(|| run_case(c))).unwrap_or(Some(vec![PANIC_MARK])).unwrap_or(vec![0])
    };

    let mut stored: Vec<Vec<u64>> = Vec::new();
    if let Some(r) = args.str("replay") {
        stored = read_cases(Path::new(r));
    } else if let Some(d) = args.str("corpus") {
        stored = read_cases(Path::new(d));
    }
    for c in stored.iter() {
        let c = catch_unwind(AssertUnwindSafe(|| normalise(c))).unwrap_or(c.clone());
        let t = run(&c);
        out.emit(&c, &t);
    }
    if args.str("replay").is_some() {
        return;
    }
    let aux_only = args.str("aux").is_some();
    if aux_only && !aux::ENABLED {
        eprintln!("c18 --aux needs a harness built with --features quic,rsa");
        std::process::exit(2);
    }
    if !aux_only {
        let mut r = rng.fork();
        for c in systematic_cases(&mut r) {
            let t = run(&c);
            out.emit(&c, &t);
        }
    }
    for _ in 0..ncases {
        let mut r = rng.fork();
        let c = gen_case(&mut r, aux_only);
        let t = run(&c);
        out.emit(&c, &t);
    }
}
