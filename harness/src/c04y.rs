//! C04, kinds 40 / 41: the real Substream (TCP or WebSocket substream type) over a REAL yamux connection whose
//! remote end is played by the harness, frame by frame (formats: coq/C04/GlueYamux.v). Nothing runs on a tokio
//! runtime: the connection is polled by hand ("the connection task runs") exactly when the case says so, so the
//! credit pattern, the backlog of the stream's command channel and the fragmentation are the case's choice.
use crate::c04::{err_code, mk_msg, poll_code, rle, Cur, HarnessWake, MAX_LEN, PANIC};
use crate::util::Rng;
use bytes::Bytes;
use futures::{Sink, Stream};
use litep2p::{
    codec::ProtocolCodec,
    error::SubstreamError,
    substream::{verif_substream_over_yamux, Substream},
    yamux::{Config, Connection, Mode},
};
use std::{
    future::Future,
    panic::{catch_unwind, AssertUnwindSafe},
    pin::Pin,
    sync::Arc,
    task::{Context, Poll},
};
use tokio::io::{AsyncRead, AsyncWrite, DuplexStream, ReadBuf};
use tokio_util::compat::{Compat, TokioAsyncReadCompatExt};

const SYN: u16 = 1;
const FIN: u16 = 4;
const RST: u16 = 8;
const T_DATA: u8 = 0;
const T_WINDOW: u8 = 1;
const DEFAULT_CREDIT: u64 = 256 * 1024;

/// The remote end: raw yamux frames over the other half of the in-memory pipe.
struct Peer {
    io: DuplexStream,
    inbuf: Vec<u8>,
    /// payload of the data frames of stream 1 received so far, their lengths, whether a FIN was seen
    data: Vec<u8>,
    frames: Vec<usize>,
    fin: bool,
}

impl Peer {
    fn send(&mut self, cx: &mut Context<'_>, typ: u8, flags: u16, len: u32, body: &[u8]) {
        let mut f = vec![0u8, typ];
        f.extend(flags.to_be_bytes());
        f.extend(1u32.to_be_bytes());
        f.extend(len.to_be_bytes());
        f.extend(body);
        let mut off = 0;
        while off < f.len() {
            match Pin::new(&mut self.io).poll_write(cx, &f[off..]) {
                Poll::Ready(Ok(n)) if n > 0 => off += n,
                _ => panic!("peer pipe full"),
            }
        }
    }
    /// read whatever the connection has written and parse complete frames
    fn drain(&mut self, cx: &mut Context<'_>) {
        let mut tmp = vec![0u8; 1 << 16];
        loop {
            let mut rb = ReadBuf::new(&mut tmp);
            match Pin::new(&mut self.io).poll_read(cx, &mut rb) {
                Poll::Ready(Ok(())) if !rb.filled().is_empty() => self.inbuf.extend_from_slice(rb.filled()),
                _ => break,
            }
        }
        loop {
            if self.inbuf.len() < 12 {
                break;
            }
            let typ = self.inbuf[1];
            let flags = u16::from_be_bytes([self.inbuf[2], self.inbuf[3]]);
            let id = u32::from_be_bytes([self.inbuf[4], self.inbuf[5], self.inbuf[6], self.inbuf[7]]);
            let len = u32::from_be_bytes([self.inbuf[8], self.inbuf[9], self.inbuf[10], self.inbuf[11]]) as usize;
            let body = if typ == T_DATA { len } else { 0 };
            if self.inbuf.len() < 12 + body {
                break;
            }
            if id == 1 {
                // a close / reset travels as an empty data frame carrying FIN / RST: not payload
                if typ == T_DATA && (body > 0 || flags & (FIN | RST) == 0) {
                    self.data.extend_from_slice(&self.inbuf[12..12 + body]);
                    self.frames.push(body);
                }
                if (typ == T_DATA || typ == T_WINDOW) && flags & FIN != 0 {
                    self.fin = true;
                }
            }
            self.inbuf.drain(..12 + body);
        }
    }
}

struct Rig {
    conn: Connection<Compat<DuplexStream>>,
    peer: Peer,
    alive: bool,
}

impl Rig {
    fn new(mode: Mode) -> Rig {
        let (a, b) = tokio::io::duplex(1 << 25);
        Rig {
            conn: Connection::new(a.compat(), Config::default(), mode),
            peer: Peer { io: b, inbuf: Vec::new(), data: Vec::new(), frames: Vec::new(), fin: false },
            alive: true,
        }
    }
    /// the connection task runs until it has nothing more to do; inbound streams are returned
    fn pump(&mut self, cx: &mut Context<'_>) -> Vec<litep2p::yamux::Stream> {
        let mut inbound = Vec::new();
        while self.alive {
            match self.conn.poll_next_inbound(cx) {
                Poll::Pending => break,
                Poll::Ready(Some(Ok(s))) => inbound.push(s),
                Poll::Ready(Some(Err(_))) | Poll::Ready(None) => self.alive = false,
            }
        }
        self.peer.drain(cx);
        inbound
    }
}

fn parse_codec(tag: u64, arg: u64) -> Option<ProtocolCodec> {
    Some(match tag {
        0 if arg <= MAX_LEN => ProtocolCodec::Identity(arg as usize),
        1 if arg == 0 => ProtocolCodec::UnsignedVarint(None),
        2 => ProtocolCodec::UnsignedVarint(Some(arg as usize)),
        _ => return None,
    })
}

#[derive(Debug)]
enum YOp {
    Ready,
    StartSend(u8, usize),
    Flush,
    SendFramed(u8, usize),
    PollClose,
    CloseAll,
    Env(u64, bool),
}

/// one wake-up / environment move: the peer's frames arrive, the connection task runs
fn env(rig: &mut Rig, cx: &mut Context<'_>, grant: u64, rst: bool) {
    if grant > 0 {
        rig.peer.send(cx, T_WINDOW, 0, grant as u32, &[]);
    }
    if rst {
        rig.peer.send(cx, T_WINDOW, RST, 0, &[]);
    }
    rig.pump(cx);
}

pub fn run_writer(c: &[u64]) -> Vec<u64> {
    let mut cur = Cur(c, 0);
    let parsed = (|| {
        if cur.next()? != 40 {
            return None;
        }
        let ws = cur.next()?;
        let tag = cur.next()?;
        let arg = cur.next()?;
        let codec = parse_codec(tag, arg)?;
        let ballast = cur.next()?;
        let extra = cur.next()?;
        if ws > 1 || ballast > DEFAULT_CREDIT || extra > (1 << 30) {
            return None;
        }
        let nops = cur.count()?;
        let mut ops = Vec::new();
        for _ in 0..nops {
            ops.push(match cur.next()? {
                0 => YOp::Ready,
                t @ (1 | 3) => {
                    let b = cur.next()?;
                    let len = cur.next()?;
                    if b > 255 || len > MAX_LEN {
                        return None;
                    }
                    if t == 1 { YOp::StartSend(b as u8, len as usize) } else { YOp::SendFramed(b as u8, len as usize) }
                }
                2 => YOp::Flush,
                4 => YOp::PollClose,
                5 => YOp::CloseAll,
                6 => {
                    let g = cur.next()?;
                    let r = cur.next()?;
                    if g > (1 << 30) || r > 1 {
                        return None;
                    }
                    YOp::Env(g, r == 1)
                }
                _ => return None,
            });
        }
        if ops.iter().rev().skip(1).any(|o| matches!(o, YOp::CloseAll)) {
            return None;
        }
        let nw = cur.count()?;
        let mut wakes = std::collections::VecDeque::new();
        for _ in 0..nw {
            let g = cur.next()?;
            let r = cur.next()?;
            if g > (1 << 30) || r > 1 {
                return None;
            }
            wakes.push_back((g, r == 1));
        }
        if cur.1 != c.len() {
            return None;
        }
        Some((ws == 1, codec, ballast, extra, ops, wakes))
    })();
    let Some((ws, codec, ballast, extra, ops, mut wakes)) = parsed else { return vec![0] };
    let waker = futures::task::waker(Arc::new(HarnessWake));
    let mut cx = Context::from_waker(&waker);
    let r = catch_unwind(AssertUnwindSafe(|| {
        let mut out = vec![5u64];
        let mut rig = Rig::new(Mode::Client);
        let stream = match rig.conn.poll_new_outbound(&mut cx) {
            Poll::Ready(Ok(s)) => s,
            _ => return vec![5, PANIC],
        };
        let mut sub = Some(verif_substream_over_yamux(ws, stream, codec, 1));
        // ballast: use up part of the initial window through the raw AsyncWrite face of the Substream
        let mut left = ballast as usize;
        let chunk = vec![0xEEu8; 16384];
        while left > 0 {
            match AsyncWrite::poll_write(Pin::new(sub.as_mut().unwrap()), &mut cx, &chunk[..left.min(16384)]) {
                Poll::Ready(Ok(n)) if n > 0 => left -= n,
                Poll::Pending => {
                    rig.pump(&mut cx);
                }
                _ => return vec![5, PANIC],
            }
        }
        if extra > 0 {
            rig.peer.send(&mut cx, T_WINDOW, 0, extra as u32, &[]);
        }
        rig.pump(&mut cx);
        let base = rig.peer.data.len();
        let base_frames = rig.peer.frames.len();
        if base != ballast as usize {
            return vec![5, PANIC];
        }
        let mut stopped = false;
        for op in &ops {
            let mut one = |p: Poll<Result<(), SubstreamError>>| vec![poll_code(p)];
            let head: Vec<u64> = match op {
                YOp::Ready => one(Sink::<Bytes>::poll_ready(Pin::new(sub.as_mut().unwrap()), &mut cx)),
                YOp::Flush => one(Sink::<Bytes>::poll_flush(Pin::new(sub.as_mut().unwrap()), &mut cx)),
                YOp::PollClose => one(Sink::<Bytes>::poll_close(Pin::new(sub.as_mut().unwrap()), &mut cx)),
                YOp::StartSend(b, len) =>
                    match Sink::<Bytes>::start_send(Pin::new(sub.as_mut().unwrap()), mk_msg(*b, *len)) {
                        Ok(()) => vec![1],
                        Err(e) => vec![err_code(&e)],
                    },
                YOp::SendFramed(b, len) => {
                    let mut fut = Box::pin(sub.as_mut().unwrap().send_framed(mk_msg(*b, *len)));
                    let mut npend = 0u64;
                    loop {
                        match fut.as_mut().poll(&mut cx) {
                            Poll::Ready(Ok(())) => break vec![1, npend],
                            Poll::Ready(Err(e)) => break vec![err_code(&e), npend],
                            Poll::Pending => {
                                npend += 1;
                                match wakes.pop_front() {
                                    Some((g, r)) => env(&mut rig, &mut cx, g, r),
                                    None => {
                                        stopped = true;
                                        break vec![0, npend];
                                    }
                                }
                            }
                        }
                    }
                }
                YOp::CloseAll => {
                    let mut fut = Box::pin(sub.take().unwrap().close());
                    let mut npend = 0u64;
                    loop {
                        match fut.as_mut().poll(&mut cx) {
                            Poll::Ready(()) => break vec![1, npend],
                            Poll::Pending => {
                                npend += 1;
                                match wakes.pop_front() {
                                    Some((g, r)) => env(&mut rig, &mut cx, g, r),
                                    None => {
                                        stopped = true;
                                        break vec![0, npend];
                                    }
                                }
                            }
                        }
                    }
                }
                YOp::Env(g, r) => {
                    env(&mut rig, &mut cx, *g, *r);
                    vec![]
                }
            };
            out.extend(head);
            if !matches!(op, YOp::Env(..) | YOp::CloseAll) {
                let (pbytes, frames, cur, ..) = sub.as_ref().unwrap().verif_state();
                out.push(pbytes as u64);
                out.push(frames.len() as u64);
                out.extend(frames.iter().map(|l| *l as u64));
                out.push(cur.map(|l| l as u64 + 1).unwrap_or(0));
            }
            out.push((rig.peer.data.len() - base) as u64);
            if stopped {
                break;
            }
        }
        // what the peer finally has
        rig.pump(&mut cx);
        out.push(stopped as u64);
        let fr = &rig.peer.frames[base_frames..];
        out.push(fr.len() as u64);
        out.extend(fr.iter().map(|l| *l as u64));
        rle(&mut out, &rig.peer.data[base..]);
        out.push(rig.peer.fin as u64);
        out
    }));
    r.unwrap_or(vec![5, PANIC])
}

// ---------------------------------------------------------------- kind 41: the reading side

pub fn run_reader(c: &[u64]) -> Vec<u64> {
    let mut cur = Cur(c, 0);
    let parsed = (|| {
        if cur.next()? != 41 {
            return None;
        }
        let ws = cur.next()?;
        let tag = cur.next()?;
        let arg = cur.next()?;
        let codec = parse_codec(tag, arg)?;
        if ws > 1 {
            return None;
        }
        let nraw = cur.count()?;
        let mut wire = Vec::new();
        for _ in 0..nraw {
            let b = cur.next()?;
            let k = cur.next()?;
            if b > 255 || k > MAX_LEN {
                return None;
            }
            wire.extend(std::iter::repeat(b as u8).take(k as usize));
        }
        if wire.len() as u64 > 200_000 {
            return None;
        }
        let nsteps = cur.count()?;
        let mut steps = Vec::new();
        let mut ended = false;
        for _ in 0..nsteps {
            let t = cur.next()?;
            match t {
                0 => {
                    let k = cur.next()?;
                    if k > MAX_LEN || ended {
                        return None;
                    }
                    steps.push((0u64, k as usize));
                }
                1 | 3 => {
                    if ended {
                        return None;
                    }
                    ended = true;
                    steps.push((t, 0));
                }
                2 => steps.push((2, 0)),
                _ => return None,
            }
        }
        if cur.1 != c.len() {
            return None;
        }
        Some((ws == 1, codec, wire, steps))
    })();
    let Some((ws, codec, wire, steps)) = parsed else { return vec![0] };
    let waker = futures::task::waker(Arc::new(HarnessWake));
    let mut cx = Context::from_waker(&waker);
    let r = catch_unwind(AssertUnwindSafe(|| {
        let mut out = vec![6u64];
        let mut rig = Rig::new(Mode::Server);
        // the peer opens stream 1
        rig.peer.send(&mut cx, T_WINDOW, SYN, 0, &[]);
        let mut inbound = rig.pump(&mut cx);
        let Some(stream) = inbound.pop() else { return vec![6, PANIC] };
        let mut sub = verif_substream_over_yamux(ws, stream, codec, 2);
        let mut pos = 0usize;
        for (t, k) in steps {
            match t {
                0 => {
                    let k = k.min(wire.len() - pos);
                    rig.peer.send(&mut cx, T_DATA, 0, k as u32, &wire[pos..pos + k]);
                    pos += k;
                    rig.pump(&mut cx);
                }
                1 => {
                    rig.peer.send(&mut cx, T_WINDOW, FIN, 0, &[]);
                    rig.pump(&mut cx);
                }
                3 => {
                    rig.peer.send(&mut cx, T_WINDOW, RST, 0, &[]);
                    rig.pump(&mut cx);
                }
                _ => {
                    match Stream::poll_next(Pin::new(&mut sub), &mut cx) {
                        Poll::Pending => out.push(0),
                        Poll::Ready(None) => out.push(1),
                        Poll::Ready(Some(Ok(frame))) => {
                            out.push(2);
                            rle(&mut out, &frame);
                        }
                        Poll::Ready(Some(Err(SubstreamError::ReadFailure(_)))) => out.push(3),
                        Poll::Ready(Some(Err(_))) => out.push(4),
                    }
                    let (_, _, _, buf_len, offset, cur, _) = sub.verif_state();
                    out.extend([buf_len as u64, offset as u64, cur.map(|x| x as u64 + 1).unwrap_or(0)]);
                    // reading may have produced a window update: let the connection send it
                    rig.pump(&mut cx);
                }
            }
        }
        out.push(rig.alive as u64);
        out
    }));
    r.unwrap_or(vec![6, PANIC])
}

// ---------------------------------------------------------------- generators

fn gen_codec(rng: &mut Rng) -> (u64, u64) {
    match rng.below(10) {
        0..=2 => (0, rng.pick(&[1u64, 10, 300, 1024, 1025, 4000, 20000, 0])),
        3..=5 => (1, 0),
        _ => (2, rng.pick(&[0u64, 1, 127, 128, 300, 16384, 70000])),
    }
}

pub fn gen_writer(rng: &mut Rng, thorough: bool) -> Vec<u64> {
    let (tag, arg) = gen_codec(rng);
    let ws = rng.below(2);
    // the window the case starts with: usually small, so that it is exhausted inside messages
    let credit0 = rng.pick(&[0u64, 1, 2, 5, 100, 1000, 16383, 16384, 16385, 40000, DEFAULT_CREDIT, DEFAULT_CREDIT + 5000]);
    let (ballast, extra) = if credit0 <= DEFAULT_CREDIT { (DEFAULT_CREDIT - credit0, 0) } else { (0, credit0 - DEFAULT_CREDIT) };
    let mut c = vec![40, ws, tag, arg, ballast, extra];
    let mut ops: Vec<u64> = Vec::new();
    let mut nops = 0u64;
    let nmsgs = rng.range(1, if thorough { 8 } else { 5 });
    let fit = |rng: &mut Rng| -> u64 {
        match tag {
            0 => arg,
            1 => rng.pick(&[0u64, 1, 5, 127, 128, 1000, 16383, 16384, 16385, 40000, 3]),
            _ => rng.pick(&[0u64, 1, arg / 2, arg, 127.min(arg), 128.min(arg), 16384.min(arg), 3.min(arg)]).min(40000),
        }
    };
    let env = |rng: &mut Rng| -> (u64, u64) {
        (rng.pick(&[0u64, 0, 1, 7, 100, 5000, 16384, 20000, 100000]), (rng.chance(2)) as u64)
    };
    // now and then more frames are queued than the stream's command channel takes before the connection task
    // runs (11): a burst of small messages through the Sink, flushed in one go
    if rng.chance(15) {
        let n = rng.range(5, 14);
        for j in 0..n {
            let len = match tag {
                0 => arg,
                1 => rng.below(4),
                _ => rng.below(4).min(arg),
            };
            if len > 2000 {
                break;
            }
            ops.extend([1, 200 + j, len]);
            nops += 1;
        }
        for _ in 0..rng.range(1, 3) {
            ops.push(2);
            nops += 1;
            if rng.chance(50) {
                let (g, r) = env(rng);
                ops.extend([6, g, r]);
                nops += 1;
            }
        }
    }
    // the extracted model works on byte lists: the volume of a case stays below ~90 kB
    let mut budget = 90_000u64;
    for i in 0..nmsgs {
        let b = (i * 2 + rng.below(2) * 100 + 3) % 256;
        let mut len = fit(rng);
        if rng.chance(8) {
            len = match tag {
                0 => rng.pick(&[arg + 1, arg.saturating_sub(1), 0]),
                2 => arg + 1,
                _ => len,
            }
            .min(40001);
        }
        if len > budget {
            if tag == 0 {
                break;
            }
            len = budget;
        }
        budget -= len;
        if rng.chance(45) {
            ops.extend([3, b, len]);
            nops += 1;
        } else {
            if rng.chance(80) {
                ops.push(0);
                nops += 1;
            }
            ops.extend([1, b, len]);
            nops += 1;
            for _ in 0..rng.pick(&[0u64, 1, 1, 2, 3]) {
                ops.push(2);
                nops += 1;
                if rng.chance(40) {
                    let (g, r) = env(rng);
                    ops.extend([6, g, r]);
                    nops += 1;
                }
            }
        }
        if rng.chance(30) {
            let (g, r) = env(rng);
            ops.extend([6, g, r]);
            nops += 1;
        }
    }
    for _ in 0..rng.range(0, 3) {
        ops.push(2);
        nops += 1;
        if rng.chance(50) {
            let (g, r) = env(rng);
            ops.extend([6, g, r]);
            nops += 1;
        }
    }
    match rng.below(10) {
        0..=2 => {
            for _ in 0..rng.range(1, 2) {
                ops.push(4);
                nops += 1;
            }
            if rng.chance(40) {
                ops.extend([3, 77, fit(rng)]);
                nops += 1;
            }
        }
        3..=4 => {
            ops.push(5);
            nops += 1;
        }
        _ => {}
    }
    c.push(nops);
    c.extend(ops);
    let nw = rng.pick(&[0u64, 1, 3, 8, 20, 40]);
    c.push(nw);
    for _ in 0..nw {
        let (g, r) = env(rng);
        c.extend([g, r]);
    }
    c
}

/// Systematic block for kind 40: the yamux window has k bytes left (0 < k < frame) when a frame is written, the
/// stream stalls at zero credit inside the frame, a later window update lets the rest through; every k for
/// small frames, for poll_flush, send_framed and send_framed behind a queued frame.
pub fn sys_partial_cases() -> Vec<Vec<u64>> {
    let mut out = Vec::new();
    // (tag, arg, len): wire sizes 5, 6 (1 + 5), 132 (2 + 130)
    for (tag, arg, len, ks) in [
        (0u64, 5u64, 5u64, &[1u64, 2, 3, 4][..]),
        (1, 0, 5, &[1, 2, 3, 4, 5][..]),
        (2, 300, 130, &[1, 2, 3, 70, 131][..]),
    ] {
        for path in 0..3u64 {
            for &k in ks {
                for ws in 0..2u64 {
                    // the window: k bytes; the first grant comes between two operations, the later ones as wake-ups
                    let mut c = vec![40, ws, tag, arg, DEFAULT_CREDIT - k, 0];
                    let ops: Vec<u64> = match path {
                        0 => vec![0, 1, 31, len, 2, 6, 1, 0, 2, 6, 1000, 0, 2, 2],
                        1 => vec![3, 31, len, 3, 33, len],
                        _ => vec![0, 1, 31, len, 3, 33, len, 2],
                    };
                    let nops = match path { 0 => 8, 1 => 2, _ => 4 };
                    c.push(nops);
                    c.extend(ops);
                    c.extend([7, 0, 0, 1, 0, 0, 0, 2, 0, 1000, 0, 1000, 0, 0, 0]);
                    out.push(c);
                }
            }
        }
    }
    out
}

fn push_varint(raw: &mut Vec<(u64, u64)>, mut n: u64) {
    loop {
        if n < 128 {
            raw.push((n, 1));
            break;
        }
        raw.push((128 + n % 128, 1));
        n /= 128;
    }
}

pub fn gen_reader(rng: &mut Rng, thorough: bool) -> Vec<u64> {
    let (tag, arg) = gen_codec(rng);
    let arg = if tag == 0 { arg.min(4000) } else { arg };
    let mut c = vec![41, rng.below(2), tag, arg];
    let mut raw: Vec<(u64, u64)> = Vec::new();
    let n = rng.range(0, if thorough { 8 } else { 5 });
    for i in 0..n {
        let b = (i * 2 + 3) % 128;
        let len = match tag {
            0 => arg,
            1 => rng.pick(&[0u64, 1, 5, 127, 128, 1000, 16384, 3]),
            _ => rng.pick(&[0u64, 1, arg / 2, arg, 127.min(arg), 128.min(arg)]).min(20000),
        };
        if tag != 0 {
            push_varint(&mut raw, len);
        }
        if len >= 2 {
            raw.push((b, len - 1));
            raw.push((b + 1, 1));
        } else if len == 1 {
            raw.push((b, 1));
        }
    }
    if rng.chance(15) {
        // something malformed / truncated at the end
        match rng.below(3) {
            0 => raw.push((200, rng.pick(&[1u64, 10, 11]))),
            1 => {
                raw.push((129, 1));
                raw.push((0, 1));
            }
            _ => {
                raw.push((5, 1));
                raw.push((9, 2));
            }
        }
    }
    let total: u64 = raw.iter().map(|r| r.1).sum();
    c.push(raw.len() as u64);
    for (b, k) in &raw {
        c.extend([*b, *k]);
    }
    let mut steps: Vec<u64> = Vec::new();
    let mut nsteps = 0u64;
    let mut moved = 0u64;
    let style = rng.below(4);
    let mut ended = false;
    while (moved < total || rng.chance(60)) && nsteps < 300 {
        if moved < total && rng.chance(55) && !ended {
            let k = match style {
                0 => rng.range(1, 3),
                1 => rng.range(1, 50),
                2 => rng.pick(&[1u64, 127, 128, 1000, 1024, 5000, 16384]),
                _ => total,
            };
            steps.extend([0, k]);
            moved += k;
        } else {
            steps.push(2);
        }
        nsteps += 1;
        if !ended && moved >= total && rng.chance(40) {
            steps.push(if rng.chance(85) { 1 } else { 3 });
            nsteps += 1;
            ended = true;
        }
        if !ended && rng.chance(1) {
            steps.push(3);
            nsteps += 1;
            ended = true;
        }
    }
    for _ in 0..rng.range(1, 6) {
        steps.push(2);
        nsteps += 1;
    }
    c.push(nsteps);
    c.extend(steps);
    c
}

#[allow(dead_code)]
fn _unused(_: &dyn Future<Output = ()>, _: &dyn AsyncRead) {}
