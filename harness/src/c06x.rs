//! C06 extension streams (child module of c05.rs, active only with `--focus limits`).
//! Formats: coq/C06/Glue.v.
//!
//! * tag 9600 — the REAL `ConnectionLimits` object driven directly: a configuration built by a
//!   sequence of `ConnectionLimitsConfig` builder calls, then any sequence of method calls (also
//!   ones no manager would make: accepts without a check, repeated ids, closes of unknown ids);
//!   after every call its result and both counted sets are recorded.
//! * tag 9601 — the REAL `PeerState` driven directly: any start state (all seven shapes, with the
//!   `ConnectionRecord`s, the address set and the transport set it stores), then any sequence of
//!   calls of its eight methods; after every call the result and the whole state are recorded.
//!   Every run starts with the exhaustive table: every shape x every event class, one call each.
//! * tags 9603 / 9604 — real sockets: see c06_sock.rs (real transports) and c06_e2e.rs (complete nodes).
//! * tag 9602 — the manager stream of c05.rs (`--focus limits` generator, crowd shapes and all),
//!   wrapped: after every step the log of the calls the manager made on its `ConnectionLimits`
//!   (method, arguments, result, in order) is appended, and the scripted transports return an
//!   error from `reject` / `accept_pending` / `reject_pending` according to the mask of the case
//!   (the manager ignores these results).
use super::*;
use litep2p::transport::verif::caps::{
    self, limits_log, ConnectionLimits, ConnectionRecord, PeerState, SecondaryOrDialing, StateDialResult,
};
use std::{cell::Cell, collections::HashSet};

pub const TAG_LIMITS: u64 = 9600;
pub const TAG_PEER: u64 = 9601;
pub const TAG_WRAPPED: u64 = 9602;

#[path = "c06_sock.rs"]
mod sock;

#[path = "c06_e2e.rs"]
mod e2e;

thread_local! {
    static WRAP: Cell<bool> = const { Cell::new(false) };
}

pub fn is_tagged(c: &[u64]) -> bool {
    matches!(c.first(), Some(&TAG_LIMITS) | Some(&TAG_PEER) | Some(&TAG_WRAPPED) | Some(&sock::TAG_SOCK) | Some(&e2e::TAG_E2E))
}

/// Called by `apply` at the end of every manager step: the calls made on ConnectionLimits during it.
pub fn post_step(out: &mut Vec<u64>) {
    let log = limits_log::take();
    if !WRAP.with(|w| w.get()) {
        return;
    }
    out.push(log.len() as u64);
    for e in log {
        out.extend(e.iter().map(|x| *x as u64));
    }
}

// ---------------------------------------------------------------------------------------------
// 9602: the wrapped manager stream
// ---------------------------------------------------------------------------------------------
fn with_wrap<T>(mask: u64, f: impl FnOnce() -> T) -> T {
    caps::verif_set_ext_failures((mask & 7) as u8);
    WRAP.with(|w| w.set(true));
    let _ = limits_log::take();
    let r = catch_unwind(AssertUnwindSafe(f));
    WRAP.with(|w| w.set(false));
    caps::verif_set_ext_failures(0);
    let _ = limits_log::take();
    match r {
        Ok(v) => v,
        Err(e) => std::panic::resume_unwind(e),
    }
}

pub fn wrapped_generated(rt: &Runtime, rng: &mut Rng, thorough: bool) -> (Vec<u64>, Vec<u64>) {
    // half of the cases with well-behaved transports, the others with every combination of failing
    // reject / accept_pending / reject_pending
    let mask = if rng.chance(50) { 0 } else { rng.range(1, 7) };
    let (c, t) = with_wrap(mask, || run_generated(rt, rng, thorough, true));
    let mut case = vec![TAG_WRAPPED, mask];
    case.extend(c);
    (case, t)
}

fn wrapped_stored(rt: &Runtime, c: &[u64]) -> (Vec<u64>, Vec<u64>) {
    if c.len() < 2 {
        return (c.to_vec(), vec![0]);
    }
    let mask = c[1];
    let (inner, t) = with_wrap(mask, || run_stored(rt, &c[2..]));
    let mut case = vec![TAG_WRAPPED, mask];
    case.extend(inner);
    (case, t)
}

// ---------------------------------------------------------------------------------------------
// 9600: the ConnectionLimits object
// ---------------------------------------------------------------------------------------------
#[derive(Clone, Copy, Debug)]
enum LOp {
    Dial,
    Incoming,
    Can(bool),
    Accept(u64, bool),
    Closed(u64),
}

fn enc_limits_case(calls: &[(u64, u64)], ops: &[LOp]) -> Vec<u64> {
    let mut c = vec![TAG_LIMITS, calls.len() as u64];
    for (side, v) in calls {
        c.extend([*side, *v]);
    }
    c.push(ops.len() as u64);
    for o in ops {
        match *o {
            LOp::Dial => c.push(0),
            LOp::Incoming => c.push(1),
            LOp::Can(b) => c.extend([2, b as u64]),
            LOp::Accept(id, b) => c.extend([3, id, b as u64]),
            LOp::Closed(id) => c.extend([4, id]),
        }
    }
    c
}

fn dec_limits_case(c: &[u64]) -> Option<(Vec<(u64, u64)>, Vec<LOp>)> {
    let mut i = 1usize;
    let mut next = || {
        let v = c.get(i).copied();
        i += 1;
        v
    };
    let n = next()?;
    if n > 64 {
        return None;
    }
    let mut calls = Vec::new();
    for _ in 0..n {
        let side = next()?;
        let v = next()?;
        if side > 1 || v > (1 << 40) {
            return None;
        }
        calls.push((side, v));
    }
    let n = next()?;
    if n > 4096 {
        return None;
    }
    let mut ops = Vec::new();
    for _ in 0..n {
        ops.push(match next()? {
            0 => LOp::Dial,
            1 => LOp::Incoming,
            2 => LOp::Can(next()? != 0),
            3 => LOp::Accept(next()?, next()? != 0),
            4 => LOp::Closed(next()?),
            _ => return None,
        });
    }
    if i != c.len() {
        return None;
    }
    Some((calls, ops))
}

fn enc_opt(o: Option<usize>) -> u64 {
    match o {
        None => 0,
        Some(k) => k as u64 + 1,
    }
}

fn run_limits(calls: &[(u64, u64)], ops: &[LOp]) -> Vec<u64> {
    let mut cfg = ConnectionLimitsConfig::default();
    for (side, v) in calls {
        cfg = if *side == 0 {
            cfg.max_incoming_connections(dec_opt(*v))
        } else {
            cfg.max_outgoing_connections(dec_opt(*v))
        };
    }
    let mut l = ConnectionLimits::new(cfg);
    let (ci, co) = l.verif_config();
    let mut t = vec![1, enc_opt(ci), enc_opt(co)];
    for o in ops {
        let res: [u64; 2] = match *o {
            LOp::Dial => match l.on_dial_address() {
                Ok(usize::MAX) => [1, 0],
                Ok(k) => [2, k as u64],
                Err(e) => [err_code(e), 0],
            },
            LOp::Incoming => match l.on_incoming() {
                Ok(()) => [0, 0],
                Err(e) => [err_code(e), 0],
            },
            LOp::Can(b) => match l.can_accept_connection(b) {
                Ok(()) => [0, 0],
                Err(e) => [err_code(e), 0],
            },
            LOp::Accept(id, b) => {
                l.accept_established_connection(caps::connection_id(id as usize), b);
                [0, 0]
            }
            LOp::Closed(id) => {
                l.on_connection_closed(caps::connection_id(id as usize));
                [0, 0]
            }
        };
        t.extend(res);
        let (mut i, mut u) = l.verif_sets();
        i.sort();
        u.sort();
        t.push(i.len() as u64);
        t.extend(i.iter().map(|x| *x as u64));
        t.push(u.len() as u64);
        t.extend(u.iter().map(|x| *x as u64));
    }
    let _ = limits_log::take();
    t
}

fn err_code(e: litep2p::transport::ConnectionLimitsError) -> u64 {
    match e {
        litep2p::transport::ConnectionLimitsError::MaxIncomingConnectionsExceeded => 3,
        litep2p::transport::ConnectionLimitsError::MaxOutgoingConnectionsExceeded => 4,
    }
}

fn limits_generated(rng: &mut Rng, thorough: bool) -> (Vec<u64>, Vec<u64>) {
    let ncalls = rng.pick(&[0u64, 1, 2, 2, 2, 3, 4]);
    let mut calls = Vec::new();
    for _ in 0..ncalls {
        calls.push((rng.below(2), rng.pick(&[0u64, 0, 1, 2, 2, 3, 3, 4, 5])));
    }
    let n = if thorough { rng.range(5, 80) } else { rng.range(3, 40) };
    let wild = rng.chance(40);
    let mut ops = Vec::new();
    let mut next_id = 0u64;
    let mut known: Vec<u64> = Vec::new();
    while (ops.len() as u64) < n {
        let id = |rng: &mut Rng, next_id: &mut u64, known: &mut Vec<u64>| -> u64 {
            if !known.is_empty() && rng.chance(15) {
                known[rng.below(known.len() as u64) as usize]
            } else {
                *next_id += 1;
                known.push(*next_id);
                *next_id
            }
        };
        match rng.below(100) {
            0..=9 => ops.push(LOp::Dial),
            10..=17 => ops.push(LOp::Incoming),
            18..=29 => ops.push(LOp::Can(rng.chance(50))),
            30..=64 => {
                // the manager's pattern: check, then accept (the harness does not know the result
                // of the check: a refused check followed by an accept is an undisciplined sequence)
                let b = rng.chance(55);
                ops.push(LOp::Can(b));
                let c = id(rng, &mut next_id, &mut known);
                ops.push(LOp::Accept(c, b));
            }
            65..=72 if wild => {
                let c = id(rng, &mut next_id, &mut known);
                ops.push(LOp::Accept(c, rng.chance(50)));
            }
            65..=72 => ops.push(LOp::Can(rng.chance(50))),
            _ => {
                let c = if known.is_empty() || rng.chance(12) { rng.below(40) } else { known[rng.below(known.len() as u64) as usize] };
                ops.push(LOp::Closed(c));
            }
        }
    }
    let case = enc_limits_case(&calls, &ops);
    let t = run_limits(&calls, &ops);
    (case, t)
}

/// every configuration over {None, Some 0, Some 1, Some 2}^2 against one script that meets every
/// method in every situation (below / at the maximum, known / unknown / repeated id)
fn limits_table() -> Vec<(Vec<u64>, Vec<u64>)> {
    use LOp::*;
    let script = [
        Dial, Incoming, Can(true), Can(false), Can(true), Accept(1, true), Accept(1, true), Can(false), Accept(2, false),
        Dial, Incoming, Can(true), Accept(3, true), Can(false), Accept(4, false), Dial, Incoming, Can(true), Can(false),
        Closed(1), Closed(9), Incoming, Closed(4), Dial, Closed(3), Closed(2), Closed(2), Dial, Incoming,
    ];
    let mut v = Vec::new();
    for mi in 0..4u64 {
        for mo in 0..4u64 {
            let calls = [(0u64, mi), (1u64, mo)];
            v.push((enc_limits_case(&calls, &script), run_limits(&calls, &script)));
        }
    }
    // the builder: later calls override earlier ones, untouched sides keep the default
    for calls in [vec![], vec![(0, 3)], vec![(1, 3)], vec![(0, 3), (0, 0)], vec![(1, 2), (0, 1), (1, 0), (0, 4)]] {
        v.push((enc_limits_case(&calls, &script[..6]), run_limits(&calls, &script[..6])));
    }
    v
}

// ---------------------------------------------------------------------------------------------
// 9601: PeerState
// ---------------------------------------------------------------------------------------------
/// an address in the abstraction of coq/Mgr/PeerTable.v: (base, 0 | 1 + peer index of the /p2p suffix)
type Addr = (u64, u64);
/// (connection id, address)
type Rec = (u64, Addr);

#[derive(Clone, Debug)]
enum PSt {
    Idle,
    DiscDial(Rec),
    Dialing(Rec),
    Opening(u64, u64, Vec<Addr>),
    Conn(Rec),
    ConnSec(Rec, Rec),
    ConnDial(Rec, Rec),
}

#[derive(Clone, Debug)]
enum POp {
    CanDial,
    DialSingle(u64, Addr),
    DialAddrs(u64, u64, Vec<Addr>),
    DialFailure(u64),
    /// id, address, via: 0 ConnectionRecord::new, 1 from_endpoint(dialer), 2 from_endpoint(listener)
    Established(u64, Addr, u64),
    Closed(u64),
    OpenFailure(u64),
    Opened(u64, Addr),
}

struct PeerWorld {
    peers: Vec<PeerId>,
}

impl PeerWorld {
    fn new() -> Self {
        PeerWorld { peers: (0..NPEERS).map(|_| PeerId::random()).collect() }
    }
    fn maddr(&self, a: Addr) -> Multiaddr {
        let m = Multiaddr::empty()
            .with(Protocol::Ip4(std::net::Ipv4Addr::new(10, 0, 0, (a.0 % 250) as u8)))
            .with(Protocol::Tcp(4000 + (a.0 % 250) as u16));
        if a.1 == 0 {
            m
        } else {
            m.with(Protocol::P2p(self.peers[(a.1 as usize - 1) % NPEERS].into()))
        }
    }
    fn addr_of(&self, m: &Multiaddr) -> Addr {
        let mut base = 999u64;
        let mut sfx = 0u64;
        for p in m.iter() {
            match p {
                Protocol::Ip4(ip) => base = ip.octets()[3] as u64,
                Protocol::P2p(h) =>
                    sfx = PeerId::from_multihash(h)
                        .ok()
                        .and_then(|p| self.peers.iter().position(|x| *x == p))
                        .map(|i| i as u64 + 1)
                        .unwrap_or(99),
                _ => {}
            }
        }
        (base, sfx)
    }
    fn raw(&self, r: Rec) -> ConnectionRecord {
        caps::record_raw(self.maddr(r.1), r.0 as usize)
    }
    fn transports(mask: u64) -> HashSet<SupportedTransport> {
        let mut s = HashSet::new();
        if mask & 1 != 0 {
            s.insert(SupportedTransport::Tcp);
        }
        if mask & 2 != 0 {
            s.insert(SupportedTransport::WebSocket);
        }
        s
    }
    fn build(&self, s: &PSt) -> PeerState {
        match s {
            PSt::Idle => PeerState::Disconnected { dial_record: None },
            PSt::DiscDial(r) => PeerState::Disconnected { dial_record: Some(self.raw(*r)) },
            PSt::Dialing(r) => PeerState::Dialing { dial_record: self.raw(*r) },
            PSt::Opening(c, mask, addrs) => PeerState::Opening {
                addresses: addrs.iter().map(|a| self.maddr(*a)).collect(),
                connection_id: caps::connection_id(*c as usize),
                transports: Self::transports(*mask),
            },
            PSt::Conn(r) => PeerState::Connected { record: self.raw(*r), secondary: None },
            PSt::ConnSec(r, s) => PeerState::Connected {
                record: self.raw(*r),
                secondary: Some(SecondaryOrDialing::Secondary(self.raw(*s))),
            },
            PSt::ConnDial(r, d) => PeerState::Connected {
                record: self.raw(*r),
                secondary: Some(SecondaryOrDialing::Dialing(self.raw(*d))),
            },
        }
    }
    fn enc_rec(&self, r: &ConnectionRecord, out: &mut Vec<u64>) {
        let a = self.addr_of(&r.address);
        out.extend([caps::record_id(r) as u64, a.0, a.1]);
    }
    fn dump(&self, s: &PeerState, out: &mut Vec<u64>) {
        match s {
            PeerState::Disconnected { dial_record: None } => out.push(0),
            PeerState::Disconnected { dial_record: Some(r) } => {
                out.push(1);
                self.enc_rec(r, out);
            }
            PeerState::Dialing { dial_record } => {
                out.push(2);
                self.enc_rec(dial_record, out);
            }
            PeerState::Opening { addresses, connection_id, transports } => {
                let mask: u64 = transports.iter().map(|t| TransportManager::verif_transport_bit(t) as u64).sum();
                let mut a: Vec<Addr> = addresses.iter().map(|m| self.addr_of(m)).collect();
                a.sort_by_key(|x| x.0 * 1000 + x.1);
                a.dedup();
                out.extend([3, connection_id.verif_as_usize() as u64, mask, a.len() as u64]);
                for x in a {
                    out.extend([x.0, x.1]);
                }
            }
            PeerState::Connected { record, secondary: None } => {
                out.push(4);
                self.enc_rec(record, out);
            }
            PeerState::Connected { record, secondary: Some(SecondaryOrDialing::Secondary(s)) } => {
                out.push(5);
                self.enc_rec(record, out);
                self.enc_rec(s, out);
            }
            PeerState::Connected { record, secondary: Some(SecondaryOrDialing::Dialing(d)) } => {
                out.push(6);
                self.enc_rec(record, out);
                self.enc_rec(d, out);
            }
        }
    }
}

fn enc_rec_case(r: &Rec, c: &mut Vec<u64>) {
    c.extend([r.0, r.1 .0, r.1 .1]);
}
fn enc_addrs(a: &[Addr], c: &mut Vec<u64>) {
    c.push(a.len() as u64);
    for x in a {
        c.extend([x.0, x.1]);
    }
}

fn enc_peer_case(p: u64, s: &PSt, ops: &[POp]) -> Vec<u64> {
    let mut c = vec![TAG_PEER, p];
    match s {
        PSt::Idle => c.push(0),
        PSt::DiscDial(r) => {
            c.push(1);
            enc_rec_case(r, &mut c);
        }
        PSt::Dialing(r) => {
            c.push(2);
            enc_rec_case(r, &mut c);
        }
        PSt::Opening(id, mask, a) => {
            c.extend([3, *id, *mask]);
            enc_addrs(a, &mut c);
        }
        PSt::Conn(r) => {
            c.push(4);
            enc_rec_case(r, &mut c);
        }
        PSt::ConnSec(r, s) => {
            c.push(5);
            enc_rec_case(r, &mut c);
            enc_rec_case(s, &mut c);
        }
        PSt::ConnDial(r, d) => {
            c.push(6);
            enc_rec_case(r, &mut c);
            enc_rec_case(d, &mut c);
        }
    }
    c.push(ops.len() as u64);
    for o in ops {
        match o {
            POp::CanDial => c.push(0),
            POp::DialSingle(id, a) => c.extend([1, *id, a.0, a.1]),
            POp::DialAddrs(id, mask, a) => {
                c.extend([2, *id, *mask]);
                enc_addrs(a, &mut c);
            }
            POp::DialFailure(id) => c.extend([3, *id]),
            POp::Established(id, a, via) => c.extend([4, *id, a.0, a.1, *via]),
            POp::Closed(id) => c.extend([5, *id]),
            POp::OpenFailure(t) => c.extend([6, *t]),
            POp::Opened(id, a) => c.extend([7, *id, a.0, a.1]),
        }
    }
    c
}

fn dec_peer_case(c: &[u64]) -> Option<(u64, PSt, Vec<POp>)> {
    let mut i = 1usize;
    let mut next = || {
        let v = c.get(i).copied();
        i += 1;
        v
    };
    fn addr(next: &mut dyn FnMut() -> Option<u64>) -> Option<Addr> {
        let b = next()?;
        let s = next()?;
        if b >= 250 || s > NPEERS as u64 {
            return None;
        }
        Some((b, s))
    }
    fn rec(next: &mut dyn FnMut() -> Option<u64>) -> Option<Rec> {
        let id = next()?;
        if id > (1 << 40) {
            return None;
        }
        Some((id, addr(next)?))
    }
    fn addrs(next: &mut dyn FnMut() -> Option<u64>) -> Option<Vec<Addr>> {
        let n = next()?;
        if n > 32 {
            return None;
        }
        let mut v = Vec::new();
        for _ in 0..n {
            v.push(addr(next)?);
        }
        Some(v)
    }
    let p = next()?;
    if p >= NPEERS as u64 {
        return None;
    }
    let s = match next()? {
        0 => PSt::Idle,
        1 => PSt::DiscDial(rec(&mut next)?),
        2 => PSt::Dialing(rec(&mut next)?),
        3 => {
            let id = next()?;
            let mask = next()?;
            if mask >= 4 {
                return None;
            }
            PSt::Opening(id, mask, addrs(&mut next)?)
        }
        4 => PSt::Conn(rec(&mut next)?),
        5 => PSt::ConnSec(rec(&mut next)?, rec(&mut next)?),
        6 => PSt::ConnDial(rec(&mut next)?, rec(&mut next)?),
        _ => return None,
    };
    let n = next()?;
    if n > 4096 {
        return None;
    }
    let mut ops = Vec::new();
    for _ in 0..n {
        ops.push(match next()? {
            0 => POp::CanDial,
            1 => POp::DialSingle(next()?, addr(&mut next)?),
            2 => {
                let id = next()?;
                let mask = next()?;
                if mask >= 4 {
                    return None;
                }
                POp::DialAddrs(id, mask, addrs(&mut next)?)
            }
            3 => POp::DialFailure(next()?),
            4 => POp::Established(next()?, addr(&mut next)?, next()?),
            5 => POp::Closed(next()?),
            6 => {
                let t = next()?;
                if t >= 2 {
                    return None;
                }
                POp::OpenFailure(t)
            }
            7 => POp::Opened(next()?, addr(&mut next)?),
            _ => return None,
        });
    }
    if i != c.len() {
        return None;
    }
    Some((p, s, ops))
}

fn run_peer(w: &PeerWorld, p: u64, s: &PSt, ops: &[POp]) -> Vec<u64> {
    let peer = w.peers[p as usize];
    let mut st = w.build(s);
    let mut t = vec![1u64];
    let gate = |r: StateDialResult| -> u64 {
        match r {
            StateDialResult::AlreadyConnected => 0,
            StateDialResult::DialingInProgress => 1,
            StateDialResult::Ok => 2,
        }
    };
    for o in ops {
        let res = match o {
            POp::CanDial => gate(st.can_dial()),
            POp::DialSingle(id, a) => gate(st.dial_single_address(caps::record_new(peer, w.maddr(*a), *id as usize))),
            POp::DialAddrs(id, mask, a) => gate(st.dial_addresses(
                caps::connection_id(*id as usize),
                a.iter().map(|x| w.maddr(*x)).collect(),
                PeerWorld::transports(*mask),
            )),
            POp::DialFailure(id) => st.on_dial_failure(caps::connection_id(*id as usize)) as u64,
            POp::Established(id, a, via) => {
                let r = match via {
                    0 => caps::record_new(peer, w.maddr(*a), *id as usize),
                    1 => caps::record_from_endpoint(peer, w.maddr(*a), *id as usize, false),
                    _ => caps::record_from_endpoint(peer, w.maddr(*a), *id as usize, true),
                };
                st.on_connection_established(r) as u64
            }
            POp::Closed(id) => st.on_connection_closed(caps::connection_id(*id as usize)) as u64,
            POp::OpenFailure(tr) => st.on_open_failure(if *tr == 0 {
                SupportedTransport::Tcp
            } else {
                SupportedTransport::WebSocket
            }) as u64,
            POp::Opened(id, a) => st.on_connection_opened(caps::record_new(peer, w.maddr(*a), *id as usize)) as u64,
        };
        t.push(res);
        w.dump(&st, &mut t);
    }
    t
}

fn gen_addr(rng: &mut Rng) -> Addr {
    (rng.range(1, 4), rng.below(NPEERS as u64 + 1))
}
fn gen_rec(rng: &mut Rng) -> Rec {
    (rng.below(7), gen_addr(rng))
}
fn gen_addrs(rng: &mut Rng) -> Vec<Addr> {
    (0..rng.below(4)).map(|_| gen_addr(rng)).collect()
}

fn gen_pst(rng: &mut Rng) -> PSt {
    match rng.below(9) {
        0 | 7 => PSt::Idle,
        1 => PSt::DiscDial(gen_rec(rng)),
        2 => PSt::Dialing(gen_rec(rng)),
        3 => PSt::Opening(rng.below(7), rng.below(4), gen_addrs(rng)),
        4 => PSt::Conn(gen_rec(rng)),
        5 | 8 => PSt::ConnSec(gen_rec(rng), gen_rec(rng)),
        _ => PSt::ConnDial(gen_rec(rng), gen_rec(rng)),
    }
}

fn gen_pop(rng: &mut Rng) -> POp {
    match rng.below(100) {
        0..=5 => POp::CanDial,
        6..=13 => POp::DialSingle(rng.below(7), gen_addr(rng)),
        14..=21 => POp::DialAddrs(rng.below(7), rng.below(4), gen_addrs(rng)),
        22..=31 => POp::DialFailure(rng.below(7)),
        32..=59 => POp::Established(rng.below(7), gen_addr(rng), rng.below(3)),
        60..=81 => POp::Closed(rng.below(7)),
        82..=91 => POp::OpenFailure(rng.below(2)),
        _ => POp::Opened(rng.below(7), gen_addr(rng)),
    }
}

fn peer_generated(w: &PeerWorld, rng: &mut Rng, thorough: bool) -> (Vec<u64>, Vec<u64>) {
    let p = rng.below(NPEERS as u64);
    let s = gen_pst(rng);
    let n = if thorough { rng.range(3, 60) } else { rng.range(2, 30) };
    let ops: Vec<POp> = (0..n).map(|_| gen_pop(rng)).collect();
    (enc_peer_case(p, &s, &ops), run_peer(w, p, &s, &ops))
}

/// the exhaustive table: every shape of a state (ids: primary 1, secondary 2, remembered dial 3,
/// opening 4 over both transports / over one) x every event class (ids 1, 2, 3, 4 and an unknown 9)
fn peer_table(w: &PeerWorld) -> Vec<(Vec<u64>, Vec<u64>)> {
    let a = |b: u64| -> Addr { (b, 2) };
    let shapes = vec![
        PSt::Idle,
        PSt::DiscDial((3, a(3))),
        PSt::Dialing((3, a(3))),
        PSt::Opening(4, 3, vec![a(1), a(2)]),
        PSt::Opening(4, 1, vec![a(1)]),
        PSt::Opening(4, 0, vec![]),
        PSt::Conn((1, a(1))),
        PSt::ConnSec((1, a(1)), (2, a(2))),
        PSt::ConnDial((1, a(1)), (3, a(3))),
        // ids that coincide (outside what the manager produces, the code must still be total)
        PSt::ConnSec((1, a(1)), (1, a(2))),
        PSt::ConnDial((1, a(1)), (1, a(3))),
    ];
    let mut ops = vec![POp::CanDial, POp::DialSingle(5, (1, 0)), POp::DialAddrs(5, 3, vec![(1, 0), (2, 3)]), POp::DialAddrs(5, 0, vec![])];
    for c in [1u64, 2, 3, 4, 9] {
        ops.push(POp::DialFailure(c));
        ops.push(POp::Closed(c));
        // the address of a new record: without /p2p, with the right one, with a wrong one
        ops.push(POp::Established(c, (4, 0), 0));
        ops.push(POp::Established(c, (4, 2), 1));
        ops.push(POp::Established(c, (4, 3), 2));
    }
    ops.push(POp::OpenFailure(0));
    ops.push(POp::OpenFailure(1));
    ops.push(POp::Opened(4, (1, 2)));
    ops.push(POp::Opened(9, (3, 0)));
    let mut v = Vec::new();
    for s in &shapes {
        for o in &ops {
            let one = [o.clone()];
            v.push((enc_peer_case(1, s, &one), run_peer(w, 1, s, &one)));
        }
    }
    v
}

// ---------------------------------------------------------------------------------------------
// entry points used by c05::main
// ---------------------------------------------------------------------------------------------
pub struct Streams {
    peers: PeerWorld,
    /// `--sock-quic 1` (harness built with the quic feature): only socket cases over the real QuicTransport
    only_quic: bool,
}

impl Streams {
    pub fn new(only_quic: bool) -> Self {
        Streams { peers: PeerWorld::new(), only_quic }
    }

    pub fn run_stored(&self, rt: &Runtime, c: &[u64]) -> (Vec<u64>, Vec<u64>) {
        match c[0] {
            TAG_LIMITS => match dec_limits_case(c) {
                Some((calls, ops)) => (c.to_vec(), run_limits(&calls, &ops)),
                None => (c.to_vec(), vec![0]),
            },
            TAG_PEER => match dec_peer_case(c) {
                Some((p, s, ops)) => (c.to_vec(), run_peer(&self.peers, p, &s, &ops)),
                None => (c.to_vec(), vec![0]),
            },
            sock::TAG_SOCK => match sock::dec_case(c) {
                Some((tr, conns)) => (c.to_vec(), sock::run(tr, &conns)),
                None => (c.to_vec(), vec![0]),
            },
            e2e::TAG_E2E => match e2e::dec_case(c) {
                Some((mi, mo, ops)) => (c.to_vec(), e2e::run(mi, mo, &ops)),
                None => (c.to_vec(), vec![0]),
            },
            _ => wrapped_stored(rt, c),
        }
    }

    /// the deterministic tables emitted at the start of every run
    pub fn tables(&self) -> Vec<(Vec<u64>, Vec<u64>)> {
        if self.only_quic {
            return sock::table_quic();
        }
        let mut v = limits_table();
        v.extend(peer_table(&self.peers));
        v.extend(sock::table());
        v.extend(e2e::table());
        v
    }

    pub fn generated(&self, rt: &Runtime, rng: &mut Rng, thorough: bool, i: u64) -> (Vec<u64>, Vec<u64>) {
        if self.only_quic {
            return sock::generated(rng, true);
        }
        // real sockets are slow (handshakes, 150 ms of watching every accepted connection)
        if i % (if thorough { 2000 } else { 250 }) == 77 {
            return sock::generated(rng, false);
        }
        // complete nodes are slower still
        if i % (if thorough { 4000 } else { 500 }) == 133 {
            return e2e::generated(rng);
        }
        match i % 8 {
            3 => limits_generated(rng, thorough),
            6 => peer_generated(&self.peers, rng, thorough),
            _ => wrapped_generated(rt, rng, thorough),
        }
    }
}
