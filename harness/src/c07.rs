//! C07 — a terminated connection is reported closed to everyone exactly once.
//!
//! Two kinds of cases (first number of the case):
//!
//! * kind 0 — *report level*: the real `ProtocolSet` (the per-connection copy of the protocol
//!   senders, `src/protocol/protocol_set.rs`) is built the way `TransportHandle::protocol_set`
//!   builds it and its reports are called with some protocol receivers (and possibly the manager's)
//!   dropped; after every operation the result and everything that arrived on every channel is
//!   printed. A probe with a *full* protocol channel observes whether the manager is told before the
//!   protocols have been served.
//!   case  = 0 n nops (op a b)*        op: 1 kill protocol a | 2 report_connection_established | 3
//!           report_connection_closed | 4 report_substream_open_failure for protocol a | 5 kill the
//!           manager receiver | 6 report_connection_closed while the channel of protocol a is full
//!   trace = 1 (rc cnt (proto kind)* mgr_cnt mgr_early)*
//!
//! * kind 1 — *end to end*: two real nodes (A dials B through a cuttable TCP proxy on loopback),
//!   each with n common user protocols, one user protocol only it has, a notification protocol and
//!   a request-response protocol, driven by a fault script. After every step (settled) the new
//!   events of every observer are printed: application of A, user protocols of A, application of
//!   B, user protocols of B. At the end both applications call `dial(peer)`.
//!   case  = 1 n cfg nsteps (op a b c)*      cfg: bit 0 = keep-alive 1 s (idle-expiry scenarios),
//!           bits 1-2 = transport (0 TCP, 1 WebSocket, 2 QUIC — only with the `quic` feature), bit 3 =
//!           TCP_NODELAY, bit 4 = two worker threads per node
//!           op: 20 idle expiry while the protocol only B has keeps opening substreams A refuses (their
//!           failures at B are not printed) |
//!           op: 14 A dials B while protocol b of node a exits (either order; the racing protocol's
//!           own observer is not printed) |
//!           10 protocol b of node a exits (b = n+1: the notification handle is dropped, n+2:
//!           the request-response handle) | 11 A dials B | 12 protocol b of node
//!           a opens a substream | 13 the same and exits immediately | 15 protocol b of node a
//!           force-closes | 16 the proxy cuts the link | 17 wait for idle expiry | 18 node B is shut
//!           down (its runtime is killed) | 21 bounce: protocol b of node a force-closes every
//!           connection the moment it is told about it, A dials B; c = bit 0: the application of A polls
//!           next_event() only once per interval, bit 1: the application of B does, bits 2-3: the interval
//!           (1, 2, 3, 5 ms). The connection task can finish between two polls of the manager.
//!   trace = 1 (rc (cnt ev*){observers})* dialA dialB
//!           ev: 1 established 2 closed 3 inbound substream 4 outbound substream 5 substream open
//!           failure 6 dial failure;  dial: 0 accepted 3 already connected 7 node gone 9 other error
use crate::util::{read_cases, Args, Outputs, Rng, PANIC_MARK};
use futures::{FutureExt, StreamExt};
use litep2p::{
    codec::ProtocolCodec,
    config::ConfigBuilder,
    crypto::ed25519::Keypair,
    protocol::{
        notification, request_response,
        verif::{InnerTransportEvent, ProtocolContext, ProtocolSet, TransportManagerEvent},
        Direction, SubstreamKeepAlive, TransportEvent, TransportService, UserProtocol,
    },
    transport::{tcp::config::Config as TcpConfig, websocket::config::Config as WsConfig, Endpoint},
    types::{protocol::ProtocolName, ConnectionId, SubstreamId},
    Error, Litep2p, Litep2pEvent, PeerId,
};
#[cfg(feature = "quic")]
use litep2p::transport::quic::config::Config as QuicConfig;
use multiaddr::{Multiaddr, Protocol};
use std::{
    collections::HashMap,
    path::Path,
    sync::{
        atomic::{AtomicU64, AtomicUsize, Ordering},
        Arc, Mutex,
    },
    time::{Duration, Instant},
};
use tokio::sync::{mpsc, oneshot};

// ------------------------------------------------------------------------------------------
// kind 0: report level
// ------------------------------------------------------------------------------------------

const CHAN: usize = 4;

struct Unit {
    n: usize,
    names: Vec<ProtocolName>,
    protocols: HashMap<ProtocolName, ProtocolContext>,
    rxs: Vec<Option<mpsc::Receiver<InnerTransportEvent>>>,
    mgr_tx: mpsc::Sender<TransportManagerEvent>,
    mgr_rx: Option<mpsc::Receiver<TransportManagerEvent>>,
    peer: PeerId,
    next_conn: usize,
}

fn inner_kind(ev: &InnerTransportEvent) -> u64 {
    match ev {
        InnerTransportEvent::ConnectionEstablished { .. } => 1,
        InnerTransportEvent::ConnectionClosed { .. } => 2,
        InnerTransportEvent::SubstreamOpened { .. } => 3,
        InnerTransportEvent::SubstreamOpenFailure { .. } => 5,
        InnerTransportEvent::DialFailure { .. } => 9, // filler of the full-channel probe
    }
}

impl Unit {
    fn new(n: usize) -> Self {
        let mut protocols = HashMap::new();
        let mut rxs = Vec::new();
        let mut names = Vec::new();
        for i in 0..n {
            let (tx, rx) = mpsc::channel(CHAN);
            let name = ProtocolName::from(format!("/c07/unit/{i}"));
            protocols.insert(
                name.clone(),
                ProtocolContext {
                    codec: ProtocolCodec::Identity(32),
                    tx,
                    // protocols with an odd index have one fallback name (ops 7 and 8)
                    fallback_names: if i % 2 == 1 { vec![ProtocolName::from(format!("/c07/unit/{i}/fb"))] } else { Vec::new() },
                    keep_alive: SubstreamKeepAlive::Yes,
                },
            );
            names.push(name);
            rxs.push(Some(rx));
        }
        let (mgr_tx, mgr_rx) = mpsc::channel(64);
        Unit { n, names, protocols, rxs, mgr_tx, mgr_rx: Some(mgr_rx), peer: PeerId::random(), next_conn: 0 }
    }

    /// What `TransportHandle::protocol_set` does for every accepted connection.
    fn protocol_set(&mut self) -> (ProtocolSet, ConnectionId) {
        let id = ConnectionId::from(self.next_conn);
        self.next_conn += 1;
        (
            ProtocolSet::new(id, self.mgr_tx.clone(), Arc::new(AtomicUsize::new(0)), self.protocols.clone()),
            id,
        )
    }

    /// Everything that is waiting on the protocol channels (sorted by protocol) and on the manager's.
    fn drain(&mut self, out: &mut Vec<u64>) -> u64 {
        let mut evs = Vec::new();
        for i in 0..self.n {
            if let Some(rx) = self.rxs[i].as_mut() {
                while let Ok(ev) = rx.try_recv() {
                    let k = inner_kind(&ev);
                    if k != 9 {
                        evs.push((i as u64, k));
                    }
                }
            }
        }
        out.push(evs.len() as u64);
        let mut mask = 0u64;
        for (i, k) in evs {
            out.push(i);
            out.push(k);
            if k == 1 {
                mask |= 1 << i;
            }
        }
        let mut m = 0;
        if let Some(rx) = self.mgr_rx.as_mut() {
            while rx.try_recv().is_ok() {
                m += 1;
            }
        }
        out.push(m);
        mask
    }
}

fn run_unit(case: &mut [u64]) -> Vec<u64> {
    let n = case[1] as usize;
    let nops = case[2] as usize;
    if n == 0 || n > 8 || case.len() != 3 + 3 * nops {
        return vec![0];
    }
    let rt = tokio::runtime::Builder::new_current_thread().enable_all().build().unwrap();
    let mut u = Unit::new(n);
    let mut tr = vec![1u64];
    for k in 0..nops {
        let (op, a) = (case[3 + 3 * k], case[4 + 3 * k] as usize);
        match op {
            1 => {
                if a < n {
                    u.rxs[a] = None;
                }
                tr.push(2);
                u.drain(&mut tr);
                tr.push(0);
            }
            5 => {
                u.mgr_rx = None;
                tr.push(2);
                u.drain(&mut tr);
                tr.push(0);
            }
            2 => {
                let (mut set, id) = u.protocol_set();
                let endpoint = Endpoint::Dialer { address: "/ip4/127.0.0.1/tcp/1".parse().unwrap(), connection_id: id };
                let peer = u.peer;
                let rc = rt.block_on(async { set.verif_report_connection_established(peer, endpoint).await });
                tr.push(rc.is_err() as u64);
                u.drain(&mut tr);
                tr.push(0);
            }
            3 => {
                let (mut set, id) = u.protocol_set();
                let peer = u.peer;
                let rc = rt.block_on(async { set.verif_report_connection_closed(peer, id).await });
                tr.push(rc.is_err() as u64);
                u.drain(&mut tr);
                tr.push(0);
            }
            4 => {
                if a >= n {
                    tr.extend([2, 0, 0, 0]);
                    continue;
                }
                let (mut set, _) = u.protocol_set();
                let name = u.names[a].clone();
                let rc = rt.block_on(async {
                    set.report_substream_open_failure(
                        name,
                        SubstreamId::from(7usize),
                        litep2p::error::SubstreamError::ConnectionClosed,
                    )
                    .await
                });
                tr.push(rc.is_err() as u64);
                u.drain(&mut tr);
                tr.push(0);
            }
            6 => {
                if a >= n {
                    tr.extend([2, 0, 0, 0]);
                    continue;
                }
                // fill the channel of protocol a, poll the report once, look at the manager's
                // channel, then make room and let the report finish
                let tx = u.protocols[&u.names[a]].tx.clone();
                for _ in 0..CHAN {
                    let _ = tx.try_send(InnerTransportEvent::DialFailure { peer: u.peer, addresses: Vec::new() });
                }
                let (mut set, id) = u.protocol_set();
                let peer = u.peer;
                let mut early = 0u64;
                let mut evs: Vec<(u64, u64)> = Vec::new();
                let mut mgr = 0u64;
                let rc = rt.block_on(async {
                    let mut fut = Box::pin(set.verif_report_connection_closed(peer, id));
                    let first = futures::poll!(fut.as_mut());
                    if let Some(rx) = u.mgr_rx.as_mut() {
                        while rx.try_recv().is_ok() {
                            early += 1;
                            mgr += 1;
                        }
                    }
                    match first {
                        std::task::Poll::Ready(r) => r,
                        std::task::Poll::Pending => {
                            if let Some(rx) = u.rxs[a].as_mut() {
                                while let Ok(ev) = rx.try_recv() {
                                    let k = inner_kind(&ev);
                                    if k != 9 {
                                        evs.push((a as u64, k));
                                    }
                                }
                            }
                            tokio::time::timeout(Duration::from_secs(5), fut)
                                .await
                                .unwrap_or(Err(Error::Timeout))
                        }
                    }
                });
                tr.push(rc.is_err() as u64);
                let mut rest = Vec::new();
                u.drain(&mut rest);
                // merge the events seen while unblocking with the rest, sorted by protocol
                let cnt = rest[0] as usize;
                for j in 0..cnt {
                    evs.push((rest[1 + 2 * j], rest[2 + 2 * j]));
                }
                evs.sort();
                tr.push(evs.len() as u64);
                for (i, k) in evs {
                    tr.push(i);
                    tr.push(k);
                }
                tr.push(mgr + rest[1 + 2 * cnt]);
                tr.push(early.min(1));
            }
            7 => {
                // what accept does, then `protocol_codec` (an `.expect`) under every name the set offers for
                // negotiation: a name without a protocol behind it would kill the connection task silently
                let (mut set, id) = u.protocol_set();
                let endpoint = Endpoint::Dialer { address: "/ip4/127.0.0.1/tcp/1".parse().unwrap(), connection_id: id };
                let peer = u.peer;
                let _ = rt.block_on(async { set.verif_report_connection_established(peer, endpoint).await });
                let advertised: Vec<ProtocolName> = set.protocols_with_keep_alives().keys().cloned().collect();
                let mut panics = 0u64;
                for name in advertised.iter() {
                    if std::panic::catch_unwind(std::panic::AssertUnwindSafe(|| set.protocol_codec(name))).is_err() {
                        panics += 1;
                    }
                }
                tr.push(panics);
                u.drain(&mut tr);
                tr.push(advertised.len() as u64);
            }
            8 => {
                // report_substream_open under name code a: 2i main name of protocol i, 2i+1 its fallback name
                let i = a / 2;
                let name = if i < n {
                    if a % 2 == 0 { u.names[i].clone() } else { ProtocolName::from(format!("/c07/unit/{i}/fb")) }
                } else {
                    ProtocolName::from("/c07/unit/unknown")
                };
                let (mut set, _) = u.protocol_set();
                let peer = u.peer;
                let failed = match set.try_get_permit() {
                    Some(permit) => {
                        let (io, _other) = tokio::io::duplex(16);
                        let sub = litep2p::substream::Substream::new_verif(peer, SubstreamId::from(0usize), Box::new(io), ProtocolCodec::Identity(32));
                        rt.block_on(async { set.report_substream_open(peer, name, Direction::Inbound, sub, permit).await }).is_err()
                    }
                    None => true,
                };
                tr.push(failed as u64);
                u.drain(&mut tr);
                tr.push(0);
            }
            _ => return vec![0],
        }
    }
    tr
}

fn gen_unit(rng: &mut Rng) -> Vec<u64> {
    let n = rng.range(1, 5);
    let nops = rng.range(2, 10);
    let mut c = vec![0, n, nops];
    for _ in 0..nops {
        let r = rng.below(100);
        let op = if r < 9 {
            1
        } else if r < 34 {
            2
        } else if r < 54 {
            3
        } else if r < 64 {
            4
        } else if r < 68 {
            5
        } else if r < 82 {
            6
        } else if r < 90 {
            7
        } else {
            8
        };
        c.extend([op, if op == 8 { rng.below(2 * n + 2) } else { rng.below(n) }, 0]);
    }
    c
}

// ------------------------------------------------------------------------------------------
// kind 2: back-pressure (format and meaning: coq/C07/Glue.v "kind 2", model coq/C07/Block.v)
// ------------------------------------------------------------------------------------------

struct BConn {
    set: Option<ProtocolSet>,
    /// report in flight: 0 established, 2 substream failure, 3 closed
    pending: Option<(u64, tokio::task::JoinHandle<(ProtocolSet, bool)>)>,
    phase: u64,
}

async fn idle() {
    for _ in 0..24 {
        tokio::task::yield_now().await;
    }
}

fn run_block(case: &[u64]) -> Vec<u64> {
    let (n, cap, nops) = (case[1] as usize, case[2] as usize, case[3] as usize);
    if !(1..=6).contains(&n) || !(1..=8).contains(&cap) || case.len() != 4 + 3 * nops {
        return vec![0];
    }
    for k in 0..nops {
        let (op, a, b) = (case[4 + 3 * k], case[5 + 3 * k], case[6 + 3 * k]);
        let ok = match op {
            1 => a < 1000,
            2 => a < 1000 && b <= n as u64,
            4 => a < n as u64 && b < 1000,
            5 => a < n as u64,
            _ => false,
        };
        if !ok {
            return vec![0];
        }
    }
    let rt = tokio::runtime::Builder::new_current_thread().enable_all().build().unwrap();
    let mut protocols = HashMap::new();
    let mut names = Vec::new();
    let mut rxs: Vec<Option<mpsc::Receiver<InnerTransportEvent>>> = Vec::new();
    let mut txs = Vec::new();
    for i in 0..n {
        let (tx, rx) = mpsc::channel(cap);
        let name = ProtocolName::from(format!("/c07/block/{i}"));
        protocols.insert(
            name.clone(),
            ProtocolContext { codec: ProtocolCodec::Identity(32), tx: tx.clone(), fallback_names: Vec::new(), keep_alive: SubstreamKeepAlive::Yes },
        );
        names.push(name);
        txs.push(tx);
        rxs.push(Some(rx));
    }
    let (mgr_tx, mut mgr_rx) = mpsc::channel::<TransportManagerEvent>(4096);
    let peer = PeerId::random();
    let mut conns: std::collections::BTreeMap<u64, BConn> = Default::default();
    let mut tr = vec![1u64];
    for k in 0..nops {
        let (op, a, b) = (case[4 + 3 * k], case[5 + 3 * k], case[6 + 3 * k]);
        let mut rc = 0u64;
        let mut got: Vec<u64> = Vec::new();
        let mut ngot = 0u64;
        match op {
            1 => {
                if conns.contains_key(&a) {
                    rc = 2;
                } else {
                    let id = ConnectionId::from(a as usize);
                    let mut set = ProtocolSet::new(id, mgr_tx.clone(), Arc::new(AtomicUsize::new(0)), protocols.clone());
                    let endpoint = Endpoint::Dialer { address: "/ip4/127.0.0.1/tcp/1".parse().unwrap(), connection_id: id };
                    let h = rt.spawn(async move {
                        let r = set.verif_report_connection_established(peer, endpoint).await;
                        (set, r.is_ok())
                    });
                    conns.insert(a, BConn { set: None, pending: Some((0, h)), phase: 0 });
                }
            }
            2 => match conns.get_mut(&a) {
                Some(c) if c.phase == 1 && c.set.is_some() => {
                    let mut set = c.set.take().unwrap();
                    let id = ConnectionId::from(a as usize);
                    if b == 0 {
                        let h = rt.spawn(async move {
                            let r = set.verif_report_connection_closed(peer, id).await;
                            (set, r.is_ok())
                        });
                        c.pending = Some((3, h));
                        c.phase = 3;
                    } else {
                        let name = names[(b - 1) as usize].clone();
                        let h = rt.spawn(async move {
                            let r = set
                                .report_substream_open_failure(name, SubstreamId::from(a as usize), litep2p::error::SubstreamError::ConnectionClosed)
                                .await;
                            (set, r.is_ok())
                        });
                        c.pending = Some((2, h));
                        c.phase = 2;
                    }
                }
                _ => rc = 2,
            },
            4 => {
                for _ in 0..b {
                    rt.block_on(idle());
                    let Some(rx) = rxs[a as usize].as_mut() else { break };
                    match rx.try_recv() {
                        Ok(ev) => {
                            let (kind, c) = match &ev {
                                InnerTransportEvent::ConnectionEstablished { connection, .. } => (1, connection.verif_as_usize() as u64),
                                InnerTransportEvent::ConnectionClosed { connection, .. } => (2, connection.verif_as_usize() as u64),
                                InnerTransportEvent::SubstreamOpenFailure { substream, .. } => (5, substream.verif_as_usize() as u64),
                                _ => (9, 0),
                            };
                            got.extend([kind, c]);
                            ngot += 1;
                        }
                        Err(_) => break,
                    }
                }
            }
            5 => {
                rxs[a as usize] = None;
            }
            _ => unreachable!(),
        }
        rt.block_on(idle());
        // reports that have completed
        let mut outs: Vec<(u64, u64)> = Vec::new();
        for (id, c) in conns.iter_mut() {
            if c.pending.as_ref().map(|(_, h)| h.is_finished()).unwrap_or(false) {
                let (kind, h) = c.pending.take().unwrap();
                let (set, _ok) = rt.block_on(h).expect("report task");
                c.set = Some(set);
                match kind {
                    0 => {
                        c.phase = 1;
                        outs.push((2 * id, 1));
                    }
                    2 => c.phase = 1,
                    _ => c.phase = 4,
                }
            }
        }
        while let Ok(TransportManagerEvent::ConnectionClosed { connection, .. }) = mgr_rx.try_recv() {
            outs.push((2 * connection.verif_as_usize() as u64 + 1, 2));
        }
        outs.sort();
        tr.push(rc);
        tr.push(outs.len() as u64);
        for (key, kind) in outs {
            tr.extend([kind, key / 2]);
        }
        tr.push(ngot);
        tr.extend(got);
        for tx in txs.iter() {
            tr.push((tx.max_capacity() - tx.capacity()) as u64);
        }
        tr.push(conns.len() as u64);
        for (id, c) in conns.iter() {
            tr.extend([*id, c.phase]);
        }
    }
    tr
}

fn gen_block(rng: &mut Rng) -> Vec<u64> {
    let n = rng.range(1, 4);
    let cap = rng.pick(&[1u64, 1, 1, 2, 3]);
    let nops = rng.range(4, 24);
    let mut ops: Vec<[u64; 3]> = Vec::new();
    let mut next = 0u64;
    ops.push([1, 0, 0]);
    next += 1;
    for _ in 0..nops {
        let r = rng.below(100);
        let c = rng.below(next);
        if r < 25 && next < 6 {
            ops.push([1, next, 0]);
            next += 1;
        } else if r < 40 {
            ops.push([2, c, 0]);
        } else if r < 55 {
            ops.push([2, c, rng.range(1, n)]);
        } else if r < 96 {
            ops.push([4, rng.below(n), rng.range(1, 3)]);
        } else {
            ops.push([5, rng.below(n), 0]);
        }
    }
    // at the end every protocol receives everything: all reports complete
    for _ in 0..2 {
        for p in 0..n {
            ops.push([4, p, 60]);
        }
    }
    let mut c = vec![2, n, cap, ops.len() as u64];
    for o in ops {
        c.extend(o);
    }
    c
}

// ------------------------------------------------------------------------------------------
// kind 1: end to end
// ------------------------------------------------------------------------------------------

type Log = Arc<Mutex<Vec<u64>>>;

#[derive(Clone)]
struct Tick(Arc<AtomicU64>, Arc<Mutex<Option<Instant>>>);
impl Tick {
    fn push(&self, log: &Log, ev: u64) {
        log.lock().unwrap().push(ev);
        if ev == 1 {
            // when the connection was last announced to somebody (the keep-alive timers start here)
            *self.1.lock().unwrap() = Some(Instant::now());
        }
        self.0.fetch_add(1, Ordering::SeqCst);
    }
    fn get(&self) -> u64 {
        self.0.load(Ordering::SeqCst)
    }
}

enum PCmd {
    Exit,
    /// open a substream and, whenever the open fails, at once the next one (at most n times)
    Chain(PeerId, u64),
    Open(PeerId, bool, oneshot::Sender<u64>),
    ForceClose(PeerId, oneshot::Sender<u64>),
    /// from now on (true) / no longer (false): force-close every connection at once when it is announced
    Bounce(bool, oneshot::Sender<u64>),
}

struct Proto {
    bounce: bool,
    chain: (Option<PeerId>, u64),
    name: ProtocolName,
    log: Log,
    tick: Tick,
    cmd: mpsc::UnboundedReceiver<PCmd>,
}

#[async_trait::async_trait]
impl UserProtocol for Proto {
    fn protocol(&self) -> ProtocolName {
        self.name.clone()
    }
    fn codec(&self) -> ProtocolCodec {
        ProtocolCodec::UnsignedVarint(None)
    }
    async fn run(mut self: Box<Self>, mut service: TransportService) -> litep2p::Result<()> {
        loop {
            tokio::select! {
                ev = service.next() => match ev {
                    None => return Ok(()),
                    Some(TransportEvent::ConnectionEstablished { peer, .. }) => {
                        self.tick.push(&self.log, 1);
                        if self.bounce {
                            let _ = service.force_close(peer);
                        }
                    }
                    Some(TransportEvent::ConnectionClosed { .. }) => self.tick.push(&self.log, 2),
                    Some(TransportEvent::SubstreamOpened { direction, substream, .. }) => {
                        self.tick.push(&self.log, match direction { Direction::Inbound => 3, Direction::Outbound(_) => 4 });
                        drop(substream);
                    }
                    Some(TransportEvent::SubstreamOpenFailure { .. }) => {
                        if let (Some(peer), true) = (self.chain.0, self.chain.1 > 0) {
                            self.chain.1 -= 1;
                            let _ = service.open_substream(peer);
                        }
                        self.tick.push(&self.log, 5)
                    }
                    Some(TransportEvent::DialFailure { .. }) => self.tick.push(&self.log, 6),
                },
                c = self.cmd.recv() => match c {
                    None | Some(PCmd::Exit) => return Ok(()),
                    Some(PCmd::Chain(peer, count)) => {
                        self.chain = (Some(peer), count);
                        let _ = service.open_substream(peer);
                    }
                    Some(PCmd::Open(peer, die, tx)) => {
                        let rc = service.open_substream(peer).is_err() as u64;
                        let _ = tx.send(rc);
                        if die {
                            return Ok(());
                        }
                    }
                    Some(PCmd::ForceClose(peer, tx)) => {
                        let _ = tx.send(service.force_close(peer).is_err() as u64);
                    }
                    Some(PCmd::Bounce(on, tx)) => {
                        self.bounce = on;
                        let _ = tx.send(0);
                    }
                },
            }
        }
    }
}

enum Ctl {
    DialAddr(Multiaddr, oneshot::Sender<u64>),
    DialPeer(PeerId, oneshot::Sender<u64>),
    AddAddr(PeerId, Multiaddr),
    /// the application polls next_event() once per this many milliseconds (0: whenever it is woken)
    Sparse(u64, oneshot::Sender<u64>),
}

fn dial_code(r: litep2p::Result<()>) -> u64 {
    match r {
        Ok(()) => 0,
        Err(Error::AlreadyConnected) => 3,
        Err(e) => { if std::env::var("C07_DEBUG").is_ok() { eprintln!("dial error: {e:?}"); } 9 }
    }
}

struct Node {
    rt: Option<tokio::runtime::Runtime>,
    peer: PeerId,
    addr: Multiaddr,
    app: Log,
    plogs: Vec<Log>,
    pcmd: Vec<Option<mpsc::UnboundedSender<PCmd>>>,
    notif: Option<notification::NotificationHandle>,
    rr: Option<request_response::RequestResponseHandle>,
    ctl: mpsc::UnboundedSender<Ctl>,
    seen: Vec<usize>, // how much of every observer's log has been printed
}

impl Node {
    /// n common user protocols + one only this node has + notification + request-response
    /// transport: 0 TCP, 1 WebSocket, 2 QUIC (only with the `quic` feature of the harness)
    fn start(n: usize, solo: &str, ka: Duration, transport: u64, nodelay: bool, workers: usize, tick: Tick) -> Node {
        let rt = tokio::runtime::Builder::new_multi_thread().worker_threads(workers).enable_all().build().unwrap();
        let (tx, rx) = std::sync::mpsc::channel();
        let tick2 = tick.clone();
        let solo = solo.to_string();
        let (ctl_tx, mut ctl_rx) = mpsc::unbounded_channel::<Ctl>();
        rt.spawn(async move {
            let tick = tick2;
            let mut builder = ConfigBuilder::new().with_keypair(Keypair::generate()).with_keep_alive_timeout(ka);
            #[cfg(feature = "quic")]
            if transport == 2 {
                builder = builder.with_quic(QuicConfig {
                    listen_addresses: vec!["/ip4/127.0.0.1/udp/0/quic-v1".parse().unwrap()],
                    ..Default::default()
                });
            }
            builder = if transport == 2 {
                builder
            } else if transport == 1 {
                builder.with_websocket(WsConfig {
                    listen_addresses: vec!["/ip4/127.0.0.1/tcp/0/ws".parse().unwrap()],
                    reuse_port: false,
                    nodelay,
                    ..Default::default()
                })
            } else {
                builder.with_tcp(TcpConfig {
                    listen_addresses: vec!["/ip4/127.0.0.1/tcp/0".parse().unwrap()],
                    reuse_port: false,
                    nodelay,
                    ..Default::default()
                })
            };
            let mut plogs = Vec::new();
            let mut pcmd = Vec::new();
            for i in 0..=n {
                let name = if i < n { format!("/c07/common/{i}") } else { solo.clone() };
                let log: Log = Default::default();
                let (ctx, crx) = mpsc::unbounded_channel();
                builder = builder.with_user_protocol(Box::new(Proto {
                    bounce: false,
                    chain: (None, 0),
                    name: ProtocolName::from(name),
                    log: log.clone(),
                    tick: tick.clone(),
                    cmd: crx,
                }));
                plogs.push(log);
                pcmd.push(Some(ctx));
            }
            let (ncfg, nhandle) = notification::ConfigBuilder::new(ProtocolName::from("/c07/notif/1"))
                .with_max_size(1024)
                .with_handshake(vec![1, 2, 3])
                .build();
            let (rcfg, rhandle) =
                request_response::ConfigBuilder::new(ProtocolName::from("/c07/reqresp/1")).with_max_size(1024).build();
            let config = builder.with_notification_protocol(ncfg).with_request_response_protocol(rcfg).build();
            let mut litep2p = Litep2p::new(config).unwrap();
            let peer = *litep2p.local_peer_id();
            let addr = litep2p.listen_addresses().next().unwrap().clone();
            let app: Log = Default::default();
            tx.send((peer, addr, app.clone(), plogs, pcmd, nhandle, rhandle)).unwrap();
            // `sparse` > 0: a busy application. It polls next_event() exactly once, handles what it got, and
            // is then busy with something else for `sparse` ms (a wake-up of the manager in between is not
            // followed by a poll), so connection tasks and protocols run between two polls of the manager.
            let mut sparse = 0u64;
            'app: loop {
                let (ev, c) = if sparse == 0 {
                    tokio::select! {
                        ev = litep2p.next_event() => (Some(ev), None),
                        c = ctl_rx.recv() => (None, Some(c)),
                    }
                } else {
                    let polled = {
                        let fut = litep2p.next_event();
                        futures::pin_mut!(fut);
                        futures::poll!(fut)
                    };
                    let ev = match polled { std::task::Poll::Ready(ev) => Some(ev), std::task::Poll::Pending => None };
                    let c = match ctl_rx.try_recv() {
                        Ok(c) => Some(Some(c)),
                        Err(mpsc::error::TryRecvError::Empty) => None,
                        Err(mpsc::error::TryRecvError::Disconnected) => Some(None),
                    };
                    (ev, c)
                };
                if let Some(ev) = ev {
                    match ev {
                        Some(Litep2pEvent::ConnectionEstablished { .. }) => tick.push(&app, 1),
                        Some(Litep2pEvent::ConnectionClosed { .. }) => tick.push(&app, 2),
                        Some(Litep2pEvent::DialFailure { .. }) | Some(Litep2pEvent::ListDialFailures { .. }) => tick.push(&app, 6),
                        None => break 'app,
                    }
                }
                if let Some(c) = c {
                    match c {
                        Some(Ctl::DialAddr(a, tx)) => { let _ = tx.send(dial_code(litep2p.dial_address(a).await)); }
                        Some(Ctl::DialPeer(p, tx)) => { let _ = tx.send(dial_code(litep2p.dial(&p).await)); }
                        Some(Ctl::AddAddr(p, a)) => { litep2p.add_known_address(p, std::iter::once(a)); }
                        Some(Ctl::Sparse(ms, tx)) => { sparse = ms; let _ = tx.send(0); }
                        None => break 'app,
                    }
                }
                if sparse > 0 {
                    tokio::time::sleep(Duration::from_millis(sparse)).await;
                }
            }
        });
        let (peer, addr, app, plogs, pcmd, notif, rr) = rx.recv_timeout(Duration::from_secs(20)).expect("node start");
        let nobs = plogs.len() + 1;
        Node { rt: Some(rt), peer, addr, app, plogs, pcmd, notif: Some(notif), rr: Some(rr), ctl: ctl_tx, seen: vec![0; nobs] }
    }

    /// new events of every observer since the last call: (cnt ev*) per observer
    /// `blank`: an observer whose events are not printed; `strip`: an observer whose substream-open
    /// failures (their number is a matter of timing) are not printed
    fn dump(&mut self, out: &mut Vec<u64>, blank: Option<usize>, strip: Option<usize>) {
        let logs: Vec<Log> = std::iter::once(self.app.clone()).chain(self.plogs.iter().cloned()).collect();
        for (k, log) in logs.iter().enumerate() {
            let l = log.lock().unwrap();
            let new = &l[self.seen[k]..];
            if blank == Some(k) {
                // the observer races with the step (a protocol exiting while the connection is
                // announced may or may not read its last events): not printed
                out.push(0);
            } else if strip == Some(k) {
                let kept: Vec<u64> = new.iter().copied().filter(|&e| e != 5).collect();
                out.push(kept.len() as u64);
                out.extend_from_slice(&kept);
            } else {
                out.push(new.len() as u64);
                out.extend_from_slice(new);
            }
            self.seen[k] = l.len();
        }
    }

    fn alive(&self) -> bool {
        self.rt.is_some()
    }

    fn any_dead(&self) -> bool {
        self.pcmd.iter().any(|p| p.is_none()) || self.notif.is_none() || self.rr.is_none()
    }

    fn shutdown(&mut self) {
        if let Some(rt) = self.rt.take() {
            rt.shutdown_background();
        }
    }
}

/// TCP proxy in front of B: every accepted socket is piped to B's listener; `cut` drops all pipes.
struct Proxy {
    port: u16,
    links: Arc<Mutex<Vec<tokio::task::JoinHandle<()>>>>,
    acceptor: tokio::task::JoinHandle<()>,
}

impl Proxy {
    async fn start(target: std::net::SocketAddr) -> Proxy {
        let listener = tokio::net::TcpListener::bind("127.0.0.1:0").await.unwrap();
        let port = listener.local_addr().unwrap().port();
        let links: Arc<Mutex<Vec<tokio::task::JoinHandle<()>>>> = Default::default();
        let links2 = links.clone();
        let acceptor = tokio::spawn(async move {
            loop {
                let Ok((mut inbound, _)) = listener.accept().await else { break };
                let h = tokio::spawn(async move {
                    if let Ok(mut outbound) = tokio::net::TcpStream::connect(target).await {
                        let _ = inbound.set_nodelay(true);
                        let _ = outbound.set_nodelay(true);
                        let _ = tokio::io::copy_bidirectional(&mut inbound, &mut outbound).await;
                    }
                });
                links2.lock().unwrap().push(h);
            }
        });
        Proxy { port, links, acceptor }
    }
    fn cut(&self) {
        for h in self.links.lock().unwrap().drain(..) {
            h.abort();
        }
    }
}

impl Drop for Proxy {
    fn drop(&mut self) {
        self.cut();
        self.acceptor.abort();
    }
}

fn socket_addr(a: &Multiaddr) -> std::net::SocketAddr {
    let mut ip = None;
    let mut port = 0;
    for p in a.iter() {
        match p {
            Protocol::Ip4(i) => ip = Some(std::net::IpAddr::V4(i)),
            Protocol::Tcp(p) | Protocol::Udp(p) => port = p,
            _ => {}
        }
    }
    std::net::SocketAddr::new(ip.unwrap(), port)
}

const QUIET: Duration = Duration::from_millis(200);

/// Waits for the first new event (at most `first`), then until nothing has happened for QUIET.
async fn settle(tick: &Tick, before: u64, first: Duration) {
    let t0 = Instant::now();
    while tick.get() == before && t0.elapsed() < first {
        tokio::time::sleep(Duration::from_millis(10)).await;
    }
    let mut last = tick.get();
    let mut since = Instant::now();
    loop {
        tokio::time::sleep(Duration::from_millis(20)).await;
        let now = tick.get();
        if now != last {
            last = now;
            since = Instant::now();
        } else if since.elapsed() >= QUIET {
            return;
        }
    }
}

async fn ask<T>(rx: oneshot::Receiver<T>) -> Option<T> {
    tokio::time::timeout(Duration::from_secs(5), rx).await.ok().and_then(|r| r.ok())
}

pub const KA_SHORT_MS: u64 = 1000;

async fn run_e2e(mut case: Vec<u64>) -> (Vec<u64>, Vec<u64>) {
    let n = case[1] as usize;
    // case[2]: bit 0 = short keep-alive (idle-expiry scenarios), bit 1 = WebSocket instead of TCP
    let ka = if case[2] & 1 == 1 { Duration::from_millis(KA_SHORT_MS) } else { Duration::from_secs(60) };
    let transport = (case[2] >> 1) & 3;
    // bit 3 = TCP_NODELAY, bit 4 = the nodes run on two worker threads instead of one
    let nodelay = case[2] & 8 == 8;
    let workers = if case[2] & 16 == 16 { 2 } else { 1 };
    if transport == 3 || (transport == 2 && !cfg!(feature = "quic")) {
        return (case, vec![0]);
    }
    let nsteps = case[3] as usize;
    if n == 0 || n > 4 || case.len() != 4 + 4 * nsteps {
        return (case, vec![0]);
    }
    let tick = Tick(Default::default(), Default::default());
    let (t1, t2) = (tick.clone(), tick.clone());
    let mut b = tokio::task::spawn_blocking(move || Node::start(n, "/c07/solo/b", ka, transport, nodelay, workers, t1)).await.unwrap();
    let proxy = Proxy::start(socket_addr(&b.addr)).await;
    let mut a = tokio::task::spawn_blocking(move || Node::start(n, "/c07/solo/a", ka, transport, nodelay, workers, t2)).await.unwrap();
    // A reaches B through the proxy (QUIC: directly, there is no UDP proxy; scripts do not cut the link then)
    let addr_of = |port: u16, peer: PeerId| -> Multiaddr {
        match transport {
            0 => format!("/ip4/127.0.0.1/tcp/{port}/p2p/{peer}"),
            1 => format!("/ip4/127.0.0.1/tcp/{port}/ws/p2p/{peer}"),
            _ => format!("/ip4/127.0.0.1/udp/{port}/quic-v1/p2p/{peer}"),
        }
        .parse()
        .unwrap()
    };
    let b_via_proxy = addr_of(if transport == 2 { socket_addr(&b.addr).port() } else { proxy.port }, b.peer);
    let a_direct = addr_of(socket_addr(&a.addr).port(), a.peer);
    let _ = a.ctl.send(Ctl::AddAddr(b.peer, b_via_proxy.clone()));
    let _ = b.ctl.send(Ctl::AddAddr(a.peer, a_direct));
    let mut tr = vec![1u64];

    for k in 0..nsteps {
        let (op, x, y) = (case[4 + 4 * k], case[5 + 4 * k], case[6 + 4 * k] as usize);
        let before = tick.get();
        let mut rc = 0u64;
        let mut first = Duration::ZERO;
        {
            let (node, other_peer) = if x == 0 { (&mut a, b.peer) } else { (&mut b, a.peer) };
            match op {
                10 => {
                    if !node.alive() {
                        rc = 2;
                    } else if y <= n {
                        match node.pcmd[y].take() {
                            Some(tx) => {
                                let _ = tx.send(PCmd::Exit);
                            }
                            None => rc = 2,
                        }
                    } else if y == n + 1 {
                        rc = if node.notif.take().is_some() { 0 } else { 2 };
                    } else if y == n + 2 {
                        rc = if node.rr.take().is_some() { 0 } else { 2 };
                    } else {
                        rc = 2;
                    }
                }
                12 | 13 | 15 => {
                    if !node.alive() || y > n || node.pcmd[y].is_none() {
                        rc = 2;
                    } else {
                        let (tx, rx) = oneshot::channel();
                        let cmd = if op == 15 { PCmd::ForceClose(other_peer, tx) } else { PCmd::Open(other_peer, op == 13, tx) };
                        let _ = node.pcmd[y].as_ref().unwrap().send(cmd);
                        rc = ask(rx).await.unwrap_or(8);
                        if op == 13 {
                            node.pcmd[y] = None;
                        }
                        if rc == 0 {
                            first = Duration::from_millis(1500);
                        }
                    }
                }
                _ => {}
            }
        }
        match op {
            11 => {
                let (tx, rx) = oneshot::channel();
                let _ = a.ctl.send(Ctl::DialAddr(b_via_proxy.clone(), tx));
                rc = ask(rx).await.unwrap_or(8);
                if rc == 0 {
                    first = Duration::from_millis(2500);
                }
            }
            14 => {
                // A dials B while protocol y of node x exits: either order is a legitimate outcome
                let (tx, rx) = oneshot::channel();
                let _ = a.ctl.send(Ctl::DialAddr(b_via_proxy.clone(), tx));
                rc = ask(rx).await.unwrap_or(8);
                // the handshake takes 30-50 ms here (more under load): delays from 0 to 210 ms produce both orders
                let delay = ((k as u64 * 3 + y as u64 * 5 + case.len() as u64) % 8) * 30;
                if delay > 0 {
                    tokio::time::sleep(Duration::from_millis(delay)).await;
                }
                let node = if x == 0 { &mut a } else { &mut b };
                if node.alive() {
                    if y <= n {
                        if let Some(tx) = node.pcmd[y].take() {
                            let _ = tx.send(PCmd::Exit);
                        }
                    } else if y == n + 1 {
                        node.notif.take();
                    } else if y == n + 2 {
                        node.rr.take();
                    }
                }
                if rc == 0 {
                    first = Duration::from_millis(2500);
                }
            }
            16 => {
                proxy.cut();
                first = Duration::from_millis(1500);
            }
            17 => first = Duration::from_millis(4 * KA_SHORT_MS + 3000),
            20 => {
                // idle expiry under fire: from 100 ms before the keep-alive runs out, the protocol only B
                // has opens a substream towards A (which refuses it) and, as soon as that fails, the next
                // one. An inbound substream that reaches A just after its protocols have released the
                // connection finds no permit (try_get_permit fails): the exit that used to be silent.
                let est = tick.1.lock().unwrap().unwrap_or_else(Instant::now);
                let target = est + Duration::from_millis(KA_SHORT_MS - 100);
                let now = Instant::now();
                if target > now {
                    tokio::time::sleep(target - now).await;
                }
                if b.alive() {
                    if let Some(txc) = b.pcmd[n].as_ref() {
                        let _ = txc.send(PCmd::Chain(a.peer, 4000));
                    }
                }
                first = Duration::from_millis(4 * KA_SHORT_MS + 3000);
            }
            21 => {
                let z = case[7 + 4 * k];
                let ms = [1u64, 2, 3, 5][((z >> 2) & 3) as usize];
                let ok = a.alive() && b.alive() && y <= n && (if x == 0 { &a } else { &b }).pcmd[y].is_some() && x <= 1;
                if !ok {
                    rc = 2;
                } else {
                    // the bouncer is armed, the applications become busy, A dials
                    let set_bounce = |node: &Node, on: bool| {
                        let (tx, rx) = oneshot::channel();
                        let _ = node.pcmd[y].as_ref().unwrap().send(PCmd::Bounce(on, tx));
                        rx
                    };
                    let set_sparse = |node: &Node, ms: u64| {
                        let (tx, rx) = oneshot::channel();
                        let _ = node.ctl.send(Ctl::Sparse(ms, tx));
                        rx
                    };
                    let _ = ask(set_bounce(if x == 0 { &a } else { &b }, true)).await;
                    let _ = ask(set_sparse(&a, if z & 1 == 1 { ms } else { 0 })).await;
                    let _ = ask(set_sparse(&b, if z & 2 == 2 { ms } else { 0 })).await;
                    let (tx, rx) = oneshot::channel();
                    let _ = a.ctl.send(Ctl::DialAddr(b_via_proxy.clone(), tx));
                    rc = ask(rx).await.unwrap_or(8);
                    if rc == 0 {
                        first = Duration::from_millis(2500);
                    }
                }
            }
            18 => {
                if b.alive() {
                    b.shutdown();
                    first = Duration::from_millis(1500);
                } else {
                    rc = 2;
                }
            }
            10 | 12 | 13 | 15 => {}
            _ => rc = 2,
        }
        settle(&tick, before, first).await;
        if op == 21 && rc != 2 {
            // back to normal: the bouncer is disarmed, the applications poll whenever they are woken
            let (tx, rx) = oneshot::channel();
            let _ = (if x == 0 { &a } else { &b }).pcmd[y].as_ref().unwrap().send(PCmd::Bounce(false, tx));
            let _ = ask(rx).await;
            for node in [&a, &b] {
                let (tx, rx) = oneshot::channel();
                let _ = node.ctl.send(Ctl::Sparse(0, tx));
                let _ = ask(rx).await;
            }
        }
        tr.push(rc);
        let blank = |node: u64| if op == 14 && x == node && y <= n { Some(y + 1) } else { None };
        a.dump(&mut tr, blank(0), None);
        b.dump(&mut tr, blank(1), if op == 20 { Some(n + 1) } else { None });
    }
    // afterwards: can the peer be dialed again?
    for (node, peer) in [(&a, b.peer), (&b, a.peer)] {
        if node.alive() {
            // AlreadyConnected right after the last step can be the close that is still on its way to the
            // manager (seen under machine load): the question is whether the peer STAYS undialable, so the
            // answer is taken again a few times before it is believed
            let mut code = 8;
            for attempt in 0..12 {
                let (tx, rx) = oneshot::channel();
                let _ = node.ctl.send(Ctl::DialPeer(peer, tx));
                code = ask(rx).await.unwrap_or(8);
                if code != 3 {
                    break;
                }
                if attempt < 11 {
                    tokio::time::sleep(std::time::Duration::from_millis(30)).await;
                }
            }
            tr.push(code);
        } else {
            tr.push(7);
        }
    }
    a.shutdown();
    b.shutdown();
    drop(proxy);
    (case, tr)
}

/// State the generator tracks so that scripts are meaningful (mirrors what the model computes).
struct GenSt {
    alive: [Vec<bool>; 2],
    connected: bool,
    b_up: bool,
}

/// Bounce scenarios: `cycles` times "A dials B and user protocol y of node x force-closes the connection the
/// moment it is told about it", with busy applications (next_event() polled once per 1-5 ms): the connection
/// can end before the manager is polled again after `accept()`. Per connection the application must see
/// established, then closed.
fn gen_bounce(rng: &mut Rng, transports: &[u64], cycles: u64) -> Vec<u64> {
    let n = rng.range(1, 3);
    let x = rng.below(2);
    let y = rng.below(n + 1);
    let r = rng.below(10);
    // who is busy: both applications, only the bouncer's, only the other one's (its remote hangs up at once)
    let busy = if r < 5 { 3 } else if r < 8 { 1 << x } else { 1 << (1 - x) };
    let z = busy + 4 * rng.below(4);
    let transport = rng.pick(transports);
    let cfg = 2 * transport + 8 * rng.chance(50) as u64 + 16 * rng.chance(40) as u64;
    let mut steps: Vec<[u64; 4]> = (0..cycles).map(|_| [21, x, y, z]).collect();
    if rng.chance(50) {
        steps.push([11, 0, 0, 0]); // afterwards an ordinary connection: it stays
    }
    let mut c = vec![1, n, cfg, steps.len() as u64];
    for s in steps {
        c.extend(s);
    }
    c
}

fn gen_e2e(rng: &mut Rng, thorough: bool, transports: &[u64]) -> Vec<u64> {
    let n = rng.range(1, 3) as usize;
    let short = rng.chance(25);
    let mut st = GenSt { alive: [vec![true; n + 3], vec![true; n + 3]], connected: false, b_up: true };
    let mut steps: Vec<[u64; 4]> = Vec::new();
    let mut under_fire = false;
    let all_dead = |st: &GenSt| st.alive[0].iter().all(|a| !a) || st.alive[1].iter().all(|a| !a);
    if short {
        // idle expiry: connect, at most one action, wait
        if rng.chance(20) {
            let x = rng.below(2) as usize;
            let y = rng.below(n as u64 + 3) as usize;
            st.alive[x][y] = false;
            steps.push([10, x as u64, y as u64, 0]);
        }
        steps.push([11, 0, 0, 0]);
        match rng.below(4) {
            0 => {
                let x = rng.below(2);
                steps.push([12, x, rng.below(n as u64 + 1), 0]);
            }
            1 => {
                let x = rng.below(2) as usize;
                let y = rng.below(n as u64 + 3) as usize;
                st.alive[x][y] = false;
                steps.push([10, x as u64, y as u64, 0]);
            }
            _ => {}
        }
        under_fire = rng.chance(40);
        steps.push([if under_fire { 20 } else { 17 }, 0, 0, 0]);
        if rng.chance(50) {
            steps.push([11, 0, 0, 0]);
        }
    } else {
        let max = if thorough { rng.range(3, 9) } else { rng.range(2, 7) };
        let mut stop = false;
        while (steps.len() as u64) < max && !stop {
            let r = rng.below(100);
            if !st.connected {
                if r < 18 && st.b_up {
                    let x = rng.below(2) as usize;
                    let y = rng.below(n as u64 + 3) as usize;
                    if st.alive[x][y] {
                        st.alive[x][y] = false;
                        steps.push([10, x as u64, y as u64, 0]);
                    }
                } else if r < 24 {
                    // an action without a connection: refused
                    let x = rng.below(2);
                    steps.push([if rng.chance(50) { 12 } else { 15 }, x, rng.below(n as u64 + 1), 0]);
                } else if r < 32 && st.b_up {
                    // a protocol exits during the handshake (either order)
                    let x = rng.below(2) as usize;
                    let y = rng.below(n as u64 + 3) as usize;
                    st.alive[x][y] = false;
                    steps.push([14, x as u64, y as u64, 0]);
                    st.connected = !all_dead(&st);
                } else if st.b_up {
                    steps.push([11, 0, 0, 0]);
                    st.connected = !all_dead(&st);
                } else {
                    // B is gone: the dial fails
                    if rng.chance(60) {
                        steps.push([11, 0, 0, 0]);
                    }
                    stop = true;
                }
            } else {
                let x = rng.below(2) as usize;
                let live: Vec<usize> = (0..=n).filter(|&i| st.alive[x][i]).collect();
                if r < 30 && !live.is_empty() {
                    steps.push([12, x as u64, rng.pick(&live) as u64, 0]);
                } else if r < 50 {
                    let y = rng.below(n as u64 + 3) as usize;
                    if st.alive[x][y] {
                        st.alive[x][y] = false;
                        steps.push([10, x as u64, y as u64, 0]);
                        if st.alive[x].iter().all(|a| !a) {
                            st.connected = false;
                        }
                    }
                } else if r < 60 && !live.is_empty() {
                    let y = rng.pick(&live);
                    st.alive[x][y] = false;
                    steps.push([13, x as u64, y as u64, 0]);
                    if st.alive[x].iter().all(|a| !a) {
                        st.connected = false;
                    }
                } else if r < 75 && !live.is_empty() {
                    steps.push([15, x as u64, rng.pick(&live) as u64, 0]);
                    st.connected = false;
                } else if r < 88 {
                    steps.push([16, 0, 0, 0]);
                    st.connected = false;
                } else if r < 94 {
                    steps.push([18, 0, 0, 0]);
                    st.connected = false;
                    st.b_up = false;
                } else {
                    steps.push([11, 0, 0, 0]); // dialing while connected: refused
                }
            }
        }
    }
    let transport = rng.pick(transports);
    // schedules: TCP_NODELAY and a second worker thread per node, each in about half of the scenarios
    // (always when the idle expiry is under fire: the no-permit path needs both to be reachable)
    let nodelay = rng.chance(50) || under_fire;
    let two_workers = rng.chance(40) || under_fire;
    let cfg = short as u64 + 2 * transport + 8 * nodelay as u64 + 16 * two_workers as u64;
    let mut c = vec![1, n as u64, cfg, steps.len() as u64];
    for mut s in steps {
        if transport == 2 && s[0] == 16 {
            s = [15, 0, 0, 0]; // no proxy in front of a QUIC node: close from A instead of cutting
        }
        if transport == 2 && s[0] == 18 {
            s = [15, 1, 0, 0]; // a killed QUIC peer is noticed only after the idle timeout: close from B
        }
        c.extend(s);
    }
    c
}

// ------------------------------------------------------------------------------------------

fn run_many(rt: &tokio::runtime::Runtime, cases: Vec<Vec<u64>>, par: usize, out: &mut Outputs) {
    // unit cases run inline; end-to-end scenarios run `par` at a time, results are emitted in order
    let mut results: Vec<Option<(Vec<u64>, Vec<u64>)>> = cases.iter().map(|_| None).collect();
    let mut e2e: Vec<usize> = Vec::new();
    let mut lp: Vec<usize> = Vec::new();
    for (i, c) in cases.iter().enumerate() {
        match c.first() {
            Some(0) if c.len() >= 3 => {
                let mut c2 = c.clone();
                let t = std::panic::catch_unwind(std::panic::AssertUnwindSafe(|| run_unit(&mut c2))).unwrap_or(vec![PANIC_MARK]);
                results[i] = Some((c2, t));
            }
            Some(2) if c.len() >= 4 => {
                let t = std::panic::catch_unwind(std::panic::AssertUnwindSafe(|| run_block(c))).unwrap_or(vec![PANIC_MARK]);
                results[i] = Some((c.clone(), t));
            }
            Some(1) if c.len() >= 4 => e2e.push(i),
            Some(3) => lp.push(i),
            _ => results[i] = Some((c.clone(), vec![0])),
        }
    }
    // loop-level cases: each on its own thread with its own current-thread runtime (the connection task is
    // polled by hand there), `par` at a time
    {
        let queue = Arc::new(Mutex::new(lp.iter().map(|&i| (i, cases[i].clone())).collect::<Vec<_>>()));
        let done: Arc<Mutex<Vec<(usize, Vec<u64>, Vec<u64>)>>> = Arc::new(Mutex::new(Vec::new()));
        let workers: Vec<_> = (0..par.max(1).min(lp.len()))
            .map(|_| {
                let (queue, done) = (queue.clone(), done.clone());
                std::thread::spawn(move || loop {
                    let Some((i, mut c)) = queue.lock().unwrap().pop() else { break };
                    let t0 = Instant::now();
                    let t = std::panic::catch_unwind(std::panic::AssertUnwindSafe(|| crate::c07_loop::run_loop(&mut c)))
                        .unwrap_or(vec![PANIC_MARK]);
                    if std::env::var("C07_LOOP_TIMING").is_ok() {
                        eprintln!("loop case {:?} ms {}", &c, t0.elapsed().as_millis());
                    }
                    done.lock().unwrap().push((i, c, t));
                })
            })
            .collect();
        for w in workers {
            let _ = w.join();
        }
        for (i, c, t) in done.lock().unwrap().drain(..) {
            results[i] = Some((c, t));
        }
        for &i in &lp {
            if results[i].is_none() {
                results[i] = Some((cases[i].clone(), vec![PANIC_MARK]));
            }
        }
    }
    for chunk in e2e.chunks(par.max(1)) {
        let rs: Vec<(usize, (Vec<u64>, Vec<u64>))> = rt.block_on(async {
            let mut hs = Vec::new();
            for &i in chunk {
                let c = cases[i].clone();
                hs.push((i, c.clone(), tokio::spawn(std::panic::AssertUnwindSafe(run_e2e(c)).catch_unwind())));
            }
            let mut v = Vec::new();
            for (i, c, h) in hs {
                let r = match h.await {
                    Ok(Ok(r)) => r,
                    _ => (c, vec![PANIC_MARK]),
                };
                v.push((i, r));
            }
            v
        });
        for (i, r) in rs {
            results[i] = Some(r);
        }
    }
    for r in results.into_iter().flatten() {
        out.emit(&r.0, &r.1);
    }
}

pub fn main(args: &Args) {
    let seed = args.u64("seed", 1);
    let ncases = args.u64("cases", 100);
    let thorough = args.str("tier") == Some("thorough");
    let par = args.u64("par", 24) as usize;
    let mut out = Outputs::open(args);
    let rt = tokio::runtime::Builder::new_multi_thread().worker_threads(4).enable_all().build().unwrap();
    let mut rng = Rng::new(seed);

    let mut cases: Vec<Vec<u64>> = Vec::new();
    if let Some(r) = args.str("replay") {
        cases = read_cases(Path::new(r));
        run_many(&rt, cases, par, &mut out);
        return;
    } else if let Some(d) = args.str("corpus") {
        cases = read_cases(Path::new(d));
    }
    // `--cases` counts report-level cases; one end-to-end scenario is run per `e2e-every` of them
    // transports of the end-to-end stream: TCP twice as often as WebSocket; `--quic 1` (harness built
    // with the `quic` feature) runs every scenario over QUIC instead
    let transports: Vec<u64> = if args.u64("quic", 0) == 1 { vec![2] } else { vec![0, 0, 1] };
    let every = args.u64("e2e-every", if thorough { 15 } else { 12 }).max(1);
    let loop_every = args.u64("loop-every", 5).max(1);
    // one bounce scenario (20 connect / force-close-at-once cycles under busy applications) per 100 cases
    let bounce_every = args.u64("bounce-every", 100).max(1);
    let bounce_cycles = args.u64("bounce-cycles", 20);
    for i in 0..ncases {
        let mut r = rng.fork();
        cases.push(gen_unit(&mut r));
        if i % 3 == 0 {
            let mut r = rng.fork();
            cases.push(gen_block(&mut r));
        }
        if i % every == 0 {
            let mut r = rng.fork();
            cases.push(gen_e2e(&mut r, thorough, &transports));
        }
        if i % bounce_every == 0 {
            let mut r = rng.fork();
            cases.push(gen_bounce(&mut r, &transports, bounce_cycles));
        }
        if i % loop_every == 0 {
            let mut r = rng.fork();
            let trs: &[u64] = if args.u64("quic", 0) == 1 { &[2] } else { &[0, 0, 1] };
            cases.push(crate::c07_loop::gen_loop(&mut r, trs));
        }
    }
    if let Some(k) = args.str("only") {
        // debugging aid: keep the cases of one kind
        let k: u64 = k.parse().unwrap_or(0);
        cases.retain(|c| c.first() == Some(&k));
    }
    run_many(&rt, cases, par, &mut out);
}
