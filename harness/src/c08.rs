//! C08 / C09: TransportService correspondence (format: coq/Ts/Glue.v).
//!
//! A real `TransportService` is driven through the cfg(feature = "verif") wrapper
//! `litep2p::protocol::verif::VerifService`: the harness plays the connection tasks (it owns the
//! command receivers, holds the permits of opens in flight, answers them) and the protocol (it
//! calls `open_substream`, keeps / drops the substreams it is handed). One op = advance the clock,
//! inject one input, poll the service stream to quiescence, drain every command channel, dump.
//!
//! Cases are generated *online*: the next op is chosen from what the implementation has shown so
//! far (ids it returned, which opens are in flight), then recorded; the recorded case is what the
//! model replays. Timed cases run in real time on a 200 ms grid with T = 100/300/500 ms, so every
//! keep-alive deadline lies 100 ms away from every poll (the tracker reads std::time::Instant, so
//! tokio's paused clock cannot drive it); a run whose steps drifted by more than 45 ms is repeated.
use crate::util::*;
use litep2p::{
    protocol::verif::{VerifConn, VerifPermit, VerifService, VerifServiceEvent, VerifStrong},
    substream::Substream,
    PeerId,
};
use std::{
    collections::{BTreeMap, HashMap},
    panic::{catch_unwind, AssertUnwindSafe},
    path::Path,
    sync::{
        atomic::{AtomicBool, Ordering},
        Arc, Mutex,
    },
    task::{Context, Poll, Wake, Waker},
    time::{Duration, Instant},
};

const UNTIMED_T: u64 = 3_600_000;
const W40: u64 = 1 << 40;
const W41: u64 = 1 << 41;

/// Identifiers on the wire (see `wid`/`rid` in coq/Ts/Glue.v): values near the top of the usize
/// range are written as 2^41 + (2^64 - id).
fn wid(r: u64) -> u64 {
    if r < W40 {
        r
    } else {
        W41 + 0u64.wrapping_sub(r)
    }
}
fn rid(w: u64) -> u64 {
    if w < W40 {
        w
    } else {
        0u64.wrapping_sub(w - W41)
    }
}
const JITTER_MS: u64 = 45;

struct Flag(AtomicBool);
impl Wake for Flag {
    fn wake(self: Arc<Self>) {
        self.0.store(true, Ordering::SeqCst);
    }
    fn wake_by_ref(self: &Arc<Self>) {
        self.0.store(true, Ordering::SeqCst);
    }
}

struct ConnEnv {
    conn: VerifConn,
    others: Vec<VerifStrong>,
    subs: Vec<Substream>,
}

struct World {
    svc: VerifService,
    ka: bool,
    peers: HashMap<u64, PeerId>,
    rev: HashMap<PeerId, u64>,
    conns: BTreeMap<u64, ConnEnv>,
    /// opens in flight: id -> (peer, conn, permit held by the connection)
    pending: BTreeMap<u64, (u64, u64, VerifPermit)>,
    /// generator's view of the environment: open connections in establishment order
    live: Vec<(u64, u64)>,
    next_conn: u64,
    /// ForceClose fillers put into a command channel by this op (they are not commands of the service)
    fillers: BTreeMap<u64, usize>,
    flag: Arc<Flag>,
    waker: Waker,
}

impl World {
    fn new(ka: bool, t_ms: u64, n0: u64) -> World {
        let flag = Arc::new(Flag(AtomicBool::new(false)));
        World {
            svc: VerifService::new(
                Duration::from_millis(t_ms),
                ka,
                (if n0 < W40 { n0 } else { 0u64.wrapping_sub(n0 - W40) }) as usize,
            ),
            ka,
            peers: HashMap::new(),
            rev: HashMap::new(),
            conns: BTreeMap::new(),
            pending: BTreeMap::new(),
            live: Vec::new(),
            next_conn: 1,
            fillers: BTreeMap::new(),
            waker: Waker::from(flag.clone()),
            flag,
        }
    }

    fn peer(&mut self, p: u64) -> PeerId {
        if let Some(x) = self.peers.get(&p) {
            return *x;
        }
        let id = PeerId::random();
        self.peers.insert(p, id);
        self.rev.insert(id, p);
        id
    }

    fn pidx(&self, p: &PeerId) -> u64 {
        self.rev.get(p).copied().unwrap_or(999_999)
    }

    /// Poll the service stream until it is pending and nobody asked for another poll.
    fn quiesce(&mut self, conn_of_sub: Option<u64>, outs: &mut Vec<[u64; 3]>) {
        for _ in 0..10_000 {
            self.flag.0.store(false, Ordering::SeqCst);
            let mut cx = Context::from_waker(&self.waker);
            let svc = &mut self.svc;
            let r = catch_unwind(AssertUnwindSafe(|| svc.poll_event(&mut cx)));
            match r {
                Err(_) => {
                    outs.push([8, 0, 0]);
                    continue;
                }
                Ok(Poll::Ready(None)) => return,
                Ok(Poll::Ready(Some(ev))) => match ev {
                    VerifServiceEvent::ConnectionEstablished(p) => outs.push([1, self.pidx(&p), 0]),
                    VerifServiceEvent::ConnectionClosed(p) => outs.push([2, self.pidx(&p), 0]),
                    VerifServiceEvent::SubstreamOpened(p, dir, sub) => {
                        outs.push([3, self.pidx(&p), dir.map(|d| wid(d as u64) + 1).unwrap_or(0)]);
                        // the protocol keeps the substream (it carries the lifetime permit)
                        match conn_of_sub.and_then(|c| self.conns.get_mut(&c)) {
                            Some(env) if self.ka => env.subs.push(sub),
                            _ => drop(sub),
                        }
                    }
                    VerifServiceEvent::SubstreamOpenFailure(id) => outs.push([4, wid(id as u64), 0]),
                    VerifServiceEvent::DialFailure(p) => outs.push([5, self.pidx(&p), 0]),
                },
                Ok(Poll::Pending) =>
                    if !self.flag.0.load(Ordering::SeqCst) {
                        return;
                    },
            }
        }
    }

    fn flags(&self) -> BTreeMap<(u64, u64), bool> {
        let mut m = BTreeMap::new();
        for (p, prim, sec) in self.svc.contexts() {
            let pi = self.pidx(&p);
            m.insert((pi, prim.0 as u64), prim.1);
            if let Some(s) = sec {
                m.insert((pi, s.0 as u64), s.1);
            }
        }
        m
    }

    fn dump(&self, out: &mut Vec<u64>) {
        let mut cs: Vec<[u64; 6]> = self
            .svc
            .contexts()
            .into_iter()
            .map(|(p, prim, sec)| {
                let (h, s, sa) = match sec {
                    Some((c, a)) => (1, c as u64, a as u64),
                    None => (0, 0, 0),
                };
                [self.pidx(&p), prim.0 as u64, prim.1 as u64, h, s, sa]
            })
            .collect();
        cs.sort();
        out.push(cs.len() as u64);
        for c in cs {
            out.extend(c);
        }
        out.push(wid(self.svc.next_substream_id() as u64));
        let mut tk: Vec<(u64, u64)> =
            self.svc.tracked().into_iter().map(|(p, c)| (self.pidx(&p), c as u64)).collect();
        tk.sort();
        out.push(tk.len() as u64);
        for (p, c) in tk {
            out.extend([p, c]);
        }
        out.push(self.svc.armed_timers() as u64);
        out.push(self.conns.len() as u64);
        for (c, env) in &self.conns {
            out.extend([*c, env.conn.alive() as u64]);
        }
    }

    /// One op (without the clock part). Returns the outputs in the model's order.
    fn apply(&mut self, op: &[u64]) -> Vec<[u64; 3]> {
        let mut outs: Vec<[u64; 3]> = Vec::new();
        let before = self.flags();
        let mut conn_of_sub = None;
        self.fillers.clear();
        match op[1] {
            0 => {}
            1 => {
                let (p, c) = (op[2], op[3]);
                let peer = self.peer(p);
                let conn = self.svc.inject_established_with_capacity(peer, c as usize, c % 2 == 0, 4);
                self.conns.insert(c, ConnEnv { conn, others: Vec::new(), subs: Vec::new() });
                self.live.push((p, c));
            }
            2 => {
                let (p, c) = (op[2], op[3]);
                let peer = self.peer(p);
                self.svc.inject_closed(peer, c as usize);
                self.live.retain(|k| *k != (p, c));
            }
            3 => {
                let (p, c, m) = (op[2], op[3], op[4] != 0);
                let peer = self.peer(p);
                match self.conns.get(&c).and_then(|e| e.conn.try_get_permit()) {
                    Some(permit) => {
                        self.svc.inject_substream_opened(peer, c as usize, None, m, permit);
                        conn_of_sub = Some(c);
                    }
                    None => outs.push([9, 0, 0]),
                }
            }
            4 => {
                let (id, m) = (rid(op[2]), op[3] != 0);
                match self.pending.remove(&id) {
                    Some((p, c, permit)) => {
                        let peer = self.peer(p);
                        self.svc.inject_substream_opened(peer, c as usize, Some(id as usize), m, permit);
                        conn_of_sub = Some(c);
                    }
                    None => outs.push([9, 0, 0]),
                }
            }
            5 => {
                self.svc.inject_open_failure(rid(op[2]) as usize);
                self.pending.remove(&rid(op[2]));
            }
            6 => {
                let peer = self.peer(op[2]);
                self.svc.inject_dial_failure(peer);
            }
            7 => {
                let peer = self.peer(op[2]);
                let svc = &mut self.svc;
                match catch_unwind(AssertUnwindSafe(|| svc.open_substream(peer))) {
                    Ok(Ok(id)) => outs.push([6, 0, wid(id as u64)]),
                    Ok(Err(1)) => outs.push([6, 1, 0]),
                    Ok(Err(2)) => outs.push([6, 2, 0]),
                    Ok(Err(3)) => outs.push([6, 3, 0]),
                    Ok(Err(_)) => outs.push([6, 4, 0]),
                    Err(_) => outs.push([8, 0, 0]),
                }
            }
            8 => match self.conns.get_mut(&op[2]) {
                Some(env) if !env.subs.is_empty() => drop(env.subs.pop()),
                _ => outs.push([9, 0, 0]),
            },
            9 => match self.conns.get_mut(&op[2]) {
                Some(env) => match env.conn.try_strong() {
                    Some(s) => env.others.push(s),
                    None => outs.push([9, 0, 0]),
                },
                None => outs.push([9, 0, 0]),
            },
            10 => match self.conns.get_mut(&op[2]) {
                Some(env) if !env.others.is_empty() => drop(env.others.pop()),
                _ => outs.push([9, 0, 0]),
            },
            11 => self.svc.bump_counter(op[2] as usize),
            13 => {
                // open_substream while the primary's (tiny) command channel is full
                let peer = self.peer(op[2]);
                let prim = self
                    .svc
                    .contexts()
                    .into_iter()
                    .find(|(p, _, _)| *p == peer)
                    .map(|(_, prim, _)| prim.0 as u64);
                if let Some((c, env)) = prim.and_then(|c| self.conns.get(&c).map(|e| (c, e))) {
                    if let Some(n) = env.conn.fill() {
                        self.fillers.insert(c, n);
                    }
                }
                let svc = &mut self.svc;
                match catch_unwind(AssertUnwindSafe(|| svc.open_substream(peer))) {
                    Ok(Ok(id)) => outs.push([6, 0, wid(id as u64)]),
                    Ok(Err(1)) => outs.push([6, 1, 0]),
                    Ok(Err(2)) => outs.push([6, 2, 0]),
                    Ok(Err(3)) => outs.push([6, 3, 0]),
                    Ok(Err(_)) => outs.push([6, 4, 0]),
                    Err(_) => outs.push([8, 0, 0]),
                }
            }
            14 => {
                // force_close(p); op[3] / op[4]: the secondary's / primary's command channel is full
                let peer = self.peer(op[2]);
                let ctx = self.svc.contexts().into_iter().find(|(p, _, _)| *p == peer);
                if let Some((_, prim, sec)) = ctx {
                    let mut targets = Vec::new();
                    if op[4] != 0 {
                        targets.push(prim.0 as u64);
                    }
                    if let (true, Some(s)) = (op[3] != 0, sec) {
                        targets.push(s.0 as u64);
                    }
                    for c in targets {
                        if let Some(n) = self.conns.get(&c).and_then(|e| e.conn.fill()) {
                            self.fillers.insert(c, n);
                        }
                    }
                }
                let svc = &mut self.svc;
                match catch_unwind(AssertUnwindSafe(|| svc.force_close(peer))) {
                    Ok(r) => outs.push([12, r as u64, 0]),
                    Err(_) => outs.push([8, 0, 0]),
                }
            }
            15 => {
                // dial / dial_address / add_known_address: forwarded to the manager handle; nothing
                // of the service may change (the model treats the call as a plain poll)
                let peer = self.peer(op[2]);
                let svc = &mut self.svc;
                if catch_unwind(AssertUnwindSafe(|| svc.api_call(op[3] as u8, peer, 30000 + (op[2] as u16 % 1000)))).is_err() {
                    outs.push([8, 0, 0]);
                }
            }
            12 => match self.conns.get_mut(&op[2]) {
                // shut down the write half of a held substream (tcp::Substream::poll_shutdown through
                // the public AsyncWrite impl), to completion whatever its io result, and keep holding it
                Some(env) if !env.subs.is_empty() => {
                    let waker = self.waker.clone();
                    let mut cx = Context::from_waker(&waker);
                    let sub = env.subs.last_mut().unwrap();
                    for _ in 0..1000 {
                        let r = catch_unwind(AssertUnwindSafe(|| {
                            tokio::io::AsyncWrite::poll_shutdown(std::pin::Pin::new(&mut *sub), &mut cx)
                        }));
                        match r {
                            Ok(Poll::Pending) => continue,
                            Ok(Poll::Ready(_)) => break,
                            Err(_) => {
                                outs.push([8, 0, 0]);
                                break;
                            }
                        }
                    }
                }
                _ => outs.push([9, 0, 0]),
            },
            _ => {}
        }
        self.quiesce(conn_of_sub, &mut outs);
        if op[1] == 2 {
            // the connection is gone: so are the permits it held and the other protocols' handles
            let c = op[3];
            self.pending.retain(|_, v| v.1 != c);
            if let Some(env) = self.conns.get_mut(&c) {
                env.others.clear();
            }
        }
        // commands that reached the connections
        let ids: Vec<u64> = self.conns.keys().copied().collect();
        for c in ids {
            let cmds = self.conns.get_mut(&c).unwrap().conn.drain();
            // ForceClose commands of the service = those beyond this op's fillers
            let forces = cmds.iter().filter(|x| x.is_none()).count();
            for _ in self.fillers.get(&c).copied().unwrap_or(0)..forces {
                outs.push([11, c, 0]);
            }
            for cmd in cmds.into_iter().flatten() {
                outs.push([7, c, wid(cmd.substream_id as u64)]);
                // only open_substream(p) produces commands, and channels are drained after every op
                let p = if op[1] == 7 { op[2] } else { 999_999 };
                let _ = (cmd.connection_id, cmd.keep_alive);
                self.pending.insert(cmd.substream_id as u64, (p, c, cmd.permit));
            }
        }
        // Active -> Inactive flips
        let after = self.flags();
        for (k, a) in &after {
            if !*a && before.get(k) == Some(&true) {
                outs.push([10, k.0, k.1]);
            }
        }
        outs
    }
}

fn op_len(tag: u64) -> Option<usize> {
    Some(match tag {
        0 => 0,
        1 | 2 => 2,
        3 => 3,
        4 => 2,
        5..=13 => 1,
        14 => 3,
        15 => 2,
        _ => return None,
    })
}

/// Same well-formedness as `decode_case` in coq/Ts/Glue.v.
fn parse_case(c: &[u64]) -> Option<(bool, u64, u64, Vec<Vec<u64>>)> {
    if c.len() < 4 {
        return None;
    }
    let (ka, t, n0, n) = (c[0] != 0, c[1], c[2], c[3] as usize);
    if n > c.len() {
        return None;
    }
    let mut ops = Vec::new();
    let mut i = 4;
    let mut est = std::collections::HashSet::new();
    for _ in 0..n {
        let dt = *c.get(i)?;
        let tag = *c.get(i + 1)?;
        let len = op_len(tag)?;
        if i + 2 + len > c.len() {
            return None;
        }
        let op: Vec<u64> = c[i..i + 2 + len].to_vec();
        let id_op = tag == 4 || tag == 5;
        let bad = op[2..].iter().enumerate().any(|(j, x)| {
            if id_op && j == 0 {
                !(*x < 1_000_000 || (*x > W41 && *x < W41 + 2_000_000))
            } else {
                *x >= 1_000_000
            }
        });
        if dt >= 100_000_000 || bad {
            return None;
        }
        if tag == 1 && !est.insert(op[3]) {
            return None;
        }
        if tag == 15 && op[3] >= 3 {
            return None;
        }
        ops.push(op);
        i += 2 + len;
    }
    let n0_ok = n0 < 1_000_000 || (n0 > W40 && n0 < W40 + 1_000_000);
    if i != c.len() || !n0_ok || t >= 100_000_000 || t == 0 {
        return None;
    }
    Some((ka, t, n0, ops))
}

struct Gen {
    /// scripted ops played first (directed scenarios: both connections of a peer, promotion)
    script: Vec<Vec<u64>>,
    rng: Rng,
    timed: bool,
    third: bool,
    garbage: bool,
    npeers: u64,
    nops: usize,
    elapsed: u64,
}

impl Gen {
    fn next(&mut self, w: &mut World) -> Vec<u64> {
        if !self.script.is_empty() {
            let op = self.script.remove(0);
            self.elapsed += op[0];
            match op[1] {
                1 => w.next_conn = w.next_conn.max(op[3] + 1),
                _ => {}
            }
            return op;
        }
        let r = &mut self.rng;
        let dt = if self.timed && self.elapsed < 3000 { r.pick(&[0u64, 0, 200, 200, 200, 400, 600]) } else { 0 };
        self.elapsed += dt;
        let p = r.below(self.npeers);
        let live_p: Vec<u64> = w.live.iter().filter(|k| k.0 == p).map(|k| k.1).collect();
        let any_live = w.live.clone();
        let pend: Vec<u64> = w.pending.keys().copied().collect();
        for _ in 0..20 {
            let x = r.below(100);
            let op: Option<Vec<u64>> = match x {
                0..=17 => {
                    let cap = if self.third { 3 } else { 2 };
                    if live_p.len() < cap {
                        let c = w.next_conn;
                        w.next_conn += 1;
                        Some(vec![dt, 1, p, c])
                    } else {
                        None
                    }
                }
                18..=29 =>
                    if !any_live.is_empty() {
                        let k = any_live[r.below(any_live.len() as u64) as usize];
                        Some(vec![dt, 2, k.0, k.1])
                    } else {
                        None
                    },
                30..=39 =>
                    if !any_live.is_empty() {
                        let k = any_live[r.below(any_live.len() as u64) as usize];
                        Some(vec![dt, 3, k.0, k.1, r.chance(80) as u64])
                    } else {
                        None
                    },
                40..=54 =>
                    if !pend.is_empty() {
                        Some(vec![dt, 4, wid(pend[r.below(pend.len() as u64) as usize]), r.chance(85) as u64])
                    } else {
                        None
                    },
                55..=61 =>
                    if !pend.is_empty() {
                        Some(vec![dt, 5, wid(pend[r.below(pend.len() as u64) as usize])])
                    } else {
                        None
                    },
                62..=63 => Some(vec![dt, 6, p]),
                64..=79 => Some(vec![dt, 7, p]),
                80..=81 => Some(vec![dt, 13, p]),
                82..=86 =>
                    if !w.conns.is_empty() {
                        let cs: Vec<u64> = w.conns.keys().copied().collect();
                        Some(vec![dt, 8, cs[r.below(cs.len() as u64) as usize]])
                    } else {
                        None
                    },
                87..=90 =>
                    if !any_live.is_empty() {
                        Some(vec![dt, 9, any_live[r.below(any_live.len() as u64) as usize].1])
                    } else {
                        None
                    },
                91..=93 =>
                    if !w.conns.is_empty() {
                        let cs: Vec<u64> = w.conns.keys().copied().collect();
                        Some(vec![dt, 10, cs[r.below(cs.len() as u64) as usize]])
                    } else {
                        None
                    },
                94 => Some(vec![dt, 11, r.range(1, 5)]),
                99 => if r.chance(60) {
                    Some(vec![dt, 14, p, r.chance(20) as u64, r.chance(20) as u64])
                } else {
                    Some(vec![dt, 15, p, r.below(3)])
                },
                95 | 98 =>
                    if !w.conns.is_empty() {
                        // prefer a connection on which a substream is held
                        let held: Vec<u64> = w.conns.iter().filter(|(_, e)| !e.subs.is_empty()).map(|(c, _)| *c).collect();
                        let cs: Vec<u64> = if held.is_empty() { w.conns.keys().copied().collect() } else { held };
                        Some(vec![dt, 12, cs[r.below(cs.len() as u64) as usize]])
                    } else {
                        None
                    },
                96..=97 if self.garbage => match r.below(4) {
                    0 => Some(vec![dt, 4, r.below(12), 1]),
                    1 => Some(vec![dt, 5, r.below(12)]),
                    2 => Some(vec![dt, 3, p, r.range(1, 8), 1]),
                    _ => Some(vec![dt, 2, p, r.range(1, 8)]),
                },
                _ => Some(vec![dt, 0]),
            };
            if let Some(op) = op {
                return op;
            }
        }
        vec![dt, 0]
    }
}

enum Src<'a> {
    Fixed(&'a [Vec<u64>]),
    Gen(Gen),
}

/// Runs one case; returns (case, trace, timing was within tolerance).
async fn exec(ka: bool, t_ms: u64, n0: u64, mut src: Src<'_>) -> (Vec<u64>, Vec<u64>, bool) {
    let mut w = World::new(ka, t_ms, n0);
    let mut case_ops: Vec<u64> = Vec::new();
    let mut trace = vec![1u64];
    let mut ok_time = true;
    let n = match &src {
        Src::Fixed(ops) => ops.len(),
        Src::Gen(g) => g.nops,
    };
    let start = Instant::now();
    let mut logical = 0u64;
    for i in 0..n {
        let op: Vec<u64> = match &mut src {
            Src::Fixed(ops) => ops[i].clone(),
            Src::Gen(g) => g.next(&mut w),
        };
        if op[0] > 0 {
            logical += op[0];
            tokio::time::sleep_until(tokio::time::Instant::from_std(start + Duration::from_millis(logical))).await;
        }
        let timed = logical > 0 || t_ms != UNTIMED_T;
        if timed {
            let real = start.elapsed().as_millis() as u64;
            if real + 2 < logical || real > logical + JITTER_MS {
                ok_time = false;
            }
        }
        let outs = w.apply(&op);
        if timed {
            let real = start.elapsed().as_millis() as u64;
            if real > logical + JITTER_MS {
                ok_time = false;
            }
        }
        case_ops.extend(&op);
        // non-downgrade outputs in emission order, then ForceClose commands (by channel), then
        // downgrades (already sorted)
        trace.push(outs.len() as u64);
        for o in outs.iter().filter(|o| o[0] != 10 && o[0] != 11) {
            trace.extend(o);
        }
        for o in outs.iter().filter(|o| o[0] == 11) {
            trace.extend(o);
        }
        for o in outs.iter().filter(|o| o[0] == 10) {
            trace.extend(o);
        }
        w.dump(&mut trace);
    }
    let mut case = vec![ka as u64, t_ms, n0, n as u64];
    case.extend(case_ops);
    (case, trace, ok_time)
}

fn runtime() -> tokio::runtime::Runtime {
    tokio::runtime::Builder::new_current_thread().enable_all().build().unwrap()
}

/// Runs a stored case (re-running it while the timing was off).
/// Report level (the reporting side of ProtocolSet under back-pressure): the case as run and its trace.
fn run_report_case(rt: &tokio::runtime::Runtime, c: &[u64]) -> (Vec<u64>, Vec<u64>) {
    match crate::c08_report::parse(c) {
        Some((n, cap, ops)) => crate::c08_report::run(rt, n, cap, &ops),
        None => (c.to_vec(), vec![0]),
    }
}

fn run_stored(rt: &tokio::runtime::Runtime, c: &[u64]) -> Vec<u64> {
    if c.first() == Some(&2) {
        return run_report_case(rt, c).1;
    }
    if c.first() == Some(&4) {
        // end to end: two real nodes, real time
        return crate::c09_e2e::run(c);
    }
    if c.first() == Some(&5) {
        // several real services over shared real ProtocolSets
        return crate::c08_multi::run_stored(rt, c);
    }
    if c.first() == Some(&6) {
        // the name tables of ProtocolSet::new
        return crate::c08_names::run(rt, c);
    }
    if c.first() == Some(&3) {
        // composed: real ProtocolSets -> real bounded channel -> real TransportService
        return match crate::c08_compose::parse(c) {
            Some((ka, n0, ops)) => crate::c08_compose::run(rt, ka, n0, crate::c08_compose::Src::Fixed(&ops)).1,
            None => vec![0],
        };
    }
    let Some((ka, t, n0, ops)) = parse_case(c) else { return vec![0] };
    let mut last = vec![0];
    for _ in 0..6 {
        let (_, tr, ok) = rt.block_on(tokio::task::unconstrained(exec(ka, t, n0, Src::Fixed(&ops))));
        last = tr;
        if ok {
            break;
        }
    }
    last
}

fn gen_one(rt: &tokio::runtime::Runtime, mut rng: Rng, timed: bool, thorough: bool) -> (Vec<u64>, Vec<u64>) {
    let ka = rng.chance(70);
    let t_ms = if timed { rng.pick(&[100u64, 300, 300, 500]) } else { UNTIMED_T };
    // the id counter starts small, or a few below 2^64 so that it wraps during the case
    let n0 = rng.pick(&[0u64, 0, 7, 1000, W40 + 1, W40 + 3]);
    let third = !timed && rng.chance(10);
    let garbage = !timed && rng.chance(8);
    let nops = if timed { rng.range(6, 14) } else if thorough { rng.range(10, 120) } else { rng.range(8, 60) } as usize;
    let npeers = rng.range(1, 3);
    // a third of the timed cases start with two overlapping connections of peer 0, some activity on
    // one of them, and the primary closing first (promotion of the secondary)
    let mut script: Vec<Vec<u64>> = Vec::new();
    if timed && rng.chance(35) {
        script.push(vec![0, 1, 0, 1]);
        script.push(vec![rng.pick(&[0u64, 200]), 1, 0, 2]);
        match rng.below(3) {
            0 => script.push(vec![rng.pick(&[0u64, 200]), 3, 0, 2, 1]),
            1 => script.push(vec![rng.pick(&[0u64, 200]), 7, 0]),
            _ => {}
        }
        script.push(vec![rng.pick(&[0u64, 200, 200]), 2, 0, 1]);
        if rng.chance(50) {
            script.push(vec![rng.pick(&[0u64, 200]), 7, 0]);
        }
    }
    let nops = nops.max(script.len() + 3);
    let g = Gen { script, rng: rng.fork(), timed, third, garbage, npeers, nops, elapsed: 0 };
    let (case, trace, ok) = rt.block_on(tokio::task::unconstrained(exec(ka, t_ms, n0, Src::Gen(g))));
    if ok {
        return (case, trace);
    }
    // timing drifted: replay the recorded case until one run is on the grid
    let t = run_stored(rt, &case);
    (case, t)
}

pub fn main(args: &Args, c09: bool) {
    let seed = args.u64("seed", 1);
    let ncases = args.u64("cases", 100);
    let thorough = args.str("tier") == Some("thorough");
    let mut out = Outputs::open(args);
    let rt = runtime();
    let mut stored: Vec<Vec<u64>> = Vec::new();
    if let Some(r) = args.str("replay") {
        stored = read_cases(Path::new(r));
    } else if let Some(d) = args.str("corpus") {
        stored = read_cases(Path::new(d));
    }
    for c in &stored {
        if c.first() == Some(&2) {
            // stored report-level cases are re-masked for this run's protocol table order
            let (c2, t) = catch_unwind(AssertUnwindSafe(|| run_report_case(&rt, c))).unwrap_or((c.clone(), vec![PANIC_MARK]));
            out.emit(&c2, &t);
            continue;
        }
        let t = catch_unwind(AssertUnwindSafe(|| run_stored(&rt, c))).unwrap_or(vec![PANIC_MARK]);
        out.emit(c, &t);
    }
    if args.str("replay").is_some() {
        return;
    }
    let (n_untimed, n_timed) = if c09 { (ncases * 2, ncases) } else { (ncases, ncases / 25) };
    let mut rng = Rng::new(seed ^ if c09 { 0x9009 } else { 0x8008 });
    for _ in 0..n_untimed {
        let r = rng.fork();
        let (c, t) = catch_unwind(AssertUnwindSafe(|| gen_one(&rt, r, false, thorough)))
            .unwrap_or((vec![0], vec![PANIC_MARK]));
        out.emit(&c, &t);
    }
    // report level: the real ProtocolSet reporting into small, slowly drained protocol channels
    if !c09 {
        let mut rr = Rng::new(seed ^ 0x8e90);
        for _ in 0..(ncases / 3) {
            let mut r = rr.fork();
            let c = crate::c08_report::gen(&mut r, thorough);
            let (c, t) = catch_unwind(AssertUnwindSafe(|| run_report_case(&rt, &c))).unwrap_or((c.clone(), vec![PANIC_MARK]));
            out.emit(&c, &t);
        }
    }
    // composed: real ProtocolSets feed the real TransportService through its real bounded channel
    if !c09 {
        let mut rr = Rng::new(seed ^ 0xc0b0);
        for _ in 0..(ncases / 5) {
            let mut r = rr.fork();
            let ka = r.chance(70);
            let n0 = r.pick(&[0u64, 0, 7, 1000]);
            let g = crate::c08_compose::Gen::new(r.fork(), thorough);
            let (c, t) = catch_unwind(AssertUnwindSafe(|| crate::c08_compose::run(&rt, ka, n0, crate::c08_compose::Src::Gen(g))))
                .unwrap_or((vec![0], vec![PANIC_MARK]));
            out.emit(&c, &t);
        }
    }
    // the name tables of ProtocolSet::new: protocols with fallback names and mixed keep-alive flags
    {
        let mut rr = Rng::new(seed ^ 0x6a6e);
        for _ in 0..(ncases / 4).max(10) {
            let c = crate::c08_names::gen(&mut rr);
            let t = catch_unwind(AssertUnwindSafe(|| crate::c08_names::run(&rt, &c))).unwrap_or(vec![PANIC_MARK]);
            out.emit(&c, &t);
        }
    }
    // several services over shared ProtocolSets, logical time only (reference counting, queues, ids)
    {
        let mut rr = Rng::new(seed ^ 0x5a17);
        for _ in 0..(if c09 { ncases / 2 } else { ncases / 4 }) {
            let r = rr.fork();
            let (c, t) = catch_unwind(AssertUnwindSafe(|| crate::c08_multi::gen_one(&rt, r, false, thorough)))
                .unwrap_or((vec![0], vec![PANIC_MARK]));
            out.emit(&c, &t);
        }
    }
    // timed cases: real time, many threads (they mostly sleep); the second half of the C09 ones
    // are multi-service cases (different timeouts on one connection)
    let n_multi_timed = if c09 { ncases / 2 } else { ncases / 50 };
    let mut seeds: Vec<(Rng, bool)> = (0..n_timed).map(|_| (rng.fork(), false)).collect();
    let mut rng_m = Rng::new(seed ^ 0x5a19);
    seeds.extend((0..n_multi_timed).map(|_| (rng_m.fork(), true)));
    let results: Arc<Mutex<Vec<Option<(Vec<u64>, Vec<u64>)>>>> = Arc::new(Mutex::new(vec![None; seeds.len()]));
    let next = Arc::new(std::sync::atomic::AtomicUsize::new(0));
    let seeds = Arc::new(seeds);
    let nthreads = 40.min(seeds.len().max(1));
    let mut hs = Vec::new();
    for _ in 0..nthreads {
        let (results, next, seeds) = (results.clone(), next.clone(), seeds.clone());
        hs.push(std::thread::spawn(move || {
            let rt = runtime();
            loop {
                let i = next.fetch_add(1, Ordering::SeqCst);
                if i >= seeds.len() {
                    break;
                }
                let (r, multi) = seeds[i].clone();
                let res = catch_unwind(AssertUnwindSafe(|| {
                    if multi {
                        crate::c08_multi::gen_one(&rt, r, true, thorough)
                    } else {
                        gen_one(&rt, r, true, thorough)
                    }
                }))
                .unwrap_or((vec![0], vec![PANIC_MARK]));
                results.lock().unwrap()[i] = Some(res);
            }
        }));
    }
    for h in hs {
        let _ = h.join();
    }
    for r in results.lock().unwrap().iter().flatten() {
        out.emit(&r.0, &r.1);
    }
    // end to end: two real nodes over loopback TCP / WebSocket, real time
    if c09 {
        let mut rr = Rng::new(seed ^ 0xe2e9);
        let mut cases: Vec<Vec<u64>> = (0..(ncases / 8).max(2)).map(|_| crate::c09_e2e::gen(&mut rr, &[0, 0, 1])).collect();
        // request-response over main / fallback names, requests held by the responder across timeouts
        cases.extend((0..(ncases / 10).max(2)).map(|_| crate::c09_e2e::gen_rr(&mut rr, &[0, 0, 1])));
        let results: Arc<Mutex<Vec<Option<Vec<u64>>>>> = Arc::new(Mutex::new(vec![None; cases.len()]));
        let next = Arc::new(std::sync::atomic::AtomicUsize::new(0));
        let cases = Arc::new(cases);
        let mut hs = Vec::new();
        for _ in 0..10.min(cases.len()) {
            let (results, next, cases) = (results.clone(), next.clone(), cases.clone());
            hs.push(std::thread::spawn(move || loop {
                let i = next.fetch_add(1, Ordering::SeqCst);
                if i >= cases.len() {
                    break;
                }
                let t = catch_unwind(AssertUnwindSafe(|| crate::c09_e2e::run(&cases[i]))).unwrap_or(vec![PANIC_MARK]);
                results.lock().unwrap()[i] = Some(t);
            }));
        }
        for h in hs {
            let _ = h.join();
        }
        for (c, t) in cases.iter().zip(results.lock().unwrap().iter()) {
            out.emit(c, t.as_ref().unwrap_or(&vec![PANIC_MARK]));
        }
    }
}
