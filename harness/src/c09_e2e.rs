//! C09, end to end (case kind 4, format: coq/Ts/Glue.v "end to end"): two real litep2p nodes over
//! loopback TCP or WebSocket with a short keep-alive timeout; a keep-alive user protocol on both
//! opens / holds / half-closes / drops substreams on a logical schedule (slots of 300 ms: op at
//! 300 k, observation at 300 k + 200, the timeout is 100 mod 300), optionally with ping running as
//! non keep-alive traffic. Observed: at every observation point whether both applications have
//! been told ConnectionClosed — i.e. when the TCP connection task really ended
//! (`handle_protocol_command(None)`: all strong handles gone). A run whose steps drifted by more
//! than 45 ms is repeated.
use crate::util::*;
use futures::StreamExt;
use litep2p::{
    codec::ProtocolCodec,
    config::ConfigBuilder,
    crypto::ed25519::Keypair,
    protocol::{
        libp2p::ping,
        request_response::{ConfigBuilder as RrConfigBuilder, DialOptions, RequestResponseEvent},
        TransportEvent, TransportService, UserProtocol,
    },
    substream::Substream,
    transport::{tcp::config::Config as TcpConfig, websocket::config::Config as WsConfig},
    types::protocol::ProtocolName,
    Litep2p, Litep2pEvent, PeerId,
};
use multiaddr::Multiaddr;
use std::{
    sync::{
        atomic::{AtomicBool, AtomicU64, Ordering},
        Arc,
    },
    time::{Duration, Instant},
};
use tokio::sync::{mpsc, oneshot};

const JITTER_MS: u64 = 45;

enum PCmd {
    Open(PeerId, oneshot::Sender<u64>),
    Drop(oneshot::Sender<u64>),
    Shut(oneshot::Sender<u64>),
}

/// Commands to the task that drives a node's request-response handle.
enum RCmd {
    Request(PeerId, oneshot::Sender<u64>),
    Answer(oneshot::Sender<u64>),
}

struct Proto {
    cmd: mpsc::UnboundedReceiver<PCmd>,
    /// number of substreams received so far (either direction)
    seen: Arc<AtomicU64>,
}

#[async_trait::async_trait]
impl UserProtocol for Proto {
    fn protocol(&self) -> ProtocolName {
        ProtocolName::from("/c09/e2e/1")
    }
    fn codec(&self) -> ProtocolCodec {
        ProtocolCodec::UnsignedVarint(None)
    }
    async fn run(mut self: Box<Self>, mut service: TransportService) -> litep2p::Result<()> {
        let mut held: std::collections::VecDeque<Substream> = Default::default();
        loop {
            tokio::select! {
                ev = service.next() => match ev {
                    None => return Ok(()),
                    Some(TransportEvent::SubstreamOpened { substream, .. }) => {
                        held.push_back(substream);
                        self.seen.fetch_add(1, Ordering::SeqCst);
                    }
                    Some(_) => {}
                },
                c = self.cmd.recv() => match c {
                    None => return Ok(()),
                    Some(PCmd::Open(peer, tx)) => {
                        let _ = tx.send(service.open_substream(peer).is_err() as u64);
                    }
                    Some(PCmd::Drop(tx)) => {
                        let _ = tx.send(match held.pop_front() { Some(s) => { drop(s); 0 } None => 1 });
                    }
                    Some(PCmd::Shut(tx)) => {
                        let rc = match held.front_mut() {
                            Some(s) => {
                                let _ = tokio::time::timeout(
                                    Duration::from_millis(50),
                                    tokio::io::AsyncWriteExt::shutdown(s),
                                ).await;
                                0
                            }
                            None => 1,
                        };
                        let _ = tx.send(rc);
                    }
                },
            }
        }
    }
}

struct Node {
    peer: PeerId,
    addr: Multiaddr,
    established: Arc<AtomicBool>,
    closed: Arc<AtomicBool>,
    cmd: mpsc::UnboundedSender<PCmd>,
    seen: Arc<AtomicU64>,
    dial: mpsc::UnboundedSender<Multiaddr>,
    rr: mpsc::UnboundedSender<RCmd>,
    /// requests received by this node's request-response protocol so far
    rr_seen: Arc<AtomicU64>,
}

/// mode 0: no request-response traffic is generated (the protocol is installed all the same);
/// 1: both nodes know /c09/rr/2 with fallback /c09/rr/1; 2: node 0 only knows the legacy name
/// /c09/rr/1 (node 1 accepts its requests over its FALLBACK name); 3: node 0 only knows the legacy
/// name and node 1 is the requester (its outbound substream is negotiated over its fallback name).
fn start_node(rt: &tokio::runtime::Runtime, t_ms: u64, with_ping: bool, transport: u64, mode: u64, index: u64) -> Node {
    let (tx, rx) = std::sync::mpsc::channel();
    let (rr_tx, mut rr_rx) = mpsc::unbounded_channel::<RCmd>();
    let rr_seen = Arc::new(AtomicU64::new(0));
    let rr_seen2 = rr_seen.clone();
    let (cmd_tx, cmd_rx) = mpsc::unbounded_channel();
    let (dial_tx, mut dial_rx) = mpsc::unbounded_channel::<Multiaddr>();
    let seen = Arc::new(AtomicU64::new(0));
    let established = Arc::new(AtomicBool::new(false));
    let closed = Arc::new(AtomicBool::new(false));
    let (seen2, est2, closed2) = (seen.clone(), established.clone(), closed.clone());
    rt.spawn(async move {
        let mut builder = ConfigBuilder::new()
            .with_keypair(Keypair::generate())
            .with_keep_alive_timeout(Duration::from_millis(t_ms));
        builder = if transport == 1 {
            builder.with_websocket(WsConfig {
                listen_addresses: vec!["/ip4/127.0.0.1/tcp/0/ws".parse().unwrap()],
                reuse_port: false,
                ..Default::default()
            })
        } else {
            builder.with_tcp(TcpConfig {
                listen_addresses: vec!["/ip4/127.0.0.1/tcp/0".parse().unwrap()],
                reuse_port: false,
                ..Default::default()
            })
        };
        let mut ping_events = None;
        if with_ping {
            // non keep-alive traffic: a ping every 100 ms
            let (cfg, events) = ping::ConfigBuilder::new().with_ping_interval(Duration::from_millis(100)).build();
            builder = builder.with_libp2p_ping(cfg);
            ping_events = Some(events);
        }
        builder = builder.with_user_protocol(Box::new(Proto { cmd: cmd_rx, seen: seen2 }));
        let legacy_only = mode >= 2 && index == 0;
        let rr_builder = if legacy_only {
            RrConfigBuilder::new(ProtocolName::from("/c09/rr/1"))
        } else {
            RrConfigBuilder::new(ProtocolName::from("/c09/rr/2")).with_fallback_names(vec![ProtocolName::from("/c09/rr/1")])
        };
        let (rr_cfg, mut rr_handle) = rr_builder.with_max_size(1024).with_timeout(Duration::from_secs(60)).build();
        builder = builder.with_request_response_protocol(rr_cfg);
        tokio::spawn(async move {
            let mut pending = std::collections::VecDeque::new();
            loop {
                tokio::select! {
                    ev = rr_handle.next() => match ev {
                        None => return,
                        Some(RequestResponseEvent::RequestReceived { request_id, .. }) => {
                            pending.push_back(request_id);
                            rr_seen2.fetch_add(1, Ordering::SeqCst);
                        }
                        Some(_) => {}
                    },
                    c = rr_rx.recv() => match c {
                        None => return,
                        Some(RCmd::Request(peer, tx)) => {
                            let r = rr_handle.send_request(peer, vec![1, 2, 3], DialOptions::Reject).await;
                            let _ = tx.send(r.is_err() as u64);
                        }
                        Some(RCmd::Answer(tx)) => {
                            let _ = tx.send(match pending.pop_front() {
                                Some(id) => {
                                    rr_handle.send_response(id, vec![9]);
                                    0
                                }
                                None => 1,
                            });
                        }
                    },
                }
            }
        });
        let mut litep2p = Litep2p::new(builder.build()).unwrap();
        let peer = *litep2p.local_peer_id();
        let addr = litep2p.listen_addresses().next().unwrap().clone();
        tx.send((peer, addr)).unwrap();
        if let Some(mut events) = ping_events {
            tokio::spawn(async move { while events.next().await.is_some() {} });
        }
        loop {
            tokio::select! {
                ev = litep2p.next_event() => match ev {
                    Some(Litep2pEvent::ConnectionEstablished { .. }) => est2.store(true, Ordering::SeqCst),
                    Some(Litep2pEvent::ConnectionClosed { .. }) => closed2.store(true, Ordering::SeqCst),
                    Some(_) => {}
                    None => break,
                },
                a = dial_rx.recv() => match a {
                    Some(a) => { let _ = litep2p.dial_address(a).await; }
                    None => break,
                },
            }
        }
    });
    let (peer, addr) = rx.recv_timeout(Duration::from_secs(20)).expect("node start");
    Node { peer, addr, established, closed, cmd: cmd_tx, seen, dial: dial_tx, rr: rr_tx, rr_seen }
}

pub fn parse(c: &[u64]) -> Option<(u64, u64, u64, Vec<[u64; 2]>)> {
    if c.len() < 5 || c[0] != 4 {
        return None;
    }
    let (t, ping, tr, n) = (c[1], c[2], c[3], c[4] as usize);
    if t % 300 != 100 || t <= 300 || t >= 2000 || ping >= 2 || tr >= 12 || n >= 40 || c.len() != 5 + 2 * n {
        return None;
    }
    let mut ops = Vec::new();
    for i in 0..n {
        let o = [c[5 + 2 * i], c[6 + 2 * i]];
        if o[0] >= 4 || o[1] >= 2 {
            return None;
        }
        ops.push(o);
    }
    Some((t, ping, tr, ops))
}

fn ask(rt: &tokio::runtime::Runtime, rx: oneshot::Receiver<u64>) -> u64 {
    rt.block_on(async { tokio::time::timeout(Duration::from_millis(150), rx).await.ok().and_then(|r| r.ok()).unwrap_or(7) })
}

/// One run; returns (trace, timing ok).
fn run_once(t_ms: u64, with_ping: bool, tr: u64, ops: &[[u64; 2]]) -> (Vec<u64>, bool) {
    let rt = tokio::runtime::Builder::new_multi_thread().worker_threads(2).enable_all().build().unwrap();
    let (transport, mode) = (tr % 3, tr / 3);
    let a = start_node(&rt, t_ms, with_ping, transport, mode, 0);
    let b = start_node(&rt, t_ms, with_ping, transport, mode, 1);
    let nodes = [&a, &b];
    // listen addresses already end in /p2p/<peer>
    let addr = if b.addr.iter().any(|p| matches!(p, multiaddr::Protocol::P2p(_))) {
        b.addr.clone()
    } else {
        b.addr.clone().with(multiaddr::Protocol::P2p(b.peer.into()))
    };
    let _ = a.dial.send(addr);
    // logical time 0: both applications have seen ConnectionEstablished
    let t_dial = Instant::now();
    while !(a.established.load(Ordering::SeqCst) && b.established.load(Ordering::SeqCst)) {
        if t_dial.elapsed() > Duration::from_secs(5) {
            return (vec![4, 8], true); // could not connect: shows up as a disagreement
        }
        std::thread::sleep(Duration::from_millis(1));
    }
    let mut ok_time = t_dial.elapsed() < Duration::from_millis(250);
    let t0 = Instant::now();
    let mut trace = vec![4u64];
    for (k, o) in ops.iter().enumerate() {
        let t_op = t0 + Duration::from_millis(300 * (k as u64 + 1));
        let now = Instant::now();
        if t_op > now {
            std::thread::sleep(t_op - now);
        }
        if t_op.elapsed() > Duration::from_millis(JITTER_MS) {
            ok_time = false;
        }
        // request-response modes: op 1 = the requester sends a request, op 2 = the responder answers
        let req = if mode == 3 { 1usize } else { 0 };
        let who = if mode == 0 {
            o[1] as usize
        } else if o[0] == 1 {
            req
        } else if o[0] == 2 {
            1 - req
        } else {
            o[1] as usize
        };
        let me = nodes[who];
        let other = nodes[1 - who];
        let was_closed = a.closed.load(Ordering::SeqCst) || b.closed.load(Ordering::SeqCst);
        let rc = match o[0] {
            1 if mode > 0 => {
                let before = other.rr_seen.load(Ordering::SeqCst);
                let (tx, rx) = oneshot::channel();
                let _ = me.rr.send(RCmd::Request(other.peer, tx));
                let rc = ask(&rt, rx);
                if rc == 0 && !was_closed {
                    // the responder must have the request soon, otherwise the timing is off
                    let t1 = Instant::now();
                    while other.rr_seen.load(Ordering::SeqCst) == before {
                        if t1.elapsed() > Duration::from_millis(60) {
                            ok_time = false;
                            break;
                        }
                        std::thread::sleep(Duration::from_millis(1));
                    }
                }
                rc.min(1)
            }
            2 if mode > 0 => {
                let (tx, rx) = oneshot::channel();
                let _ = me.rr.send(RCmd::Answer(tx));
                ask(&rt, rx).min(1)
            }
            3 if mode > 0 => 0,
            1 => {
                let before = (me.seen.load(Ordering::SeqCst), other.seen.load(Ordering::SeqCst));
                let (tx, rx) = oneshot::channel();
                let _ = me.cmd.send(PCmd::Open(other.peer, tx));
                let rc = ask(&rt, rx);
                if rc == 0 {
                    // both ends must have the substream soon, otherwise the timing is off
                    let t1 = Instant::now();
                    while me.seen.load(Ordering::SeqCst) == before.0 || other.seen.load(Ordering::SeqCst) == before.1 {
                        if t1.elapsed() > Duration::from_millis(60) {
                            ok_time = false;
                            break;
                        }
                        std::thread::sleep(Duration::from_millis(1));
                    }
                }
                rc.min(1)
            }
            2 => {
                let (tx, rx) = oneshot::channel();
                let _ = me.cmd.send(PCmd::Drop(tx));
                ask(&rt, rx).min(1)
            }
            3 => {
                let (tx, rx) = oneshot::channel();
                let _ = me.cmd.send(PCmd::Shut(tx));
                ask(&rt, rx).min(1)
            }
            _ => 0,
        };
        // ops on a closed connection: what the protocol task answers does not matter
        let rc = if was_closed { (o[0] != 0 && !(mode > 0 && o[0] == 3)) as u64 } else { rc };
        let t_obs = t_op + Duration::from_millis(200);
        let now = Instant::now();
        if t_obs > now {
            std::thread::sleep(t_obs - now);
        }
        if t_obs.elapsed() > Duration::from_millis(JITTER_MS) {
            ok_time = false;
        }
        trace.extend([rc, a.closed.load(Ordering::SeqCst) as u64, b.closed.load(Ordering::SeqCst) as u64]);
    }
    rt.shutdown_background();
    (trace, ok_time)
}

pub fn run(c: &[u64]) -> Vec<u64> {
    let Some((t, ping, tr, ops)) = parse(c) else { return vec![0] };
    let mut last = vec![0];
    for _ in 0..5 {
        let (trace, ok) = run_once(t, ping == 1, tr, &ops);
        last = trace;
        if ok {
            break;
        }
    }
    last
}

/// Request-response cases: requests answered at once, requests held by the responder across one
/// or more timeouts (over the main name, over the responder's fallback name, over the requester's
/// fallback name), then everything is let go and the timeout is waited out.
pub fn gen_rr(rng: &mut Rng, transports: &[u64]) -> Vec<u64> {
    let t = rng.pick(&[400u64, 400, 700]);
    let ping = rng.chance(50) as u64;
    let mode = rng.pick(&[1u64, 2, 2, 3]);
    let tr = rng.pick(transports) + 3 * mode;
    let mut ops: Vec<[u64; 2]> = Vec::new();
    let mut pending = 0u64;
    let rounds = rng.range(1, 3);
    for _ in 0..rounds {
        ops.push([1, 0]);
        pending += 1;
        if rng.chance(70) {
            // held by the responder for longer than the timeout
            for _ in 0..(t / 300 + rng.range(1, 3)) {
                ops.push([0, 0]);
            }
        }
        if rng.chance(30) {
            ops.push([1, 0]);
            pending += 1;
        }
        if rng.chance(75) {
            ops.push([2, 0]);
            pending -= 1;
        }
        if rng.chance(40) {
            ops.push([0, 0]);
        }
    }
    for _ in 0..pending {
        ops.push([2, 0]);
    }
    for _ in 0..(t / 300 + 2) {
        ops.push([0, 0]);
    }
    ops.truncate(38);
    let mut c = vec![4, t, ping, tr, ops.len() as u64];
    for o in ops {
        c.extend(o);
    }
    c
}

pub fn gen(rng: &mut Rng, transports: &[u64]) -> Vec<u64> {
    let t = rng.pick(&[400u64, 400, 700]);
    let ping = rng.chance(50) as u64;
    let tr = rng.pick(transports);
    let n = rng.range(4, 9);
    let mut ops = Vec::new();
    let mut held = [0u64; 2];
    if rng.chance(40) {
        // a substream held (possibly half-closed by one end) across more than one timeout
        let a = rng.below(2);
        ops.push([1, a]);
        held = [1, 1];
        if rng.chance(70) {
            ops.push([3, rng.below(2)]);
        }
        for _ in 0..(t / 300 + 2) {
            ops.push([0, 0]);
        }
    }
    for _ in 0..n {
        let a = rng.below(2);
        let op = match rng.below(100) {
            0..=29 => {
                held[0] += 1;
                held[1] += 1;
                [1, a]
            }
            30..=49 if held[a as usize] > 0 => {
                held[a as usize] -= 1;
                [2, a]
            }
            50..=59 if held[a as usize] > 0 => [3, a],
            _ => [0, 0],
        };
        ops.push(op);
    }
    // let everything that was opened go, then wait out the timeout
    for a in 0..2u64 {
        for _ in 0..held[a as usize] {
            ops.push([2, a]);
        }
    }
    for _ in 0..(t / 300 + 2) {
        ops.push([0, 0]);
    }
    let mut c = vec![4, t, ping, tr, ops.len() as u64];
    for o in ops {
        c.extend(o);
    }
    c
}
