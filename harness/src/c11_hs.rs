//! C11, second kind of case (first number 7000): the real `HandshakeService` on its own.
//! case  : 7000 nops (kind a b)*   kinds: 0 negotiate_outbound p | 1 read_handshake p | 2 send_handshake p |
//!         3 remove_outbound p | 4 remove_inbound p | 5 environment: key a, what b (0 frame arrives, 1 remote closes,
//!         2 writes fail, 3 flushes complete, 4 negotiation timer fires) | 6 poll_next (a = the order in which the
//!         service will visit its substreams, written by the harness: base-7 digits, key + 1, least significant first)
//! trace : 1 then per op: 0 | 1 kind key rd (poll: 0 pending, 1 negotiated, 2 error); then held(key 0..5) and len
use super::{IoCtl, ScriptedIo, HANDSHAKE, NP};
use crate::util::*;
use litep2p::{
    protocol::notification::verif::{VerifHandshake, VerifHandshakePoll},
    PeerId,
};
use std::collections::HashMap;

pub const TAG: u64 = 7000;

fn key_of(peers: &[PeerId], p: &PeerId, out: bool) -> u64 {
    2 * peers.iter().position(|x| x == p).unwrap_or(9) as u64 + out as u64
}

pub fn run_case(c: &[u64]) -> Option<(Vec<u64>, Vec<u64>)> {
    if c.len() < 2 || c[0] != TAG || c.len() != 2 + 3 * c[1] as usize {
        return None;
    }
    let nops = c[1] as usize;
    let peers: Vec<PeerId> = (0..NP).map(|_| PeerId::random()).collect();
    let mut hs = VerifHandshake::new(HANDSHAKE.to_vec());
    let mut carriers: HashMap<u64, IoCtl> = HashMap::new();
    let mut ran = c.to_vec();
    let mut out = vec![1u64];
    for i in 0..nops {
        let (kind, a, b) = (c[2 + 3 * i], c[3 + 3 * i], c[4 + 3 * i]);
        match kind {
            0 | 1 | 2 if a < NP as u64 => {
                let ctl = IoCtl::default();
                let io = Box::new(ScriptedIo(ctl.clone()));
                let peer = peers[a as usize];
                match kind {
                    0 => hs.negotiate_outbound(peer, io),
                    1 => hs.read_handshake(peer, io),
                    _ => hs.send_handshake(peer, io),
                }
                carriers.insert(2 * a + (kind == 0) as u64, ctl);
                out.push(0);
            }
            3 | 4 if a < NP as u64 => {
                let peer = peers[a as usize];
                if kind == 3 {
                    hs.remove_outbound(&peer);
                } else {
                    hs.remove_inbound(&peer);
                }
                carriers.remove(&(2 * a + (kind == 3) as u64));
                out.push(0);
            }
            5 if a < 2 * NP as u64 && b < 5 => {
                if let Some(ctl) = carriers.get(&a) {
                    match b {
                        0 => {
                            let empty = ctl.0.lock().unwrap().read_buf.is_empty();
                            if empty {
                                ctl.push_handshake();
                            }
                        }
                        1 => ctl.0.lock().unwrap().read_eof = true,
                        2 => ctl.0.lock().unwrap().write_err = true,
                        3 => ctl.0.lock().unwrap().flush_open = true,
                        _ => hs.expire(&peers[(a / 2) as usize], a % 2 == 1),
                    }
                }
                out.push(0);
            }
            6 => {
                let order: Vec<u64> = hs.keys_in_order().iter().map(|(p, o)| key_of(&peers, p, *o)).collect();
                ran[3 + 3 * i] = order.iter().rev().fold(0u64, |acc, k| acc * 7 + k + 1);
                let (r, key, rd) = match hs.poll() {
                    VerifHandshakePoll::Pending => (0, 0, 0),
                    VerifHandshakePoll::Negotiated(p, o, len) => (1, key_of(&peers, &p, o), (len > 0) as u64),
                    VerifHandshakePoll::Error(p, o) => (2, key_of(&peers, &p, o), 0),
                };
                if r == 1 {
                    carriers.remove(&key);
                }
                out.extend([1, r, key, rd]);
            }
            _ => return None,
        }
        for k in 0..2 * NP as u64 {
            out.push(hs.contains(&peers[(k / 2) as usize], k % 2 == 1) as u64);
        }
        out.push(hs.len() as u64);
    }
    Some((out, ran))
}

pub fn gen_case(rng: &mut Rng) -> Vec<u64> {
    let n = rng.range(5, 40) as usize;
    let np = rng.range(1, NP as u64);
    let mut ops: Vec<[u64; 3]> = Vec::new();
    let mut timeouts = 0;
    while ops.len() < n {
        let p = rng.below(np);
        let key = 2 * p + rng.below(2);
        let op = match rng.below(100) {
            0..=9 => [0, p, 0],
            10..=19 => [1, p, 0],
            20..=27 => [2, p, 0],
            28..=32 => [3, p, 0],
            33..=37 => [4, p, 0],
            38..=69 => {
                let what = rng.pick(&[0u64, 0, 0, 3, 3, 3, 1, 2, 4]);
                if what == 4 {
                    timeouts += 1;
                    if timeouts > 3 {
                        continue;
                    }
                }
                [5, key, what]
            }
            _ => [6, 0, 0],
        };
        ops.push(op);
        // a negotiation that goes through: the carrier lets the handshake out and the remote's in, with polls in between
        if op[0] <= 2 && rng.chance(65) {
            let k = 2 * op[1] + (op[0] == 0) as u64;
            let mut steps: Vec<[u64; 3]> = match op[0] {
                0 => vec![[5, k, 3], [5, k, 0]],
                1 => vec![[5, k, 0]],
                _ => vec![[5, k, 3]],
            };
            if rng.chance(30) {
                steps.reverse();
            }
            for st in steps {
                if rng.chance(40) {
                    ops.push([6, 0, 0]);
                }
                ops.push(st);
            }
        }
        // several things happen between two polls, then the service is polled until it has nothing more to say
        if op[0] == 6 && rng.chance(60) {
            for _ in 0..rng.range(1, 3) {
                ops.push([6, 0, 0]);
            }
        }
    }
    let mut c = vec![TAG, ops.len() as u64];
    for o in ops {
        c.extend(o);
    }
    c
}
