//! C17: MemoryStore correspondence. Case format: see coq/C17/Glue.v.
use crate::util::*;
use litep2p::{
    protocol::libp2p::kademlia::{
        verif::{MemoryStore, MemoryStoreConfig, ProviderRecord, StoreKey},
        ContentProvider, Quorum, Record,
    },
    PeerId,
};
use multiaddr::Multiaddr;
use std::{
    panic::{catch_unwind, AssertUnwindSafe},
    path::Path,
    time::{Duration, Instant},
};

const NKEYS: usize = 8;
const NPROVS: usize = 10;

struct World {
    base: Instant,
    keys: Vec<StoreKey>,
    peers: Vec<PeerId>,
    /// rank[k][p] = 1 + rank of distance(peer p, key k) among all peers
    rank: Vec<Vec<u64>>,
    addrs: Vec<Multiaddr>,
}

impl World {
    fn new(rng: &mut Rng) -> Self {
        let base = Instant::now();
        let keys: Vec<StoreKey> =
            (0..NKEYS).map(|i| StoreKey::from(vec![i as u8, rng.next() as u8, 7])).collect();
        let peers: Vec<PeerId> = (0..NPROVS).map(|_| PeerId::random()).collect();
        let mut rank = vec![vec![0u64; NPROVS]; NKEYS];
        for (ki, k) in keys.iter().enumerate() {
            let mut ds: Vec<(_, usize)> = peers
                .iter()
                .enumerate()
                .map(|(pi, p)| {
                    let r = ProviderRecord {
                        key: k.clone(),
                        provider: *p,
                        addresses: vec![],
                        expires: base,
                    };
                    (r.distance(), pi)
                })
                .collect();
            ds.sort();
            for (r, (_, pi)) in ds.iter().enumerate() {
                rank[ki][*pi] = r as u64 + 1;
            }
        }
        let addrs = (0..40u16)
            .map(|i| format!("/ip4/10.0.0.{}/tcp/{}", i + 1, 1000 + i).parse().unwrap())
            .collect();
        World { base, keys, peers, rank, addrs }
    }

    fn time_of(&self, t: u64) -> Instant {
        // logical microseconds since `base`
        self.base + Duration::from_micros(t)
    }

    fn micros(&self, t: Instant) -> u64 {
        t.duration_since(self.base).as_micros() as u64
    }

    fn key_index(&self, k: &StoreKey) -> u64 {
        self.keys.iter().position(|x| x == k).unwrap() as u64
    }

    fn peer_index(&self, p: &PeerId) -> u64 {
        self.peers.iter().position(|x| x == p).unwrap() as u64
    }
}

fn gen_case(rng: &mut Rng, w: &World, thorough: bool) -> Vec<u64> {
    let max_records = rng.pick(&[0u64, 1, 2, 3, 1024]);
    let max_size = rng.pick(&[0u64, 1, 5, 6, 65 * 1024]);
    let max_keys = rng.pick(&[0u64, 1, 2, 3, 1024]);
    let max_addrs = rng.pick(&[0u64, 1, 2, 30]);
    let max_per_key = if rng.chance(4) { 0 } else { rng.pick(&[1u64, 1, 2, 3, 20]) };
    let ttl = rng.pick(&[0u64, 3_600_000_000]);
    let nkeys = rng.range(1, NKEYS as u64);
    let nprovs = rng.range(2, NPROVS as u64);
    let nops = if thorough { rng.range(20, 500) } else { rng.range(10, 120) };
    let mut c = vec![max_records, max_size, max_keys, max_addrs, max_per_key, ttl, nops];
    for _ in 0..nops {
        let k = rng.below(nkeys);
        match rng.below(100) {
            0..=17 => c.extend([0, k]),
            18..=42 => {
                let len = rng.pick(&[0u64, 1, 3, 4, 5, 6, 7]);
                // the value id is the first byte, so an empty value has id 0
                let val = if len == 0 { 0 } else { rng.below(200) };
                let exp = match rng.below(10) {
                    0..=2 => 0,                                   // None
                    3..=5 => 1 + rng.range(1, 999),               // already in the past
                    _ => 1 + rng.range(1, 9) * 1_000_000_000,     // far future
                };
                c.extend([1, k, val, len, exp]);
            }
            43..=57 => c.extend([2, k]),
            58..=87 => {
                let p = rng.range(1, nprovs - 1);
                let na = rng.pick(&[0u64, 1, 2, 3, 35]);
                c.extend([3, k, p, w.rank[k as usize][p as usize], na]);
            }
            88..=94 => c.extend([4, k, w.rank[k as usize][0]]),
            _ => c.extend([5, k, w.rank[k as usize][0]]),
        }
    }
    let _ = w.peers.len();
    c
}

fn dump(w: &World, s: &MemoryStore, out: &mut Vec<u64>) {
    let mut recs: Vec<[u64; 4]> = s
        .verif_records()
        .values()
        .map(|r| {
            [
                w.key_index(&r.key),
                r.value.first().copied().unwrap_or(0) as u64,
                r.value.len() as u64,
                r.expires.map(|t| w.micros(t) + 1).unwrap_or(0),
            ]
        })
        .collect();
    recs.sort();
    out.push(recs.len() as u64);
    for r in recs {
        out.extend(r);
    }
    let mut pk: Vec<(u64, Vec<u64>)> = s
        .verif_provider_keys()
        .iter()
        .map(|(k, ps)| {
            let ki = w.key_index(k);
            let mut v = vec![ps.len() as u64];
            for p in ps {
                let pi = w.peer_index(&p.provider);
                v.extend([pi, w.rank[ki as usize][pi as usize], p.addresses.len() as u64]);
            }
            (ki, v)
        })
        .collect();
    pk.sort();
    out.push(pk.len() as u64);
    for (k, v) in pk {
        out.push(k);
        out.extend(v);
    }
    let mut ls: Vec<u64> = s.verif_local_providers().iter().map(|k| w.key_index(k)).collect();
    ls.sort();
    out.push(ls.len() as u64);
    out.extend(ls);
}

/// Runs one case against the real MemoryStore. `None` if the case is not well-formed.
fn run_case(w: &World, c: &[u64]) -> Option<Vec<u64>> {
    if c.len() < 7 {
        return None;
    }
    let config = MemoryStoreConfig {
        max_records: c[0] as usize,
        max_record_size_bytes: c[1] as usize,
        max_provider_keys: c[2] as usize,
        max_provider_addresses: c[3] as usize,
        max_providers_per_key: c[4] as usize,
        provider_refresh_interval: Duration::from_secs(3600),
        provider_ttl: Duration::from_micros(c[5]),
    };
    let mut store = MemoryStore::with_config(w.peers[0], config);
    let nops = c[6] as usize;
    let mut i = 7;
    let mut out = vec![1u64];
    for _ in 0..nops {
        let tag = *c.get(i)?;
        let k = *c.get(i + 1)? as usize;
        let key = w.keys.get(k)?.clone();
        match tag {
            0 => {
                i += 2;
                match store.get(&key) {
                    None => out.extend([1, 0]),
                    Some(r) => out.extend([
                        1,
                        1,
                        w.key_index(&r.key),
                        r.value.first().copied().unwrap_or(0) as u64,
                        r.value.len() as u64,
                        r.expires.map(|t| w.micros(t) + 1).unwrap_or(0),
                    ]),
                }
            }
            1 => {
                let (val, len, exp) = (*c.get(i + 2)?, *c.get(i + 3)?, *c.get(i + 4)?);
                i += 5;
                store.put(Record {
                    key,
                    value: vec![val as u8; len as usize],
                    publisher: None,
                    expires: if exp == 0 { None } else { Some(w.time_of(exp - 1)) },
                });
                out.push(0);
            }
            2 => {
                i += 2;
                let ps = store.get_providers(&key);
                out.extend([2, ps.len() as u64]);
                for p in ps {
                    out.extend([w.peer_index(&p.peer), p.addresses.len() as u64]);
                }
            }
            3 => {
                let (p, _dist, na) = (*c.get(i + 2)? as usize, *c.get(i + 3)?, *c.get(i + 4)?);
                i += 5;
                let ok = store.put_provider(
                    key,
                    ContentProvider {
                        peer: *w.peers.get(p)?,
                        addresses: w.addrs.iter().take(na as usize).cloned().collect(),
                    },
                );
                out.extend([3, ok as u64]);
            }
            4 => {
                i += 3;
                let ok = store.put_local_provider(key, Quorum::One);
                out.extend([3, ok as u64]);
            }
            5 => {
                i += 3;
                let r = catch_unwind(AssertUnwindSafe(|| store.remove_local_provider(key)));
                out.extend([3, r.is_ok() as u64]);
            }
            _ => return None,
        }
        dump(w, &store, &mut out);
    }
    if i != c.len() {
        return None;
    }
    Some(out)
}

pub fn main(args: &Args) {
    let seed = args.u64("seed", 1);
    let ncases = args.u64("cases", 100);
    let thorough = args.str("tier") == Some("thorough");
    let mut out = Outputs::open(args);
    let rt = tokio::runtime::Builder::new_current_thread().enable_all().build().unwrap();
    let _g = rt.enter();
    let mut rng = Rng::new(seed);
    let w = World::new(&mut rng);
    // "past" expiries are base + <1 ms, "now" must lie after all of them
    std::thread::sleep(Duration::from_millis(5));

    let mut stored: Vec<Vec<u64>> = Vec::new();
    if let Some(r) = args.str("replay") {
        stored = read_cases(Path::new(r));
    } else if let Some(d) = args.str("corpus") {
        stored = read_cases(Path::new(d));
    }
    for c in stored.iter() {
        // stored cases carry distance ranks of the world they were found in; they are
        // re-ranked for this run's peers so that they stay consistent with the real hashes
        let c = rerank(&w, c);
        let t = catch_unwind(AssertUnwindSafe(|| run_case(&w, &c)))
            .unwrap_or(Some(vec![PANIC_MARK]))
            .unwrap_or(vec![0]);
        out.emit(&c, &t);
    }
    if args.str("replay").is_some() {
        return;
    }
    for _ in 0..ncases {
        let mut r = rng.fork();
        let c = gen_case(&mut r, &w, thorough);
        let t = catch_unwind(AssertUnwindSafe(|| run_case(&w, &c)))
            .unwrap_or(Some(vec![PANIC_MARK]))
            .unwrap_or(vec![0]);
        out.emit(&c, &t);
    }
}

/// Rewrites the distance arguments of a stored case with this run's ranks.
fn rerank(w: &World, c: &[u64]) -> Vec<u64> {
    let mut c = c.to_vec();
    if c.len() < 7 {
        return c;
    }
    let mut i = 7;
    while i < c.len() {
        let k = c.get(i + 1).copied().unwrap_or(0) as usize % NKEYS;
        match c[i] {
            0 | 2 => i += 2,
            1 => i += 5,
            3 => {
                if i + 3 < c.len() {
                    let p = c[i + 2] as usize % NPROVS;
                    c[i + 3] = w.rank[k][p];
                }
                i += 5;
            }
            4 | 5 => {
                if i + 2 < c.len() {
                    c[i + 2] = w.rank[k][0];
                }
                i += 3;
            }
            _ => break,
        }
    }
    c
}
