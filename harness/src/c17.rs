//! C17: MemoryStore correspondence. Case format: see coq/C17/Glue.v.
//!
//! Three kinds of cases share this stream (the first number tells them apart):
//! * legacy (first number = max_records): the store on the real clock, expiries far from `now`;
//! * `TIMED_TAG`: the store on a logical clock (hook `store_clock`, 1 unit = 1 ms) with expiries
//!   at, just before and just after the clock reading, plus the refresh machinery
//!   (`put_local_provider` quorum, `next_action` under tokio's paused clock) and direct calls of
//!   `Record::is_expired` / `ProviderRecord::is_expired`;
//! * `KAD_TAG`: the real `Kademlia::run` loop around the store (see c17_kad.rs).
use crate::util::*;
use litep2p::{
    protocol::libp2p::kademlia::{
        verif::{store_clock, MemoryStore, MemoryStoreAction, MemoryStoreConfig, ProviderRecord, StoreKey},
        ContentProvider, Quorum, Record,
    },
    PeerId,
};
use multiaddr::Multiaddr;
use std::{
    panic::{catch_unwind, AssertUnwindSafe},
    path::Path,
    time::{Duration, Instant},
};

pub const NKEYS: usize = 8;
pub const NPROVS: usize = 10;
pub const TIMED_TAG: u64 = 9001;
pub const KAD_TAG: u64 = 9002;
pub const DEFAULTS_TAG: u64 = 9003;

pub struct World {
    pub base: Instant,
    pub keys: Vec<StoreKey>,
    pub peers: Vec<PeerId>,
    /// rank[k][p] = 1 + rank of distance(peer p, key k) among all peers
    pub rank: Vec<Vec<u64>>,
    pub addrs: Vec<Multiaddr>,
}

impl World {
    fn new(rng: &mut Rng) -> Self {
        let base = Instant::now();
        let keys: Vec<StoreKey> =
            (0..NKEYS).map(|i| StoreKey::from(vec![i as u8, rng.next() as u8, 7])).collect();
        let peers: Vec<PeerId> = (0..NPROVS).map(|_| PeerId::random()).collect();
        let mut rank = vec![vec![0u64; NPROVS]; NKEYS];
        for (ki, k) in keys.iter().enumerate() {
            let mut ds: Vec<(_, usize)> = peers
                .iter()
                .enumerate()
                .map(|(pi, p)| {
                    let r = ProviderRecord {
                        key: k.clone(),
                        provider: *p,
                        addresses: vec![],
                        expires: base,
                    };
                    (r.distance(), pi)
                })
                .collect();
            ds.sort();
            // the model receives ranks instead of 256-bit distances: that is faithful only if
            // distinct peers have distinct distances (distinct SHA-256 hashes)
            assert!(ds.windows(2).all(|x| x[0].0 != x[1].0), "two peers at the same distance");
            for (r, (_, pi)) in ds.iter().enumerate() {
                rank[ki][*pi] = r as u64 + 1;
            }
        }
        let addrs = (0..80u16)
            .map(|i| format!("/ip4/10.0.0.{}/tcp/{}", i + 1, 1000 + i).parse().unwrap())
            .collect();
        World { base, keys, peers, rank, addrs }
    }

    fn time_of(&self, t: u64) -> Instant {
        // logical microseconds since `base`
        self.base + Duration::from_micros(t)
    }

    fn micros(&self, t: Instant) -> u64 {
        t.duration_since(self.base).as_micros() as u64
    }

    pub fn key_index(&self, k: &StoreKey) -> u64 {
        self.keys.iter().position(|x| x == k).unwrap() as u64
    }

    pub fn peer_index(&self, p: &PeerId) -> u64 {
        self.peers.iter().position(|x| x == p).unwrap() as u64
    }
}

fn gen_case(rng: &mut Rng, w: &World, thorough: bool) -> Vec<u64> {
    let max_records = rng.pick(&[0u64, 1, 2, 3, 1024]);
    let max_size = rng.pick(&[0u64, 1, 5, 6, 65 * 1024]);
    let max_keys = rng.pick(&[0u64, 1, 2, 3, 1024]);
    let max_addrs = rng.pick(&[0u64, 1, 2, 30]);
    let max_per_key = if rng.chance(4) { 0 } else { rng.pick(&[1u64, 1, 2, 3, 20]) };
    let ttl = rng.pick(&[0u64, 3_600_000_000]);
    let nkeys = rng.range(1, NKEYS as u64);
    let nprovs = rng.range(2, NPROVS as u64);
    let nops = if thorough { rng.range(20, 500) } else { rng.range(10, 120) };
    let mut c = vec![max_records, max_size, max_keys, max_addrs, max_per_key, ttl, nops];
    for _ in 0..nops {
        let k = rng.below(nkeys);
        match rng.below(100) {
            0..=17 => c.extend([0, k]),
            18..=42 => {
                let len = rng.pick(&[0u64, 1, 3, 4, 5, 6, 7]);
                // the value id is the first byte, so an empty value has id 0
                let val = if len == 0 { 0 } else { rng.below(200) };
                let exp = match rng.below(10) {
                    0..=2 => 0,                                   // None
                    3..=5 => 1 + rng.range(1, 999),               // already in the past
                    _ => 1 + rng.range(1, 9) * 1_000_000_000,     // far future
                };
                c.extend([1, k, val, len, exp]);
            }
            43..=57 => c.extend([2, k]),
            58..=87 => {
                let p = rng.range(1, nprovs - 1);
                let na = rng.pick(&[0u64, 1, 2, 3, 35]);
                c.extend([3, k, p, w.rank[k as usize][p as usize], na]);
            }
            88..=94 => c.extend([4, k, w.rank[k as usize][0]]),
            _ => c.extend([5, k, w.rank[k as usize][0]]),
        }
    }
    let _ = w.peers.len();
    c
}

fn dump(w: &World, s: &MemoryStore, out: &mut Vec<u64>) {
    dump_with(w, s, out, &|t| w.micros(t))
}

fn dump_with(w: &World, s: &MemoryStore, out: &mut Vec<u64>, units: &dyn Fn(Instant) -> u64) {
    let mut recs: Vec<[u64; 4]> = s
        .verif_records()
        .values()
        .map(|r| {
            [
                w.key_index(&r.key),
                r.value.first().copied().unwrap_or(0) as u64,
                r.value.len() as u64,
                r.expires.map(|t| units(t) + 1).unwrap_or(0),
            ]
        })
        .collect();
    recs.sort();
    out.push(recs.len() as u64);
    for r in recs {
        out.extend(r);
    }
    let mut pk: Vec<(u64, Vec<u64>)> = s
        .verif_provider_keys()
        .iter()
        .map(|(k, ps)| {
            let ki = w.key_index(k);
            let mut v = vec![ps.len() as u64];
            for p in ps {
                let pi = w.peer_index(&p.provider);
                v.extend([pi, w.rank[ki as usize][pi as usize], p.addresses.len() as u64]);
            }
            (ki, v)
        })
        .collect();
    pk.sort();
    out.push(pk.len() as u64);
    for (k, v) in pk {
        out.push(k);
        out.extend(v);
    }
    let mut ls: Vec<u64> = s.verif_local_providers().iter().map(|k| w.key_index(k)).collect();
    ls.sort();
    out.push(ls.len() as u64);
    out.extend(ls);
}

/// Runs one case against the real MemoryStore. `None` if the case is not well-formed.
fn run_case(w: &World, c: &[u64]) -> Option<Vec<u64>> {
    if c.len() < 7 {
        return None;
    }
    let config = MemoryStoreConfig {
        max_records: c[0] as usize,
        max_record_size_bytes: c[1] as usize,
        max_provider_keys: c[2] as usize,
        max_provider_addresses: c[3] as usize,
        max_providers_per_key: c[4] as usize,
        provider_refresh_interval: Duration::from_secs(3600),
        provider_ttl: Duration::from_micros(c[5]),
    };
    let mut store = MemoryStore::with_config(w.peers[0], config);
    let nops = c[6] as usize;
    let mut i = 7;
    let mut out = vec![1u64];
    for _ in 0..nops {
        let tag = *c.get(i)?;
        let k = *c.get(i + 1)? as usize;
        let key = w.keys.get(k)?.clone();
        match tag {
            0 => {
                i += 2;
                match store.get(&key) {
                    None => out.extend([1, 0]),
                    Some(r) => out.extend([
                        1,
                        1,
                        w.key_index(&r.key),
                        r.value.first().copied().unwrap_or(0) as u64,
                        r.value.len() as u64,
                        r.expires.map(|t| w.micros(t) + 1).unwrap_or(0),
                    ]),
                }
            }
            1 => {
                let (val, len, exp) = (*c.get(i + 2)?, *c.get(i + 3)?, *c.get(i + 4)?);
                i += 5;
                store.put(Record {
                    key,
                    value: vec![val as u8; len as usize],
                    publisher: None,
                    expires: if exp == 0 { None } else { Some(w.time_of(exp - 1)) },
                });
                out.push(0);
            }
            2 => {
                i += 2;
                let ps = store.get_providers(&key);
                out.extend([2, ps.len() as u64]);
                for p in ps {
                    out.extend([w.peer_index(&p.peer), p.addresses.len() as u64]);
                }
            }
            3 => {
                let (p, _dist, na) = (*c.get(i + 2)? as usize, *c.get(i + 3)?, *c.get(i + 4)?);
                i += 5;
                let ok = store.put_provider(
                    key,
                    ContentProvider {
                        peer: *w.peers.get(p)?,
                        addresses: w.addrs.iter().take(na as usize).cloned().collect(),
                    },
                );
                out.extend([3, ok as u64]);
            }
            4 => {
                i += 3;
                let ok = store.put_local_provider(key, Quorum::One);
                out.extend([3, ok as u64]);
            }
            5 => {
                i += 3;
                let r = catch_unwind(AssertUnwindSafe(|| store.remove_local_provider(key)));
                out.extend([3, r.is_ok() as u64]);
            }
            _ => return None,
        }
        dump(w, &store, &mut out);
    }
    if i != c.len() {
        return None;
    }
    Some(out)
}

pub fn quorum_of(code: u64) -> Quorum {
    match code {
        0 => Quorum::All,
        1 => Quorum::One,
        n => Quorum::N(std::num::NonZeroUsize::new((n - 1) as usize).unwrap()),
    }
}

pub fn quorum_code(q: Quorum) -> u64 {
    match q {
        Quorum::All => 0,
        Quorum::One => 1,
        Quorum::N(n) => n.get() as u64 + 1,
    }
}

/// Resets the store clock override when a case ends (also by a panic).
struct ClockGuard;
impl Drop for ClockGuard {
    fn drop(&mut self) {
        store_clock::set(None);
    }
}

fn paused_runtime() -> tokio::runtime::Runtime {
    tokio::runtime::Builder::new_current_thread().enable_time().start_paused(true).build().unwrap()
}

// ------------------------------------------------------------------ timed stream

/// cfg(6) interval nops (tag now args..)*; see `p_top` in coq/C17/Glue.v. One unit = 1 ms.
fn gen_timed(rng: &mut Rng, w: &World, thorough: bool) -> Vec<u64> {
    let max_records = rng.pick(&[0u64, 1, 2, 3, 1024]);
    let max_size = rng.pick(&[0u64, 1, 5, 6, 65 * 1024]);
    let max_keys = rng.pick(&[0u64, 1, 2, 3, 1024]);
    let max_addrs = rng.pick(&[0u64, 1, 2, 30]);
    let max_per_key = if rng.chance(3) { 0 } else { rng.pick(&[1u64, 1, 2, 3, 20]) };
    let ttl = rng.pick(&[0u64, 1, 2, 5, 40]);
    let interval = rng.pick(&[0u64, 1, 3, 10, 25]);
    let nkeys = rng.range(1, NKEYS as u64);
    let nprovs = rng.range(2, NPROVS as u64);
    let nops = if thorough { rng.range(20, 400) } else { rng.range(10, 100) };
    let mut c = vec![TIMED_TAG, max_records, max_size, max_keys, max_addrs, max_per_key, ttl, interval, nops];
    let mut now = rng.below(4);
    // expiry of a record: mostly within a few units of the clock reading
    let near = |rng: &mut Rng, now: u64| -> u64 {
        match rng.below(12) {
            0 | 1 => 0, // None
            2 => 1 + now.saturating_sub(1),
            3 | 4 => 1 + now,
            5 | 6 => 1 + now + 1,
            7 => 1 + now + 2,
            8 => 1 + now + rng.range(3, 12),
            9 => 1 + now.saturating_sub(rng.range(2, 6)),
            _ => 1 + now + rng.range(0, 3),
        }
    };
    for _ in 0..nops {
        now += rng.pick(&[0u64, 0, 0, 1, 1, 1, 2, 3, 5, 12]);
        let k = rng.below(nkeys);
        match rng.below(100) {
            0..=14 => c.extend([0, now, k]),
            15..=34 => {
                let len = rng.pick(&[0u64, 1, 3, 4, 5, 6, 7]);
                let val = if len == 0 { 0 } else { rng.below(200) };
                let e = near(rng, now);
                c.extend([1, now, k, val, len, e]);
            }
            35..=49 => c.extend([2, now, k]),
            50..=69 => {
                let p = rng.range(1, nprovs - 1);
                let na = rng.pick(&[0u64, 1, 2, 3, 35]);
                c.extend([3, now, k, p, w.rank[k as usize][p as usize], na]);
            }
            70..=79 => c.extend([4, now, k, w.rank[k as usize][0], rng.pick(&[0u64, 1, 2, 3, 21])]),
            80..=83 => c.extend([5, now, k, w.rank[k as usize][0]]),
            84..=93 => c.extend([6, now]),
            94..=96 => {
                let e = near(rng, now);
                c.extend([7, now, e]);
            }
            _ => {
                let e = near(rng, now).max(1) - 1;
                c.extend([8, now, e]);
            }
        }
    }
    c
}

fn run_timed(w: &World, c: &[u64]) -> Option<Vec<u64>> {
    if c.len() < 9 || c[0] != TIMED_TAG {
        return None;
    }
    let rt = paused_runtime();
    rt.block_on(tokio::task::unconstrained(run_timed_async(w, c)))
}

async fn run_timed_async(w: &World, c: &[u64]) -> Option<Vec<u64>> {
    let _guard = ClockGuard;
    let base = Instant::now();
    let at = |t: u64| base + Duration::from_millis(t);
    let units = |t: Instant| t.saturating_duration_since(base).as_millis() as u64;
    let config = MemoryStoreConfig {
        max_records: c[1] as usize,
        max_record_size_bytes: c[2] as usize,
        max_provider_keys: c[3] as usize,
        max_provider_addresses: c[4] as usize,
        max_providers_per_key: c[5] as usize,
        provider_refresh_interval: Duration::from_millis(c[7]),
        provider_ttl: Duration::from_millis(c[6]),
    };
    let mut store = MemoryStore::with_config(w.peers[0], config);
    let nops = c[8] as usize;
    let mut i = 9;
    let mut out = vec![2u64];
    let mut tokio_now = 0u64;
    for _ in 0..nops {
        let tag = *c.get(i)?;
        let now = *c.get(i + 1)?;
        if now > 1 << 40 {
            return None;
        }
        store_clock::set(Some(at(now)));
        if now > tokio_now {
            tokio::time::advance(Duration::from_millis(now - tokio_now)).await;
            tokio_now = now;
        }
        i += 2;
        let key = |j: usize| -> Option<StoreKey> { w.keys.get(*c.get(j)? as usize).cloned() };
        match tag {
            0 => {
                let key = key(i)?;
                i += 1;
                match store.get(&key) {
                    None => out.extend([1, 0]),
                    Some(r) => out.extend([
                        1,
                        1,
                        w.key_index(&r.key),
                        r.value.first().copied().unwrap_or(0) as u64,
                        r.value.len() as u64,
                        r.expires.map(|t| units(t) + 1).unwrap_or(0),
                    ]),
                }
            }
            1 => {
                let key = key(i)?;
                let (val, len, exp) = (*c.get(i + 1)?, *c.get(i + 2)?, *c.get(i + 3)?);
                i += 4;
                if len > 1 << 20 || exp > 1 << 40 {
                    return None;
                }
                store.put(Record {
                    key,
                    value: vec![val as u8; len as usize],
                    publisher: None,
                    expires: if exp == 0 { None } else { Some(at(exp - 1)) },
                });
                out.push(0);
            }
            2 => {
                let key = key(i)?;
                i += 1;
                let ps = store.get_providers(&key);
                out.extend([2, ps.len() as u64]);
                for p in ps {
                    out.extend([w.peer_index(&p.peer), p.addresses.len() as u64]);
                }
            }
            3 => {
                let key = key(i)?;
                let (p, na) = (*c.get(i + 1)? as usize, *c.get(i + 3)?);
                i += 4;
                let ok = store.put_provider(
                    key,
                    ContentProvider {
                        peer: *w.peers.get(p)?,
                        addresses: w.addrs.iter().take(na as usize).cloned().collect(),
                    },
                );
                out.extend([3, ok as u64]);
            }
            4 => {
                let key = key(i)?;
                let q = *c.get(i + 2)?;
                i += 3;
                if q > 1 << 30 {
                    return None;
                }
                let ok = store.put_local_provider(key, quorum_of(q));
                out.extend([3, ok as u64]);
            }
            5 => {
                let key = key(i)?;
                i += 2;
                let r = catch_unwind(AssertUnwindSafe(|| store.remove_local_provider(key)));
                out.extend([3, r.is_ok() as u64]);
            }
            6 => {
                // `next_action()` until it stays Pending
                let mut some: Vec<[u64; 2]> = Vec::new();
                let mut gone = 0u64;
                let mut pending = 0;
                let mut rounds = 0;
                while pending < 2 && rounds < 100_000 {
                    rounds += 1;
                    let r = {
                        let fut = store.next_action();
                        tokio::pin!(fut);
                        futures::poll!(fut)
                    };
                    match r {
                        std::task::Poll::Ready(Some(MemoryStoreAction::RefreshProvider { provided_key, provider, quorum })) => {
                            pending = 0;
                            // the provider of a refresh is always the local peer without addresses
                            let okp = provider.peer == w.peers[0] && provider.addresses.is_empty();
                            some.push([w.key_index(&provided_key), if okp { quorum_code(quorum) } else { 777_777 }]);
                        }
                        std::task::Poll::Ready(None) => {
                            pending = 0;
                            gone += 1;
                        }
                        std::task::Poll::Pending => pending += 1,
                    }
                }
                some.sort();
                out.extend([4, some.len() as u64]);
                for x in some {
                    out.extend(x);
                }
                out.push(gone);
            }
            7 => {
                let e = *c.get(i)?;
                i += 1;
                if e > 1 << 40 {
                    return None;
                }
                let r = Record {
                    key: w.keys[0].clone(),
                    value: vec![],
                    publisher: None,
                    expires: if e == 0 { None } else { Some(at(e - 1)) },
                };
                out.extend([5, r.is_expired(at(now)) as u64]);
            }
            8 => {
                let e = *c.get(i)?;
                i += 1;
                if e > 1 << 40 {
                    return None;
                }
                let r = ProviderRecord { key: w.keys[0].clone(), provider: w.peers[1], addresses: vec![], expires: at(e) };
                out.extend([5, r.is_expired(at(now)) as u64]);
            }
            _ => return None,
        }
        dump_with(w, &store, &mut out, &units);
        let mut qs: Vec<[u64; 2]> = store
            .verif_local_providers_full()
            .iter()
            .map(|(k, p, q)| {
                let okp = p.peer == w.peers[0] && p.addresses.is_empty();
                [w.key_index(k), if okp { quorum_code(*q) } else { 777_777 }]
            })
            .collect();
        qs.sort();
        out.push(qs.len() as u64);
        for x in qs {
            out.extend(x);
        }
        out.push(store.verif_pending_refresh_len() as u64);
    }
    if i != c.len() {
        return None;
    }
    Some(out)
}

/// Runs one case of any kind; returns the case as executed (a Kademlia case comes back with the
/// observed refresh order and this world's distances) and the trace.
fn run_any(w: &World, rt: &tokio::runtime::Runtime, c: &[u64]) -> (Vec<u64>, Vec<u64>) {
    let r = catch_unwind(AssertUnwindSafe(|| match c.first() {
        Some(&TIMED_TAG) => run_timed(w, c).map(|t| (c.to_vec(), t)),
        Some(&KAD_TAG) => crate::c17_kad::run(w, c),
        Some(&DEFAULTS_TAG) if c.len() == 1 => {
            // the compiled defaults, against the constants the translator reads from config.rs
            let d = MemoryStoreConfig::default();
            Some((
                c.to_vec(),
                vec![
                    4,
                    d.max_records as u64,
                    d.max_record_size_bytes as u64,
                    d.max_provider_keys as u64,
                    d.max_provider_addresses as u64,
                    d.max_providers_per_key as u64,
                    d.provider_refresh_interval.as_secs(),
                    d.provider_ttl.as_secs(),
                ],
            ))
        }
        _ => {
            let _g = rt.enter();
            run_case(w, c).map(|t| (c.to_vec(), t))
        }
    }));
    store_clock::set(None);
    match r {
        Ok(Some(x)) => x,
        Ok(None) => (c.to_vec(), vec![0]),
        Err(_) => (c.to_vec(), vec![PANIC_MARK]),
    }
}

pub fn main(args: &Args) {
    let seed = args.u64("seed", 1);
    let ncases = args.u64("cases", 100);
    let thorough = args.str("tier") == Some("thorough");
    let mut out = Outputs::open(args);
    let rt = tokio::runtime::Builder::new_current_thread().enable_all().build().unwrap();
    let mut rng = Rng::new(seed);
    let w = World::new(&mut rng);
    // "past" expiries are base + <1 ms, "now" must lie after all of them
    std::thread::sleep(Duration::from_millis(5));

    let mut stored: Vec<Vec<u64>> = Vec::new();
    if let Some(r) = args.str("replay") {
        stored = read_cases(Path::new(r));
    } else if let Some(d) = args.str("corpus") {
        stored = read_cases(Path::new(d));
    }
    for c in stored.iter() {
        // stored cases carry distance ranks of the world they were found in; they are
        // re-ranked for this run's peers so that they stay consistent with the real hashes
        let c = rerank(&w, c);
        let (c, t) = run_any(&w, &rt, &c);
        out.emit(&c, &t);
    }
    if args.str("replay").is_some() {
        return;
    }
    let (c, t) = run_any(&w, &rt, &[DEFAULTS_TAG]);
    out.emit(&c, &t);
    let only = args.str("kind");
    for _ in 0..ncases {
        let mut r = rng.fork();
        let kind = match only {
            Some("legacy") => 0,
            Some("timed") => 40,
            Some("kad") => 80,
            _ => r.below(100),
        };
        let c = match kind {
            0..=39 => gen_case(&mut r, &w, thorough),
            40..=74 => gen_timed(&mut r, &w, thorough),
            _ => crate::c17_kad::gen_case(&mut r, &w, thorough),
        };
        let (c, t) = run_any(&w, &rt, &c);
        out.emit(&c, &t);
    }
}

/// Rewrites the distance arguments of a stored case with this run's ranks.
fn rerank(w: &World, c: &[u64]) -> Vec<u64> {
    match c.first() {
        Some(&TIMED_TAG) => rerank_timed(w, c),
        Some(&KAD_TAG) => c.to_vec(), // distances and refresh order are filled in by the run
        _ => rerank_legacy(w, c),
    }
}

fn rerank_timed(w: &World, c: &[u64]) -> Vec<u64> {
    let mut c = c.to_vec();
    let mut i = 9;
    while i + 1 < c.len() {
        let k = c.get(i + 2).copied().unwrap_or(0) as usize % NKEYS;
        match c[i] {
            0 | 2 => i += 3,
            1 => i += 6,
            3 => {
                if i + 4 < c.len() {
                    let p = c[i + 3] as usize % NPROVS;
                    c[i + 4] = w.rank[k][p];
                }
                i += 6;
            }
            4 => {
                if i + 3 < c.len() {
                    c[i + 3] = w.rank[k][0];
                }
                i += 5;
            }
            5 => {
                if i + 3 < c.len() {
                    c[i + 3] = w.rank[k][0];
                }
                i += 4;
            }
            6 => i += 2,
            7 | 8 => i += 3,
            _ => break,
        }
    }
    c
}

fn rerank_legacy(w: &World, c: &[u64]) -> Vec<u64> {
    let mut c = c.to_vec();
    if c.len() < 7 {
        return c;
    }
    let mut i = 7;
    while i < c.len() {
        let k = c.get(i + 1).copied().unwrap_or(0) as usize % NKEYS;
        match c[i] {
            0 | 2 => i += 2,
            1 => i += 5,
            3 => {
                if i + 3 < c.len() {
                    let p = c[i + 2] as usize % NPROVS;
                    c[i + 3] = w.rank[k][p];
                }
                i += 5;
            }
            4 | 5 => {
                if i + 2 < c.len() {
                    c[i + 2] = w.rank[k][0];
                }
                i += 3;
            }
            _ => break,
        }
    }
    c
}
