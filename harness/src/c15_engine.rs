//! C15, engine stream: the real `QueryEngine` over all eight query types and every entry point
//! (start_* incl. the send phases and put_record_to_peers, register_response with every
//! `KademliaMessage` kind, response failure, send success / failure, peer failure, next_peer_action,
//! next_action). Case format: coq/C15/Glue.v ("engine cases", first number 10).
//!
//! Query types and message kinds are enumerated from the table tools/gen_c15_dispatch.py extracts from
//! the Rust source (gen_c15_dispatch.rs); a name this file has no constructor for makes every case
//! of the stream invalid.
use super::{gen_dispatch, push_entries, Cursor, World, LOGICAL_UNIT, NADDR, NO_TIMEOUT, POOL};
use crate::util::*;
use bytes::Bytes;
use litep2p::{
    protocol::libp2p::kademlia::{
        verif::{ConnectionType, KademliaMessage, KademliaPeer, Key, QueryAction, QueryEngine, SchemaMessage},
        ContentProvider, QueryId, Quorum, Record, RecordKey,
    },
    PeerId,
};
use prost::Message as _;
use std::{
    collections::HashMap,
    num::NonZeroUsize,
    panic::{catch_unwind, AssertUnwindSafe},
    time::Instant,
};

/// The query types / message kinds / action variants this harness knows how to build and read.
const KNOWN_QUERY_TYPES: &[&str] = &[
    "FindNode", "PutRecord", "PutRecordToPeers", "PutRecordToFoundNodes", "GetRecord", "AddProvider",
    "AddProviderToFoundNodes", "GetProviders",
];
const KNOWN_MESSAGE_KINDS: &[&str] = &["FindNode", "PutValue", "GetRecord", "AddProvider", "GetProviders"];
const KNOWN_ACTIONS: &[&str] = &[
    "SendMessage", "FindNodeQuerySucceeded", "PutRecordToFoundNodes", "PutRecordQuerySucceeded",
    "AddProviderToFoundNodes", "AddProviderQuerySucceeded", "GetRecordQueryDone", "GetRecordPartialResult",
    "GetProvidersQueryDone", "QuerySucceeded", "QueryFailed",
];
const KNOWN_QUORUM: &[&str] = &["All", "One", "N"];

/// true when the enums of the source are exactly the ones this file was written for
pub fn tables_in_sync() -> bool {
    gen_dispatch::QUERY_TYPES == KNOWN_QUERY_TYPES
        && gen_dispatch::MESSAGE_KINDS == KNOWN_MESSAGE_KINDS
        && gen_dispatch::QUERY_ACTIONS == KNOWN_ACTIONS
        && gen_dispatch::QUORUM_VARIANTS == KNOWN_QUORUM
}

#[derive(Clone, Debug)]
pub enum XEvent {
    Next(u64),
    Start { q: u64, t: u64, qtag: u64, qn: u64, known: u64, peers: Vec<u64>, kprov: Vec<(u64, Vec<u64>)> },
    Resp { q: u64, p: u64, mk: u64, flag: u64, id: u64, peers: Vec<u64>, provs: Vec<(u64, Vec<u64>)> },
    Fail(u64, u64),
    SendOk(u64, u64),
    SendFail(u64, u64),
    PeerFail(u64, u64),
    PeerAct(u64, u64),
}

impl XEvent {
    fn encode(&self, ch: u64) -> Vec<u64> {
        match self {
            XEvent::Next(now) => vec![0, *now, ch],
            XEvent::Start { q, t, qtag, qn, known, peers, kprov } => {
                let mut v = vec![1, *q, *t, *qtag, *qn, *known, peers.len() as u64];
                v.extend(peers);
                push_entries(&mut v, kprov);
                v
            }
            XEvent::Resp { q, p, mk, flag, id, peers, provs } => {
                let mut v = vec![2, *q, *p, *mk, *flag, *id, peers.len() as u64];
                v.extend(peers);
                push_entries(&mut v, provs);
                v
            }
            XEvent::Fail(q, p) => vec![3, *q, *p],
            XEvent::SendOk(q, p) => vec![4, *q, *p],
            XEvent::SendFail(q, p) => vec![5, *q, *p],
            XEvent::PeerFail(q, p) => vec![6, *q, *p],
            XEvent::PeerAct(q, p) => vec![7, *q, *p],
        }
    }
}

#[derive(Clone)]
pub struct XHeader {
    pub k: u64,
    pub alpha: u64,
    pub timeout: u64,
    pub local: u64,
    pub dists: Vec<u64>,
}

impl XHeader {
    fn encode(&self, events: &[Vec<u64>]) -> Vec<u64> {
        let mut c = vec![10, self.k, self.alpha, self.timeout, self.local, self.dists.len() as u64];
        c.extend(&self.dists);
        c.push(events.len() as u64);
        for e in events {
            c.extend(e);
        }
        c
    }
}

fn decode(c: &[u64]) -> Option<(XHeader, Vec<XEvent>)> {
    let mut r = Cursor(c, 0);
    if r.n()? != 10 {
        return None;
    }
    let h = XHeader { k: r.n()?, alpha: r.n()?, timeout: r.n()?, local: r.n()?, dists: r.list()? };
    let n = r.n()? as usize;
    let mut evs = Vec::new();
    for _ in 0..n {
        let e = match r.n()? {
            0 => {
                let now = r.n()?;
                let _ch = r.n()?;
                XEvent::Next(now)
            }
            1 => XEvent::Start {
                q: r.n()?,
                t: r.n()?,
                qtag: r.n()?,
                qn: r.n()?,
                known: r.n()?,
                peers: r.list()?,
                kprov: r.entries()?,
            },
            2 => XEvent::Resp {
                q: r.n()?,
                p: r.n()?,
                mk: r.n()?,
                flag: r.n()?,
                id: r.n()?,
                peers: r.list()?,
                provs: r.entries()?,
            },
            3 => XEvent::Fail(r.n()?, r.n()?),
            4 => XEvent::SendOk(r.n()?, r.n()?),
            5 => XEvent::SendFail(r.n()?, r.n()?),
            6 => XEvent::PeerFail(r.n()?, r.n()?),
            7 => XEvent::PeerAct(r.n()?, r.n()?),
            _ => return None,
        };
        evs.push(e);
    }
    if r.1 != c.len() {
        return None;
    }
    Some((h, evs))
}

/// The real engine plus the peer-index translation of the case.
struct XSys<'w> {
    w: &'w World,
    engine: QueryEngine,
    peers: Vec<PeerId>,
    index: HashMap<PeerId, u64>,
    target_key: RecordKey,
    target_bytes: Vec<u8>,
    timed: bool,
    clock: u64,
    start: Instant,
    late: bool,
    /// the query the last `next_action` result belonged to
    acted: Option<u64>,
}

const BAD: u64 = 98;

impl<'w> XSys<'w> {
    fn new(w: &'w World, h: &XHeader) -> Option<Self> {
        let n = h.dists.len();
        if n == 0 || n > POOL || (h.local as usize) >= n {
            return None;
        }
        let mut peers = Vec::new();
        let mut index = HashMap::new();
        for (i, d) in h.dists.iter().enumerate() {
            let p = *w.by_peer_target.get(*d as usize)?;
            if index.insert(p, i as u64).is_some() {
                return None;
            }
            peers.push(p);
        }
        let mut engine = QueryEngine::new(peers[h.local as usize], h.k as usize, h.alpha as usize);
        let timed = h.timeout < NO_TIMEOUT;
        if timed {
            engine.verif_force_peer_timeout(LOGICAL_UNIT * h.timeout as u32 + LOGICAL_UNIT / 2);
        }
        let target_bytes = w.target_peer.to_bytes();
        Some(XSys {
            w,
            engine,
            peers,
            index,
            target_key: RecordKey::from(target_bytes.clone()),
            target_bytes,
            timed,
            clock: 0,
            start: Instant::now(),
            late: false,
            acted: None,
        })
    }

    /// the connection type a peer is reported with must not matter to any query: all four occur
    fn kad(&self, p: u64, addrs: &[u64]) -> KademliaPeer {
        let connection = match (p + addrs.len() as u64) % 4 {
            0 => ConnectionType::NotConnected,
            1 => ConnectionType::Connected,
            2 => ConnectionType::CanConnect,
            _ => ConnectionType::CannotConnect,
        };
        KademliaPeer::new(
            self.peers[p as usize],
            addrs.iter().map(|x| self.w.addrs[*x as usize].clone()).collect(),
            connection,
        )
    }

    fn idx(&self, p: &PeerId) -> u64 {
        self.index.get(p).copied().unwrap_or(777)
    }

    fn idxs<'a>(&self, it: impl Iterator<Item = &'a PeerId>, sort: bool) -> Vec<u64> {
        let mut v: Vec<u64> = it.map(|p| self.idx(p)).collect();
        if sort {
            v.sort();
        }
        v
    }

    fn record(&self) -> Record {
        Record { key: self.target_key.clone(), value: vec![9, 9], publisher: None, expires: None }
    }

    fn provider(&self) -> ContentProvider {
        ContentProvider { peer: self.peers[0], addresses: vec![self.w.addrs[0].clone()] }
    }

    fn quorum(qtag: u64, qn: u64) -> Option<Quorum> {
        Some(match KNOWN_QUORUM.get(qtag as usize)? {
            &"All" => Quorum::All,
            &"One" => Quorum::One,
            _ => Quorum::N(NonZeroUsize::new(qn as usize)?),
        })
    }

    fn enc_quorum(q: &Quorum) -> [u64; 2] {
        match q {
            Quorum::All => [0, 0],
            Quorum::One => [1, 0],
            Quorum::N(n) => [2, n.get() as u64],
        }
    }

    /// kind of a request the engine wants sent, from its bytes; BAD when it is not for the target
    fn request_kind(&self, message: &Bytes) -> u64 {
        let Ok(m) = SchemaMessage::decode(&message[..]) else { return BAD };
        if m.key != self.target_bytes {
            return BAD;
        }
        // kademlia.proto MessageType -> index of the KademliaMessage variant
        let name = match m.r#type {
            4 => "FindNode",
            0 => "PutValue",
            1 => "GetRecord",
            2 => "AddProvider",
            3 => "GetProviders",
            _ => return BAD,
        };
        KNOWN_MESSAGE_KINDS.iter().position(|x| *x == name).map(|i| i as u64).unwrap_or(BAD)
    }

    fn peer_list(&self, peers: &[KademliaPeer]) -> Vec<u64> {
        let mut v = vec![peers.len() as u64];
        v.extend(peers.iter().map(|p| self.idx(&p.verif_peer())));
        v
    }

    fn action(&mut self, a: Option<QueryAction>) -> Vec<u64> {
        let (qid, mut v) = match a {
            None => {
                self.acted = None;
                return vec![0];
            }
            Some(QueryAction::SendMessage { query, peer, message }) =>
                (query, vec![1, 0, self.idx(&peer), self.request_kind(&message)]),
            Some(QueryAction::QueryFailed { query }) => (query, vec![2, 0]),
            Some(QueryAction::FindNodeQuerySucceeded { query, target, peers }) => {
                let mut v = vec![if target == self.w.target_peer { 3 } else { BAD }, 0];
                v.extend(self.peer_list(&peers));
                (query, v)
            }
            Some(QueryAction::PutRecordToFoundNodes { query, record, peers, quorum }) => {
                let ok = record.key == self.target_key && record.value == vec![9, 9];
                let mut v = vec![if ok { 4 } else { BAD }, 0];
                v.extend(self.peer_list(&peers));
                v.extend(Self::enc_quorum(&quorum));
                (query, v)
            }
            Some(QueryAction::PutRecordQuerySucceeded { query, key }) =>
                (query, vec![if key == self.target_key { 5 } else { BAD }, 0]),
            Some(QueryAction::AddProviderToFoundNodes { query, provided_key, provider, peers, quorum }) => {
                let ok = provided_key == self.target_key && provider == self.provider();
                let mut v = vec![if ok { 6 } else { BAD }, 0];
                v.extend(self.peer_list(&peers));
                v.extend(Self::enc_quorum(&quorum));
                (query, v)
            }
            Some(QueryAction::AddProviderQuerySucceeded { query, provided_key }) =>
                (query, vec![if provided_key == self.target_key { 7 } else { BAD }, 0]),
            Some(QueryAction::GetRecordPartialResult { query_id, record }) => (
                query_id,
                vec![8, 0, self.idx(&record.peer), record.record.value.first().copied().unwrap_or(0) as u64],
            ),
            Some(QueryAction::GetRecordQueryDone { query_id }) => (query_id, vec![9, 0]),
            Some(QueryAction::GetProvidersQueryDone { query_id, provided_key, providers }) => {
                let mut v = vec![if provided_key == self.target_key { 10 } else { BAD }, 0, providers.len() as u64];
                for p in providers {
                    let mut a: Vec<u64> = p
                        .addresses
                        .iter()
                        .map(|x| self.w.addrs.iter().position(|y| y == x).unwrap_or(99) as u64)
                        .collect();
                    a.sort();
                    v.push(self.idx(&p.peer));
                    v.push(a.len() as u64);
                    v.extend(a);
                }
                (query_id, v)
            }
            // the context-level verdict never leaves the engine
            Some(QueryAction::QuerySucceeded { query }) => (query, vec![BAD, 0]),
        };
        v[1] = qid.0 as u64;
        self.acted = Some(qid.0 as u64);
        v
    }

    fn dump(&self, out: &mut Vec<u64>) {
        fn put(out: &mut Vec<u64>, v: Vec<u64>) {
            out.push(v.len() as u64);
            out.extend(v);
        }
        let mut qs = self.engine.verif_queries();
        qs.sort_by_key(|x| x.query.0);
        out.push(qs.len() as u64);
        for x in qs {
            out.push(x.query.0 as u64);
            out.push(x.tag as u64);
            if let Some(d) = x.lookup {
                put(out, self.idxs(d.candidates.iter(), false));
                put(out, self.idxs(d.pending.iter(), true));
                put(out, self.idxs(d.queried.iter(), true));
                put(out, self.idxs(d.responses.iter(), false));
                out.push(d.found_records as u64);
                put(out, self.idxs(d.queued_records.iter(), false));
                put(out, self.idxs(d.found_providers.iter(), false));
            } else if let Some((pending, succ, need)) = x.tracking {
                put(out, self.idxs(pending.iter(), true));
                out.push(succ as u64);
                out.push(need as u64);
            }
        }
    }

    fn message(&self, mk: u64, flag: u64, id: u64, peers: &[u64], provs: &[(u64, Vec<u64>)]) -> Option<KademliaMessage> {
        let peers: Vec<KademliaPeer> = peers.iter().map(|x| self.kad(*x, &[])).collect();
        let providers: Vec<KademliaPeer> = provs.iter().map(|(x, a)| self.kad(*x, a)).collect();
        Some(match *gen_dispatch::MESSAGE_KINDS.get(mk as usize)? {
            "FindNode" => KademliaMessage::FindNode { target: vec![], peers },
            "PutValue" => KademliaMessage::PutValue { record: self.record() },
            "GetRecord" => KademliaMessage::GetRecord {
                key: None,
                record: match flag {
                    0 => None,
                    f => Some(Record {
                        key: self.target_key.clone(),
                        value: vec![id as u8, 1, 2],
                        publisher: None,
                        // 1: never expires, 2: expired, 3: expires far in the future (recorded as 1)
                        expires: match f {
                            1 => None,
                            2 => Some(self.w.base),
                            _ => Some(Instant::now() + std::time::Duration::from_secs(3600)),
                        },
                    }),
                },
                peers,
            },
            "AddProvider" => KademliaMessage::AddProvider { key: self.target_key.clone(), providers },
            "GetProviders" => KademliaMessage::GetProviders { key: None, peers, providers },
            _ => return None,
        })
    }

    /// Applies one event to the real engine; appends action and dump to `trace`; returns the action.
    fn apply(&mut self, e: &XEvent, trace: &mut Vec<u64>) -> Vec<u64> {
        let n = self.peers.len() as u64;
        let okp = |p: &u64| *p < n;
        let oke = |l: &[(u64, Vec<u64>)]| l.iter().all(|(p, a)| *p < n && a.iter().all(|x| (*x as usize) < NADDR));
        let a = match e {
            XEvent::Next(now) => {
                if self.timed && *now > self.clock {
                    let by = LOGICAL_UNIT * (*now - self.clock) as u32;
                    for x in self.engine.verif_queries() {
                        if !self.engine.verif_age_pending(x.query, by) {
                            self.late = true;
                        }
                    }
                    self.clock = *now;
                }
                if self.timed && self.start.elapsed() > LOGICAL_UNIT / 4 {
                    self.late = true;
                }
                let a = self.engine.next_action();
                self.action(a)
            }
            XEvent::Start { q, t, qtag, qn, known, peers, kprov } if peers.iter().all(okp) && oke(kprov) => {
                let qid = QueryId(*q as usize);
                let kads = || peers.iter().map(|p| self.kad(*p, &[])).collect::<Vec<_>>();
                let ids = || peers.iter().map(|p| self.peers[*p as usize]).collect::<Vec<_>>();
                match (gen_dispatch::QUERY_TYPES.get(*t as usize).copied(), Self::quorum(*qtag, *qn)) {
                    (Some("FindNode"), Some(_)) => {
                        self.engine.start_find_node(qid, self.w.target_peer, kads().into());
                        vec![0]
                    }
                    (Some("PutRecord"), Some(quorum)) => {
                        self.engine.start_put_record(qid, self.record(), kads().into(), quorum);
                        vec![0]
                    }
                    (Some("PutRecordToPeers"), Some(quorum)) => {
                        self.engine.start_put_record_to_peers(qid, self.record(), kads(), quorum);
                        vec![0]
                    }
                    (Some("PutRecordToFoundNodes"), Some(quorum)) => {
                        self.engine.start_put_record_to_found_nodes_requests_tracking(
                            qid,
                            self.target_key.clone(),
                            ids(),
                            quorum,
                        );
                        vec![0]
                    }
                    (Some("GetRecord"), Some(quorum)) => {
                        self.engine.start_get_record(qid, self.target_key.clone(), kads().into(), quorum, *known != 0);
                        vec![0]
                    }
                    (Some("AddProvider"), Some(quorum)) => {
                        self.engine.start_add_provider(
                            qid,
                            self.target_key.clone(),
                            self.provider(),
                            kads().into(),
                            quorum,
                        );
                        vec![0]
                    }
                    (Some("AddProviderToFoundNodes"), Some(quorum)) => {
                        self.engine.start_add_provider_to_found_nodes_requests_tracking(
                            qid,
                            self.target_key.clone(),
                            ids(),
                            quorum,
                        );
                        vec![0]
                    }
                    (Some("GetProviders"), Some(_)) => {
                        let kp = kprov
                            .iter()
                            .map(|(p, a)| ContentProvider {
                                peer: self.peers[*p as usize],
                                addresses: a.iter().map(|x| self.w.addrs[*x as usize].clone()).collect(),
                            })
                            .collect();
                        self.engine.start_get_providers(qid, self.target_key.clone(), kads().into(), kp);
                        vec![0]
                    }
                    _ => vec![97],
                }
            }
            XEvent::Resp { q, p, mk, flag, id, peers, provs } if okp(p) && peers.iter().all(okp) && oke(provs) => {
                match self.message(*mk, *flag, *id, peers, provs) {
                    Some(msg) => {
                        self.engine.register_response(QueryId(*q as usize), self.peers[*p as usize], msg);
                        vec![0]
                    }
                    None => vec![97],
                }
            }
            XEvent::Fail(q, p) if okp(p) => {
                self.engine.register_response_failure(QueryId(*q as usize), self.peers[*p as usize]);
                vec![0]
            }
            XEvent::SendOk(q, p) if okp(p) => {
                self.engine.register_send_success(QueryId(*q as usize), self.peers[*p as usize]);
                vec![0]
            }
            XEvent::SendFail(q, p) if okp(p) => {
                self.engine.register_send_failure(QueryId(*q as usize), self.peers[*p as usize]);
                vec![0]
            }
            XEvent::PeerFail(q, p) if okp(p) => {
                self.engine.register_peer_failure(QueryId(*q as usize), self.peers[*p as usize]);
                vec![0]
            }
            XEvent::PeerAct(q, p) if okp(p) => {
                let qid = QueryId(*q as usize);
                let peer = self.peers[*p as usize];
                match self.engine.next_peer_action(&qid, &peer) {
                    None => vec![0],
                    Some(QueryAction::SendMessage { peer, query, message }) if query == qid =>
                        vec![11, self.idx(&peer), self.request_kind(&message)],
                    Some(_) => vec![BAD],
                }
            }
            _ => vec![97],
        };
        trace.extend(&a);
        self.dump(trace);
        a
    }

    /// `ch` of a `next_action` event: 0 = nothing, q+1 = query q acted
    fn choice(&self, e: &XEvent, a: &[u64]) -> u64 {
        match e {
            XEvent::Next(_) if a[0] != 0 => self.acted.map(|q| q + 1).unwrap_or(0),
            _ => 0,
        }
    }
}

/// Replays a stored engine case; the choice of every `next_action` event is the one made in THIS run
/// (HashMap order), and the patched case is what the model gets.
pub fn run_stored(w: &World, c: &[u64]) -> Option<(Vec<u64>, Vec<u64>)> {
    let (h, evs) = decode(c)?;
    if !tables_in_sync() {
        return Some((c.to_vec(), vec![0, 96]));
    }
    for _attempt in 0..6 {
        let mut s = XSys::new(w, &h)?;
        let mut trace = vec![1u64];
        let mut events = Vec::new();
        for e in &evs {
            let a = s.apply(e, &mut trace);
            events.push(e.encode(s.choice(e, &a)));
        }
        if !s.late {
            return Some((h.encode(&events), trace));
        }
    }
    None
}

struct Driver<'w> {
    s: XSys<'w>,
    events: Vec<Vec<u64>>,
    trace: Vec<u64>,
}

impl<'w> Driver<'w> {
    fn new(w: &'w World, h: &XHeader) -> Option<Self> {
        Some(Driver { s: XSys::new(w, h)?, events: Vec::new(), trace: vec![1] })
    }
    fn go(&mut self, e: XEvent) -> Vec<u64> {
        let a = self.s.apply(&e, &mut self.trace);
        self.events.push(e.encode(self.s.choice(&e, &a)));
        a
    }
}

fn is_lookup(t: u64) -> bool {
    matches!(t, 0 | 1 | 4 | 5 | 7)
}
fn is_tracking(t: u64) -> bool {
    matches!(t, 3 | 6)
}
/// index of the message kind a lookup of type t treats as an answer
fn answer_kind(t: u64) -> u64 {
    match t {
        4 => 2,
        7 => 4,
        _ => 0,
    }
}

/// What every peer of the simulated network answers.
struct XNet {
    knows: Vec<Vec<u64>>,
    rec: Vec<(u64, u64)>,
    provs: Vec<Vec<(u64, Vec<u64>)>>,
}

fn random_addrs(rng: &mut Rng) -> Vec<u64> {
    (0..rng.below(4)).map(|_| rng.below(NADDR as u64)).collect()
}

fn random_xheader(rng: &mut Rng, timed: bool) -> XHeader {
    let n = rng.range(2, 8);
    let mut pool: Vec<u64> = (0..POOL as u64).collect();
    let mut dists = Vec::new();
    for _ in 0..n {
        let i = rng.below(pool.len() as u64) as usize;
        dists.push(pool.swap_remove(i));
    }
    XHeader {
        k: rng.pick(&[1u64, 1, 2, 3, 20]),
        alpha: if rng.chance(2) { 0 } else { rng.pick(&[1u64, 2, 2, 3]) },
        timeout: if timed { rng.pick(&[1u64, 2, 5]) } else { NO_TIMEOUT },
        local: rng.below(n),
        dists,
    }
}

fn random_xnet(rng: &mut Rng, n: u64) -> XNet {
    XNet {
        knows: (0..n).map(|_| (0..rng.below(5)).map(|_| rng.below(n)).collect()).collect(),
        rec: (0..n)
            .map(|_| match rng.below(10) {
                0..=3 => (0, 0),
                4..=6 => (1, rng.range(1, 200)),
                7 => (3, rng.range(1, 200)),
                _ => (2, rng.range(1, 200)),
            })
            .collect(),
        provs: (0..n).map(|_| (0..rng.below(3)).map(|_| (rng.below(n), random_addrs(rng))).collect()).collect(),
    }
}

fn reply(net: &XNet, q: u64, p: u64, mk: u64) -> XEvent {
    XEvent::Resp {
        q,
        p,
        mk,
        // 0 no record, 1 record without expiry, 2 expired record, 3 record that expires in the future
        flag: net.rec[p as usize].0,
        id: net.rec[p as usize].1,
        peers: net.knows[p as usize].clone(),
        provs: net.provs[p as usize].clone(),
    }
}

fn random_start(rng: &mut Rng, h: &XHeader, q: u64, t: u64) -> XEvent {
    let n = h.dists.len() as u64;
    let qtag = rng.below(3);
    let qn = rng.range(1, 4);
    let mut peers: Vec<u64> = if is_lookup(t) {
        // seeds: the routing table never holds the local peer
        (0..n).filter(|p| *p != h.local && rng.chance(50)).collect()
    } else {
        (0..n).filter(|_| rng.chance(55)).collect()
    };
    if !is_lookup(t) && rng.chance(25) && !peers.is_empty() {
        // put_record_to_peers / tracking lists are the caller's: duplicates are possible
        let d = peers[rng.below(peers.len() as u64) as usize];
        peers.push(d);
    }
    for i in (1..peers.len()).rev() {
        let j = rng.below(i as u64 + 1) as usize;
        peers.swap(i, j);
    }
    let kprov = if t == 7 { (0..rng.below(3)).map(|_| (rng.below(n), random_addrs(rng))).collect() } else { vec![] };
    XEvent::Start { q, t, qtag, qn, known: rng.below(2), peers, kprov }
}

/// One random scenario: queries of all types started at random moments (ids reused after they end,
/// rarely while live), polls, resolutions in random order by every entry point, noise for live, dead and
/// unknown ids, hand-over of a finished PUT_VALUE / ADD_PROVIDER lookup to its send phase under the same id.
fn drive_random(w: &World, h: &XHeader, rng: &mut Rng, max_steps: usize) -> Option<(Vec<u64>, Vec<u64>, bool)> {
    let mut d = Driver::new(w, h)?;
    let n = h.dists.len() as u64;
    let net = random_xnet(rng, n);
    let advances: Vec<u64> = if h.timeout < NO_TIMEOUT { vec![0, 0, 0, 1, 1, 2, 3, 6] } else { vec![0] };
    // live queries: id -> (type, open requests / targets)
    let mut live: Vec<(u64, u64, Vec<u64>)> = Vec::new();
    let mut started = 0;
    let max_queries = rng.range(1, 5);
    let mut now = 0u64;
    let mut idle_polls = 0;
    for _ in 0..max_steps {
        let roll = rng.below(100);
        if (live.is_empty() || roll < 12) && started < max_queries {
            let q = if !live.is_empty() && rng.chance(8) { live[0].0 } else { rng.below(5) };
            let t = rng.pick(&[0u64, 0, 1, 1, 2, 3, 4, 4, 5, 5, 6, 7, 7]);
            let e = random_start(rng, h, q, t);
            let targets = match &e {
                XEvent::Start { peers, .. } if is_tracking(t) => {
                    let mut v = peers.clone();
                    v.sort();
                    v.dedup();
                    v
                }
                _ => vec![],
            };
            d.go(e);
            live.retain(|x| x.0 != q);
            live.push((q, t, targets));
            started += 1;
            continue;
        }
        if live.is_empty() {
            // two more polls of the empty engine, a late event, done
            d.go(XEvent::Next(now));
            d.go(XEvent::Fail(rng.below(5), rng.below(n)));
            d.go(XEvent::Next(now));
            break;
        }
        if roll < 22 {
            // noise: any entry point for any id (live, finished, never used) and any peer
            let q = rng.below(6);
            let p = rng.below(n);
            let e = match rng.below(7) {
                0 => reply(&net, q, p, rng.below(KNOWN_MESSAGE_KINDS.len() as u64)),
                1 => XEvent::Fail(q, p),
                2 => XEvent::SendOk(q, p),
                3 => XEvent::SendFail(q, p),
                4 => XEvent::PeerFail(q, p),
                _ => XEvent::PeerAct(q, p),
            };
            if let Some(x) = live.iter_mut().find(|x| x.0 == q) {
                let resolves = match &e {
                    XEvent::Resp { .. } | XEvent::Fail(..) => is_lookup(x.1),
                    XEvent::SendOk(..) | XEvent::SendFail(..) => is_tracking(x.1),
                    XEvent::PeerFail(..) => true,
                    _ => false,
                };
                if resolves {
                    x.2.retain(|y| *y != p);
                }
            }
            d.go(e);
            continue;
        }
        let open: Vec<usize> = (0..live.len()).filter(|i| !live[*i].2.is_empty()).collect();
        if roll < 60 && !open.is_empty() && idle_polls > 0 || (idle_polls > 1 && !open.is_empty()) {
            // resolve one open request / target
            let i = open[rng.below(open.len() as u64) as usize];
            let (q, t) = (live[i].0, live[i].1);
            let j = rng.below(live[i].2.len() as u64) as usize;
            let p = live[i].2.remove(j);
            let e = if is_lookup(t) {
                match rng.below(10) {
                    0..=5 => reply(&net, q, p, answer_kind(t)),
                    6 => XEvent::Fail(q, p),
                    7 => XEvent::PeerFail(q, p),
                    _ => {
                        // a message of another kind
                        let mut mk = rng.below(KNOWN_MESSAGE_KINDS.len() as u64);
                        if mk == answer_kind(t) {
                            mk = (mk + 1) % KNOWN_MESSAGE_KINDS.len() as u64;
                        }
                        reply(&net, q, p, mk)
                    }
                }
            } else {
                match rng.below(10) {
                    0..=5 => XEvent::SendOk(q, p),
                    6 | 7 => XEvent::SendFail(q, p),
                    _ => XEvent::PeerFail(q, p),
                }
            };
            d.go(e);
            idle_polls = 0;
            continue;
        }
        // poll
        now += advances[rng.below(advances.len() as u64) as usize];
        let a = d.go(XEvent::Next(now));
        match a[0] {
            0 => {
                idle_polls += 1;
                if idle_polls > 3 && open.is_empty() {
                    break; // stuck: judged by the oracle
                }
            }
            1 => {
                idle_polls = 0;
                if let Some(x) = live.iter_mut().find(|x| x.0 == a[1]) {
                    x.2.push(a[2]);
                }
                if rng.chance(20) {
                    d.go(XEvent::PeerAct(a[1], a[2]));
                }
                if rng.chance(15) {
                    let e = if rng.chance(50) { XEvent::SendOk(a[1], a[2]) } else { XEvent::SendFail(a[1], a[2]) };
                    d.go(e);
                }
            }
            8 => idle_polls = 0,
            BAD | 97 => break,
            tag => {
                // terminal: the query is gone
                idle_polls = 0;
                let q = a[1];
                let old = live.iter().find(|x| x.0 == q).map(|x| x.2.clone()).unwrap_or_default();
                live.retain(|x| x.0 != q);
                if (tag == 4 || tag == 6) && rng.chance(75) {
                    // the caller starts the send phase under the same id with the reported peers
                    let cnt = a[2] as usize;
                    let peers: Vec<u64> = a[3..3 + cnt].to_vec();
                    let (qtag, qn) = (a[3 + cnt], a[4 + cnt].max(1));
                    let t = if tag == 4 { 3 } else { 6 };
                    let mut targets = peers.clone();
                    targets.sort();
                    targets.dedup();
                    d.go(XEvent::Start { q, t, qtag, qn, known: 0, peers, kprov: vec![] });
                    live.push((q, t, targets));
                } else if let Some(p) = old.first() {
                    // a late answer for the finished query
                    d.go(reply(&net, q, *p, rng.below(KNOWN_MESSAGE_KINDS.len() as u64)));
                }
            }
        }
    }
    let late = d.s.late;
    Some((h.encode(&d.events), d.trace, late))
}

/// The dispatch matrix: every query type x every entry point (each message kind, response failure, send
/// success, send failure, peer failure, next_peer_action), applied to an open request / target of a live
/// query, then to the finished query.
fn drive_matrix(w: &World, h: &XHeader, t: u64, op: u64, qtag: u64) -> Option<(Vec<u64>, Vec<u64>)> {
    let mut d = Driver::new(w, h)?;
    let n = h.dists.len() as u64;
    let q = 3u64;
    let others: Vec<u64> = (0..n).filter(|p| *p != h.local).collect();
    let peers: Vec<u64> = others.iter().copied().take(3).collect();
    let nkinds = KNOWN_MESSAGE_KINDS.len() as u64;
    let make = |q: u64, p: u64, op: u64| -> XEvent {
        if op < nkinds {
            XEvent::Resp { q, p, mk: op, flag: 1, id: 40 + p, peers: vec![others[others.len() - 1]], provs: vec![(p, vec![1])] }
        } else {
            match op - nkinds {
                0 => XEvent::Fail(q, p),
                1 => XEvent::SendOk(q, p),
                2 => XEvent::SendFail(q, p),
                3 => XEvent::PeerFail(q, p),
                _ => XEvent::PeerAct(q, p),
            }
        }
    };
    d.go(XEvent::Start { q, t, qtag, qn: 2, known: 0, peers: peers.clone(), kprov: vec![] });
    // a second query that must not be disturbed
    d.go(XEvent::Start { q: 4, t: 6, qtag: 1, qn: 1, known: 0, peers: vec![others[0]], kprov: vec![] });
    let mut open: Vec<u64> = if is_tracking(t) { peers.clone() } else { vec![] };
    let mut done = false;
    for _ in 0..6 {
        let a = d.go(XEvent::Next(0));
        match a[0] {
            0 => break,
            1 => open.push(a[2]),
            8 => {}
            _ => {
                done = true;
                break;
            }
        }
    }
    let victim = open.first().copied().unwrap_or(peers[0]);
    d.go(make(q, victim, op));
    for _ in 0..4 {
        let a = d.go(XEvent::Next(1));
        match a[0] {
            0 => break,
            1 => open.push(a[2]),
            8 => {}
            _ => {
                done = true;
                break;
            }
        }
    }
    // resolve everything that is still open by the entry point that always works, then poll to the end
    let quiet = XNet { knows: vec![vec![]; n as usize], rec: vec![(1, 7); n as usize], provs: vec![vec![]; n as usize] };
    for round in 0..8 {
        if done {
            break;
        }
        for p in open.drain(..).collect::<Vec<_>>() {
            if is_tracking(t) {
                d.go(XEvent::SendOk(q, p));
            } else if p == victim || round > 0 {
                d.go(XEvent::PeerFail(q, p));
            } else {
                d.go(reply(&quiet, q, p, answer_kind(t)));
            }
        }
        for _ in 0..6 {
            let a = d.go(XEvent::Next(2));
            match a[0] {
                0 => break,
                1 => open.push(a[2]),
                8 => {}
                _ => {
                    done = true;
                    break;
                }
            }
        }
        if open.is_empty() {
            break;
        }
    }
    // the same entry point for the finished query, and a last poll (the bystander is still waiting)
    d.go(make(q, victim, op));
    d.go(XEvent::Next(3));
    d.go(XEvent::SendOk(4, others[0]));
    d.go(XEvent::Next(3));
    d.go(XEvent::Next(3));
    Some((h.encode(&d.events), d.trace))
}

pub fn run(w: &World, rng: &mut Rng, out: &mut Outputs, ncases: u64) {
    if !tables_in_sync() {
        // the enums of the source changed: the tie is broken until this file follows
        out.emit(&[10, 0, 0, 0, 0, 0, 0], &[0, 96]);
        eprintln!("c15: engine stream: query types / message kinds / actions of the source are not the ones the harness knows");
        return;
    }
    // the dispatch matrix
    let mut nmatrix = 0;
    let nops = KNOWN_MESSAGE_KINDS.len() as u64 + 5;
    for t in 0..KNOWN_QUERY_TYPES.len() as u64 {
        for op in 0..nops {
            for qtag in 0..KNOWN_QUORUM.len() as u64 {
                let mut r = rng.fork();
                let mut h = random_xheader(&mut r, false);
                while h.dists.len() < 5 {
                    let d = (0..POOL as u64).find(|d| !h.dists.contains(d)).unwrap();
                    h.dists.push(d);
                }
                h.k = 2;
                h.alpha = 2;
                match catch_unwind(AssertUnwindSafe(|| drive_matrix(w, &h, t, op, qtag))) {
                    Ok(Some((c, tr))) => {
                        nmatrix += 1;
                        out.emit(&c, &tr)
                    }
                    Ok(None) => {}
                    Err(_) => out.emit(&h.encode(&[]), &[PANIC_MARK]),
                }
            }
        }
    }
    // random scenarios
    let mut nrandom = 0;
    for i in 0..ncases {
        let mut r = rng.fork();
        let timed = i % 4 == 3;
        let h = random_xheader(&mut r, timed);
        for attempt in 0..4u64 {
            let mut rr = Rng(r.0 ^ attempt);
            match catch_unwind(AssertUnwindSafe(|| drive_random(w, &h, &mut rr, 160))) {
                Ok(Some((c, t, false))) => {
                    nrandom += 1;
                    out.emit(&c, &t);
                    break;
                }
                Ok(Some((_, _, true))) => continue,
                Ok(None) => break,
                Err(_) => {
                    out.emit(&h.encode(&[]), &[PANIC_MARK]);
                    break;
                }
            }
        }
    }
    eprintln!("c15: engine stream: {nmatrix} dispatch-matrix cases, {nrandom} of {ncases} random scenarios");
}

/// the two targets of the engine stream (a PeerId and a record key) hash to the same Kademlia key
pub fn targets_coincide(w: &World) -> bool {
    let a = Key::from(w.target_peer);
    let b = Key::new(RecordKey::from(w.target_peer.to_bytes()));
    w.by_peer_target.iter().all(|p| a.distance(&Key::from(*p)) == b.distance(&Key::from(*p)))
}
