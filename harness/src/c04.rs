//! C04: framed substream correspondence. The real `substream::Substream` (Stream / Sink<Bytes> /
//! send_framed) is driven over a scripted in-memory carrier. Case and trace formats: coq/C04/Glue.v.
use crate::util::*;
use bytes::Bytes;
use futures::{Sink, Stream};
use litep2p::{
    codec::ProtocolCodec,
    error::SubstreamError,
    substream::Substream,
    types::SubstreamId,
    PeerId,
};
use std::{
    collections::VecDeque,
    future::Future,
    io,
    panic::{catch_unwind, AssertUnwindSafe},
    path::Path,
    pin::Pin,
    sync::{Arc, Mutex},
    task::{Context, Poll},
};
use tokio::io::{AsyncRead, AsyncWrite, ReadBuf};

#[derive(Clone, Copy, Debug)]
pub(crate) enum Ev {
    Pending,
    Chunk(usize),
    Eof,
    /// a failure of the given kind (index into ERROR_KINDS)
    Err(usize),
}

/// The io::ErrorKind variants injected as carrier failures; the same list, in the same order, as
/// tools/gen_c04_tables.py (coq/gen/C04Tables.v: EK_PERMISSION_DENIED = 1, EK_BROKEN_PIPE = 8, EK_WRITE_ZERO = 14).
pub(crate) const ERROR_KINDS: [io::ErrorKind; 20] = [
    io::ErrorKind::NotFound,
    io::ErrorKind::PermissionDenied,
    io::ErrorKind::ConnectionRefused,
    io::ErrorKind::ConnectionReset,
    io::ErrorKind::ConnectionAborted,
    io::ErrorKind::NotConnected,
    io::ErrorKind::AddrInUse,
    io::ErrorKind::AddrNotAvailable,
    io::ErrorKind::BrokenPipe,
    io::ErrorKind::AlreadyExists,
    io::ErrorKind::WouldBlock,
    io::ErrorKind::InvalidInput,
    io::ErrorKind::InvalidData,
    io::ErrorKind::TimedOut,
    io::ErrorKind::WriteZero,
    io::ErrorKind::Interrupted,
    io::ErrorKind::Unsupported,
    io::ErrorKind::UnexpectedEof,
    io::ErrorKind::OutOfMemory,
    io::ErrorKind::Other,
];
const _: () = assert!(matches!(ERROR_KINDS[1], io::ErrorKind::PermissionDenied)
    && matches!(ERROR_KINDS[8], io::ErrorKind::BrokenPipe)
    && matches!(ERROR_KINDS[14], io::ErrorKind::WriteZero));

fn scripted_error(k: usize) -> io::Error {
    io::Error::new(ERROR_KINDS[k % ERROR_KINDS.len()], "scripted")
}

#[derive(Default)]
pub(crate) struct CarrierState {
    pub(crate) rd_wire: Vec<u8>,
    pub(crate) rd_pos: usize,
    pub(crate) rd_script: VecDeque<Ev>,
    pub(crate) wr_script: VecDeque<Ev>,
    pub(crate) sent: Vec<u8>,
    /// the carrier completed a shutdown
    pub(crate) shut: bool,
    /// the last carrier call answered Pending, and the waker it was given is the harness's
    pub(crate) last_pending: bool,
    pub(crate) last_waker_ok: bool,
    pub(crate) harness_waker: Option<std::task::Waker>,
    /// an exhausted script lets everything through instead of answering Pending (kind 31)
    pub(crate) open_end: bool,
    /// the error kind a scripted failure reports (index into ERROR_KINDS)
    pub(crate) err_kind: usize,
}

impl CarrierState {
    fn note(&mut self, pending: bool, cx: &Context<'_>) {
        self.last_pending = pending;
        self.last_waker_ok = self.harness_waker.as_ref().map(|w| cx.waker().will_wake(w)).unwrap_or(false);
    }
}

/// Scripted carrier: every poll_read / poll_write / poll_flush call consumes one script event;
/// an exhausted script answers `Pending`.
#[derive(Clone)]
pub(crate) struct Carrier(pub(crate) Arc<Mutex<CarrierState>>);

impl AsyncRead for Carrier {
    fn poll_read(self: Pin<&mut Self>, cx: &mut Context<'_>, buf: &mut ReadBuf<'_>) -> Poll<io::Result<()>> {
        let mut s = self.0.lock().unwrap();
        let ev = s.rd_script.pop_front().or(if s.open_end { Some(Ev::Chunk(usize::MAX)) } else { None });
        s.note(matches!(ev, None | Some(Ev::Pending)), cx);
        match ev {
            None | Some(Ev::Pending) => Poll::Pending,
            Some(Ev::Eof) => Poll::Ready(Ok(())),
            Some(Ev::Err(k)) => Poll::Ready(Err(scripted_error(k))),
            Some(Ev::Chunk(n)) => {
                let avail = s.rd_wire.len() - s.rd_pos;
                let k = n.min(buf.remaining()).min(avail);
                let pos = s.rd_pos;
                buf.put_slice(&s.rd_wire[pos..pos + k]);
                s.rd_pos += k;
                Poll::Ready(Ok(()))
            }
        }
    }
}

impl AsyncWrite for Carrier {
    fn poll_write(self: Pin<&mut Self>, cx: &mut Context<'_>, buf: &[u8]) -> Poll<io::Result<usize>> {
        let mut s = self.0.lock().unwrap();
        let ev = s.wr_script.pop_front().or(if s.open_end { Some(Ev::Chunk(usize::MAX)) } else { None });
        s.note(matches!(ev, None | Some(Ev::Pending)), cx);
        match ev {
            None | Some(Ev::Pending) => Poll::Pending,
            Some(Ev::Err(k)) => Poll::Ready(Err(scripted_error(k))),
            Some(Ev::Eof) => Poll::Ready(Err(scripted_error(8))),
            Some(Ev::Chunk(n)) => {
                let k = n.min(buf.len());
                s.sent.extend_from_slice(&buf[..k]);
                Poll::Ready(Ok(k))
            }
        }
    }
    fn poll_flush(self: Pin<&mut Self>, cx: &mut Context<'_>) -> Poll<io::Result<()>> {
        let mut s = self.0.lock().unwrap();
        let ev = s.wr_script.pop_front().or(if s.open_end { Some(Ev::Chunk(usize::MAX)) } else { None });
        s.note(matches!(ev, None | Some(Ev::Pending)), cx);
        match ev {
            None | Some(Ev::Pending) => Poll::Pending,
            Some(Ev::Err(k)) => Poll::Ready(Err(scripted_error(k))),
            Some(Ev::Eof) => Poll::Ready(Err(scripted_error(8))),
            Some(Ev::Chunk(_)) => Poll::Ready(Ok(())),
        }
    }
    fn poll_shutdown(self: Pin<&mut Self>, cx: &mut Context<'_>) -> Poll<io::Result<()>> {
        let mut s = self.0.lock().unwrap();
        let ev = s.wr_script.pop_front().or(if s.open_end { Some(Ev::Chunk(usize::MAX)) } else { None });
        s.note(matches!(ev, None | Some(Ev::Pending)), cx);
        match ev {
            None | Some(Ev::Pending) => Poll::Pending,
            Some(Ev::Err(k)) => Poll::Ready(Err(scripted_error(k))),
            Some(Ev::Eof) => Poll::Ready(Err(scripted_error(8))),
            Some(Ev::Chunk(_)) => {
                s.shut = true;
                Poll::Ready(Ok(()))
            }
        }
    }
}

#[derive(Debug)]
enum Op {
    Ready,
    StartSend(u8, usize),
    Flush,
    SendFramed(u8, usize),
    /// Sink::poll_close, one poll
    PollClose,
    /// Substream::close(self), driven to completion; only as the last operation
    CloseAll,
}

struct Case {
    codec: ProtocolCodec,
    ops: Vec<Op>,
    wscript: Vec<Ev>,
    raw: Vec<(u8, usize)>,
    rscript: Vec<Ev>,
    npolls: usize,
}

pub(crate) struct Cur<'a>(pub(crate) &'a [u64], pub(crate) usize);
impl<'a> Cur<'a> {
    pub(crate) fn next(&mut self) -> Option<u64> {
        let v = *self.0.get(self.1)?;
        self.1 += 1;
        Some(v)
    }
    pub(crate) fn count(&mut self) -> Option<usize> {
        let n = self.next()?;
        if n as usize > self.0.len() - self.1 {
            return None;
        }
        Some(n as usize)
    }
}

pub(crate) const MAX_LEN: u64 = 1 << 24;

pub(crate) fn parse_script(c: &mut Cur, read: bool) -> Option<Vec<Ev>> {
    let n = c.count()?;
    let mut v = Vec::new();
    for _ in 0..n {
        v.push(match c.next()? {
            0 => Ev::Pending,
            1 => {
                let k = c.next()?;
                if k > MAX_LEN {
                    return None;
                }
                Ev::Chunk(k as usize)
            }
            2 if read => Ev::Eof,
            2 => return None,
            3 => Ev::Err(8),
            4 => {
                let k = c.next()?;
                if k as usize >= ERROR_KINDS.len() {
                    return None;
                }
                Ev::Err(k as usize)
            }
            _ => return None,
        });
    }
    Some(v)
}

fn parse_case(c: &[u64]) -> Option<Case> {
    let mut c = Cur(c, 0);
    let tag = c.next()?;
    let arg = c.next()?;
    let codec = match tag {
        0 => {
            if arg > MAX_LEN {
                return None;
            }
            ProtocolCodec::Identity(arg as usize)
        }
        1 => {
            if arg != 0 {
                return None;
            }
            ProtocolCodec::UnsignedVarint(None)
        }
        2 => ProtocolCodec::UnsignedVarint(Some(arg as usize)),
        _ => return None,
    };
    let nops = c.count()?;
    let mut ops = Vec::new();
    for _ in 0..nops {
        ops.push(match c.next()? {
            0 => Op::Ready,
            t @ (1 | 3) => {
                let b = c.next()?;
                let len = c.next()?;
                if b > 255 || len > MAX_LEN {
                    return None;
                }
                if t == 1 {
                    Op::StartSend(b as u8, len as usize)
                } else {
                    Op::SendFramed(b as u8, len as usize)
                }
            }
            2 => Op::Flush,
            4 => Op::PollClose,
            5 => Op::CloseAll,
            _ => return None,
        });
    }
    if ops.iter().rev().skip(1).any(|o| matches!(o, Op::CloseAll)) {
        return None;
    }
    let wscript = parse_script(&mut c, false)?;
    let nraw = c.count()?;
    let mut raw = Vec::new();
    for _ in 0..nraw {
        let b = c.next()?;
        let k = c.next()?;
        if b > 255 || k > MAX_LEN {
            return None;
        }
        raw.push((b as u8, k as usize));
    }
    let rscript = parse_script(&mut c, true)?;
    let npolls = c.next()?;
    if npolls > 100_000 || c.1 != c.0.len() {
        return None;
    }
    Some(Case { codec, ops, wscript, raw, rscript, npolls: npolls as usize })
}

/// Message (b, len): `len` bytes `b`, the last one (when len >= 2) replaced by `b + 1 mod 256`.
pub(crate) fn mk_msg(b: u8, len: usize) -> Bytes {
    let mut v = vec![b; len];
    if len >= 2 {
        v[len - 1] = b.wrapping_add(1);
    }
    Bytes::from(v)
}

pub(crate) fn rle(out: &mut Vec<u64>, data: &[u8]) {
    let at = out.len();
    out.push(0);
    let mut runs = 0u64;
    let mut i = 0;
    while i < data.len() {
        let mut j = i + 1;
        while j < data.len() && data[j] == data[i] {
            j += 1;
        }
        out.extend([data[i] as u64, (j - i) as u64]);
        runs += 1;
        i = j;
    }
    out[at] = runs;
}

pub(crate) fn err_code(e: &SubstreamError) -> u64 {
    match e {
        SubstreamError::IoError(io::ErrorKind::PermissionDenied) => 2,
        SubstreamError::ConnectionClosed => 3,
        SubstreamError::IoError(_) => 4,
        SubstreamError::ReadFailure(_) => 6,
        _ => 5,
    }
}

pub(crate) fn poll_code(p: Poll<Result<(), SubstreamError>>) -> u64 {
    match p {
        Poll::Pending => 0,
        Poll::Ready(Ok(())) => 1,
        Poll::Ready(Err(e)) => err_code(&e),
    }
}

pub(crate) const PANIC: u64 = 9;

fn dump_writer(sub: Option<&Substream>, car: &Carrier, sent_before: usize, wake: bool, out: &mut Vec<u64>) {
    if let Some(sub) = sub {
        let (pbytes, frames, cur, ..) = sub.verif_state();
        out.push(pbytes as u64);
        out.push(frames.len() as u64);
        out.extend(frames.iter().map(|l| *l as u64));
        out.push(cur.map(|l| l as u64 + 1).unwrap_or(0));
    }
    let s = car.0.lock().unwrap();
    out.push(s.sent.len() as u64);
    rle(out, &s.sent[sent_before.min(s.sent.len())..]);
    out.extend([s.wr_script.len() as u64, s.shut as u64, wake as u64]);
}

pub(crate) struct HarnessWake;
impl futures::task::ArcWake for HarnessWake {
    fn wake_by_ref(_: &Arc<Self>) {}
}

/// A Pending answer is legitimate only if the last carrier call answered Pending and was given
/// the caller's waker (otherwise nothing would ever wake the task).
pub(crate) fn wake_ok(car: &Carrier, pending: bool) -> bool {
    let s = car.0.lock().unwrap();
    !pending || (s.last_pending && s.last_waker_ok)
}

pub(crate) fn new_sub(car: &Carrier, codec: ProtocolCodec) -> Option<Substream> {
    catch_unwind(AssertUnwindSafe(|| {
        Substream::new_verif(PeerId::random(), SubstreamId::from(7usize), Box::new(car.clone()), codec)
    }))
    .ok()
}

fn run_case(c: &[u64]) -> Vec<u64> {
    match c.first().copied().unwrap_or(0) {
        30 => return crate::c04x::run_codec(c),
        31 => return crate::c04x::run_framed(c),
        40 => return crate::c04y::run_writer(c),
        41 => return crate::c04y::run_reader(c),
        #[cfg(feature = "extra")]
        50..=69 => return crate::c04w::run(c),
        10..=29 => return run_e2e(c),
        t if t >= 10 => return vec![0],
        _ => {}
    }
    let Some(case) = parse_case(c) else { return vec![0] };
    let car = Carrier(Arc::new(Mutex::new(CarrierState::default())));
    let waker = futures::task::waker(Arc::new(HarnessWake));
    {
        let mut s = car.0.lock().unwrap();
        s.wr_script = case.wscript.iter().copied().collect();
        s.harness_waker = Some(waker.clone());
    }
    let mut out = vec![1u64];
    let Some(sub) = new_sub(&car, case.codec) else {
        out.push(PANIC);
        return out;
    };
    let mut sub = Some(sub);
    let mut cx = Context::from_waker(&waker);

    for op in &case.ops {
        let sent_before = car.0.lock().unwrap().sent.len();
        let r = catch_unwind(AssertUnwindSafe(|| -> (Vec<u64>, bool) {
            let one = |p: Poll<Result<(), SubstreamError>>| {
                let pending = p.is_pending();
                (vec![poll_code(p)], wake_ok(&car, pending))
            };
            match op {
                Op::Ready => one(Sink::<Bytes>::poll_ready(Pin::new(sub.as_mut().unwrap()), &mut cx)),
                Op::Flush => one(Sink::<Bytes>::poll_flush(Pin::new(sub.as_mut().unwrap()), &mut cx)),
                Op::PollClose => one(Sink::<Bytes>::poll_close(Pin::new(sub.as_mut().unwrap()), &mut cx)),
                Op::StartSend(b, len) =>
                    match Sink::<Bytes>::start_send(Pin::new(sub.as_mut().unwrap()), mk_msg(*b, *len)) {
                        Ok(()) => (vec![1], true),
                        Err(e) => (vec![err_code(&e)], true),
                    },
                Op::SendFramed(b, len) => {
                    let mut fut = Box::pin(sub.as_mut().unwrap().send_framed(mk_msg(*b, *len)));
                    let mut npend = 0u64;
                    let mut wake = true;
                    loop {
                        match fut.as_mut().poll(&mut cx) {
                            Poll::Ready(Ok(())) => break (vec![1, npend], wake),
                            Poll::Ready(Err(e)) => break (vec![err_code(&e), npend], wake),
                            Poll::Pending => {
                                npend += 1;
                                wake &= wake_ok(&car, true);
                                // nothing can make progress any more: the future is dropped
                                if car.0.lock().unwrap().wr_script.is_empty() {
                                    break (vec![0, npend], wake);
                                }
                            }
                        }
                    }
                }
                Op::CloseAll => {
                    let mut fut = Box::pin(sub.take().unwrap().close());
                    let mut npend = 0u64;
                    let mut wake = true;
                    loop {
                        match fut.as_mut().poll(&mut cx) {
                            Poll::Ready(()) => break (vec![1, npend], wake),
                            Poll::Pending => {
                                npend += 1;
                                wake &= wake_ok(&car, true);
                                if car.0.lock().unwrap().wr_script.is_empty() {
                                    break (vec![0, npend], wake);
                                }
                            }
                        }
                    }
                }
            }
        }));
        match r {
            Ok((v, wake)) => {
                out.extend(v);
                dump_writer(sub.as_ref(), &car, sent_before, wake, &mut out);
            }
            Err(_) => {
                out.push(PANIC);
                return out;
            }
        }
    }

    // reader phase: what the carrier accepted, followed by the raw bytes of the case. The reader
    // state is untouched by the writer phase; after close(self) a new Substream reads.
    {
        let mut s = car.0.lock().unwrap();
        let mut wire = s.sent.clone();
        for (b, k) in &case.raw {
            wire.extend(std::iter::repeat(*b).take(*k));
        }
        s.rd_wire = wire;
        s.rd_pos = 0;
        s.rd_script = case.rscript.iter().copied().collect();
    }
    let mut sub = match sub {
        Some(s) => s,
        None => match new_sub(&car, case.codec) {
            Some(s) => s,
            None => {
                out.push(PANIC);
                return out;
            }
        },
    };
    for _ in 0..case.npolls {
        let r = catch_unwind(AssertUnwindSafe(|| Stream::poll_next(Pin::new(&mut sub), &mut cx)));
        let mut pending = false;
        match r {
            Err(_) => {
                out.push(PANIC);
                return out;
            }
            Ok(Poll::Pending) => {
                pending = true;
                out.push(0)
            }
            Ok(Poll::Ready(None)) => out.push(1),
            Ok(Poll::Ready(Some(Ok(frame)))) => {
                out.push(2);
                rle(&mut out, &frame);
            }
            Ok(Poll::Ready(Some(Err(SubstreamError::ReadFailure(_))))) => out.push(3),
            Ok(Poll::Ready(Some(Err(_)))) => out.push(4),
        }
        let wake = wake_ok(&car, pending);
        let (_, _, _, buf_len, offset, cur, pending_frames) = sub.verif_state();
        let s = car.0.lock().unwrap();
        out.extend([
            buf_len as u64,
            offset as u64,
            cur.map(|x| x as u64 + 1).unwrap_or(0),
            (s.rd_wire.len() - s.rd_pos) as u64,
            pending_frames as u64,
            s.rd_script.len() as u64,
            wake as u64,
        ]);
    }
    out
}

// ---------------------------------------------------------------- end to end over real yamux substreams

/// Case `T arg nops op* 0 0 0 0` with T = 10 + codec tag (TCP substream type) or 20 + codec tag
/// (WebSocket substream type); ops: 1 b len = SinkExt::feed, 2 = SinkExt::flush, 3 b len =
/// send_framed, 4 = SinkExt::close. A reader task drains the accepting side concurrently.
/// Trace: 2, one code per op, number of frames, RLE of each frame, final code of the reader
/// (1 = clean end of stream).
fn run_e2e(c: &[u64]) -> Vec<u64> {
    use futures::{SinkExt, StreamExt};
    use litep2p::substream::VerifYamuxPair;
    use std::time::Duration;
    let mut cur = Cur(c, 0);
    let parsed = (|| {
        let t = cur.next()?;
        let arg = cur.next()?;
        let (ws, tag) = match t {
            10..=12 => (false, t - 10),
            20..=22 => (true, t - 20),
            _ => return None,
        };
        let codec = match tag {
            0 if arg <= MAX_LEN => ProtocolCodec::Identity(arg as usize),
            1 if arg == 0 => ProtocolCodec::UnsignedVarint(None),
            2 => ProtocolCodec::UnsignedVarint(Some(arg as usize)),
            _ => return None,
        };
        let nops = cur.count()?;
        let mut ops = Vec::new();
        for _ in 0..nops {
            ops.push(match cur.next()? {
                t @ (1 | 3) => {
                    let b = cur.next()?;
                    let len = cur.next()?;
                    if b > 255 || len > MAX_LEN {
                        return None;
                    }
                    (t, b as u8, len as usize)
                }
                2 => (2, 0, 0),
                4 => (4, 0, 0),
                _ => return None,
            });
        }
        // z1 z2: filled in after the run (fill_choice), the stored values are ignored
        let z1 = cur.next()?;
        let z2 = cur.next()?;
        if z1 > 1_000_000 || z2 > 1 || cur.next()? != 0 || cur.next()? != 0 {
            return None;
        }
        if cur.1 != c.len() {
            return None;
        }
        Some((ws, codec, ops))
    })();
    let Some((ws, codec, ops)) = parsed else { return vec![0] };
    let pipe = [1024usize, 65536, 1 << 20][ops.len() % 3];
    let rt = tokio::runtime::Builder::new_current_thread().enable_all().build().unwrap();
    let limit = Duration::from_secs(20);
    rt.block_on(async move {
        let mut out = vec![2u64];
        let Some(pair) = VerifYamuxPair::new(ws, codec, pipe).await else {
            out.push(PANIC);
            return out;
        };
        let VerifYamuxPair { dialer, listener, .. } = pair;
        let mut dialer = dialer;
        // no run delivers more frames than messages were offered: a reader that has got more stops (code 6) and
        // drops its end, so that a sender which repeats bytes forever fails instead of keeping the run alive
        let max_frames = ops.iter().filter(|o| o.0 == 1 || o.0 == 3).count();
        let reader = tokio::spawn(async move {
            let mut frames: Vec<Vec<u8>> = Vec::new();
            // yamux announces a stream with its first data frame; a dialer that never writes is never seen
            let mut sub = match tokio::time::timeout(Duration::from_secs(2), listener).await {
                Ok(Ok(s)) => s,
                _ => return (frames, 8u64),
            };
            loop {
                match tokio::time::timeout(limit, sub.next()).await {
                    Ok(Some(Ok(f))) => {
                        frames.push(f.to_vec());
                        if frames.len() > max_frames {
                            return (frames, 6);
                        }
                    }
                    Ok(None) => return (frames, 1),
                    Ok(Some(Err(SubstreamError::ReadFailure(_)))) => return (frames, 3),
                    Ok(Some(Err(_))) => return (frames, 4),
                    Err(_) => return (frames, 7),
                }
            }
        });
        let mut timed_out = false;
        for (t, b, len) in ops {
            // an operation that did not end within the limit ends the writer's part: the rest is reported as 7
            if timed_out {
                out.push(7);
                continue;
            }
            let code = match t {
                1 => match tokio::time::timeout(limit, dialer.feed(mk_msg(b, len))).await {
                    Ok(Ok(())) => 1,
                    Ok(Err(e)) => err_code(&e),
                    Err(_) => 7,
                },
                2 => match tokio::time::timeout(limit, SinkExt::<Bytes>::flush(&mut dialer)).await {
                    Ok(Ok(())) => 1,
                    Ok(Err(e)) => err_code(&e),
                    Err(_) => 7,
                },
                3 => match tokio::time::timeout(limit, dialer.send_framed(mk_msg(b, len))).await {
                    Ok(Ok(())) => 1,
                    Ok(Err(e)) => err_code(&e),
                    Err(_) => 7,
                },
                _ => match tokio::time::timeout(limit, SinkExt::<Bytes>::close(&mut dialer)).await {
                    Ok(Ok(())) => 1,
                    Ok(Err(e)) => err_code(&e),
                    Err(_) => 7,
                },
            };
            timed_out = code == 7;
            out.push(code);
        }
        let (frames, fin) = reader.await.unwrap_or((Vec::new(), PANIC));
        out.push(frames.len() as u64);
        for f in &frames {
            rle(&mut out, f);
        }
        out.push(fin);
        out
    })
}

fn gen_e2e(rng: &mut Rng, thorough: bool) -> Vec<u64> {
    let ws = rng.chance(50);
    let (tag, arg) = match rng.below(3) {
        0 => (0u64, rng.pick(&[1u64, 10, 1024, 1025, 2048, 70000, 300_000])),
        1 => (1, 0),
        _ => (2, rng.pick(&[1u64, 128, 16384, 70000, 1 << 21])),
    };
    let mut c = vec![if ws { 20 } else { 10 } + tag, arg];
    let mut ops: Vec<u64> = Vec::new();
    let mut nops = 0;
    let nmsgs = rng.range(1, if thorough { 10 } else { 6 });
    let mut unflushed = false;
    for i in 0..nmsgs {
        let b = (i * 2 + rng.below(2) * 100 + 3) % 256;
        let mut len = match tag {
            0 => arg,
            1 => rng.pick(&[0u64, 1, 127, 128, 16384, 65536, 262_144, 262_145, 300_000, 1 << 20, 2_000_000]),
            _ => rng.pick(&[0u64, 1, arg / 2, arg, arg.min(262_145), arg.min(300_000)]),
        };
        if i > 0 && rng.chance(10) {
            len = match tag {
                0 => arg + 1,
                2 => arg + 1,
                _ => len,
            };
        }
        if rng.chance(55) {
            ops.extend([1, b, len]);
            unflushed = true;
            if i == 0 || rng.chance(50) {
                ops.push(2);
                nops += 1;
                unflushed = false;
            }
        } else {
            ops.extend([3, b, len]);
            unflushed = false;
        }
        nops += 1;
    }
    // callers flush before closing; often enough the close comes first: the frames that were only fed are not
    // promised to the peer (some of them may be there: the backpressure flushes of poll_ready)
    if unflushed && rng.chance(60) {
        ops.push(2);
        nops += 1;
    }
    ops.push(4);
    nops += 1;
    c.push(nops);
    c.extend(ops);
    c.extend([0, 0, 0, 0]);
    c
}

// ---------------------------------------------------------------- generator

pub(crate) fn varint_len(mut n: u64) -> u64 {
    let mut k = 1;
    while n >= 128 {
        n >>= 7;
        k += 1;
    }
    k
}

pub(crate) fn push_script(c: &mut Vec<u64>, evs: &[Ev]) {
    c.push(evs.len() as u64);
    for e in evs {
        match e {
            Ev::Pending => c.push(0),
            Ev::Chunk(n) => c.extend([1, *n as u64]),
            Ev::Eof => c.push(2),
            Ev::Err(8) => c.push(3),
            Ev::Err(k) => c.extend([4, *k as u64]),
        }
    }
}

/// A script that moves about `total` bytes in chunks drawn from a size family, with stalls.
pub(crate) fn gen_script(rng: &mut Rng, total: u64, calls_hint: u64, read: bool, faulty: bool) -> Vec<Ev> {
    let mut evs = Vec::new();
    // styles 5-7 (writer scripts only): the carrier takes a part, then stalls, then goes on — a stall follows
    // most accepts, so that it lands inside frames (length prefix included) rather than between them
    let style = if read { rng.below(5) } else { rng.below(8) };
    let big = total > 6000;
    let mut moved = 0u64;
    // enough events for the data, plus slack for flush calls / zero-length writes
    let mut budget = 0;
    while (moved < total + 8 || budget < calls_hint) && evs.len() < 700 {
        budget += 1;
        if rng.chance(if style == 4 { 30 } else { 8 }) {
            evs.push(Ev::Pending);
            continue;
        }
        if faulty && rng.chance(3) {
            evs.push(if rng.chance(50) {
                if read { Ev::Eof } else { Ev::Chunk(0) } // end of stream / carrier accepts nothing
            } else {
                // every error kind the carrier may report, PermissionDenied (what a refusal looks like) more often
                Ev::Err(if rng.chance(25) { 1 } else { rng.below(ERROR_KINDS.len() as u64) as usize })
            });
            continue;
        }
        if style >= 5 {
            let n = match style {
                5 => rng.range(1, 3),
                6 => rng.pick(&[1u64, 1, 2, 5, 60, 126, 127, 129, 1000, 16384]),
                _ => rng.range(1, total / 3 + 2),
            };
            moved += n;
            evs.push(Ev::Chunk(n as usize));
            if rng.chance(if big || style == 5 { 25 } else { 60 }) {
                evs.push(Ev::Pending);
            }
            continue;
        }
        let n = match style {
            0 if !big => rng.range(1, 3),
            1 if !big => rng.range(1, 40),
            2 => 1 << 20,
            _ => {
                if big {
                    rng.range(total / 24 + 1, total / 3 + 2)
                } else {
                    rng.pick(&[1u64, 2, 7, 10, 127, 128, 1000, 1024, 1025, 5000])
                }
            }
        };
        moved += n;
        evs.push(Ev::Chunk(n as usize));
    }
    if rng.chance(25) {
        // the carrier stalls for good somewhere inside the transfer
        let cut = rng.below(evs.len() as u64 + 1) as usize;
        evs.truncate(cut);
    }
    evs
}

fn gen_case(rng: &mut Rng, thorough: bool) -> Vec<u64> {
    // a few cases move more than BACKPRESSURE_BOUNDARY bytes in one message; the rest stay small
    // (the extracted model handles byte lists, so the total volume per case is kept below ~90 kB)
    let bigcase = rng.chance(4);
    let (tag, arg) = match rng.below(10) {
        0..=3 =>
            if bigcase {
                (0u64, rng.pick(&[70000u64, 66000, 65536]))
            } else {
                (0u64, rng.pick(&[0u64, 1, 10, 1023, 1024, 1025, 2048, 5, 300, 4000]))
            },
        4..=5 => (1, 0),
        _ => (2, rng.pick(&[0u64, 1, 127, 128, 16384, 1 << 21, 300, 70000, 20])),
    };
    let mut c = vec![tag, arg];
    let kind = rng.below(12); // 0..=4 sink, 5..=6 send_framed, 7..=10 mixed, 11 raw reader
    let kind = match kind { 0..=4 => 0, 5..=6 => 6, 7..=10 => 8, _ => 9 };
    let fits = |rng: &mut Rng, first: bool| -> u64 {
        match tag {
            0 => arg,
            1 =>
                if bigcase && first {
                    rng.pick(&[66000u64, 70000, 65536, 65534])
                } else {
                    rng.pick(&[0u64, 1, 5, 127, 128, 129, 1000, 16383, 16384, 3, 2000])
                },
            _ => {
                let m = arg;
                if bigcase && first && m >= 70000 {
                    return rng.pick(&[66000u64, 70000, 65536, 65534]);
                }
                let cands = [0u64, 1, m / 2, m.saturating_sub(1), m, 127.min(m), 128.min(m), 16384.min(m), 3.min(m)];
                rng.pick(&cands).min(16384)
            }
        }
    };
    let mut ops: Vec<u64> = Vec::new();
    let mut nops = 0u64;
    let mut total = 0u64;
    let mut calls = 4u64;
    let nmsgs = if kind == 9 {
        0
    } else if tag == 0 && arg >= 60000 {
        1
    } else {
        rng.range(1, if thorough { 12 } else { 8 })
    };
    let mut budget_bytes: u64 = if bigcase { 90_000 } else { 36_000 };
    for i in 0..nmsgs {
        let b = (i * 2 + rng.below(2) * 100 + 3) % 256;
        let mut len = fits(rng, i == 0);
        let mut bad = false;
        if rng.chance(8) {
            // a message that does not fit the codec
            bad = true;
            len = match tag {
                0 => rng.pick(&[arg + 1, arg.saturating_sub(1), 0, arg + 1000]),
                2 => rng.pick(&[arg + 1, arg + 2, arg * 2 + 1]),
                _ => len,
            };
            if tag == 0 && len == arg {
                bad = false;
            }
            if tag == 1 {
                bad = false;
            }
            len = len.min(if bigcase { 80_000 } else { 20_000 });
            if tag == 2 && len <= arg {
                bad = false;
            }
        }
        if !bad {
            if len > budget_bytes {
                len = if tag == 0 { len } else { budget_bytes.min(len) };
                if tag == 0 && len > budget_bytes {
                    break;
                }
            }
            budget_bytes = budget_bytes.saturating_sub(len);
            total += len + varint_len(len);
        }
        let framed = match kind {
            6..=7 => true,
            8 => rng.chance(40),
            _ => false,
        };
        if framed {
            ops.extend([3, b, len]);
            nops += 1;
            calls += 4;
        } else {
            if rng.chance(85) {
                ops.push(0);
                nops += 1;
            }
            ops.extend([1, b, len]);
            nops += 1;
            calls += 3;
            let nfl = match rng.below(10) {
                0..=3 => 0,
                4..=7 => 1,
                _ => rng.range(2, 4),
            };
            for _ in 0..nfl {
                ops.push(2);
                nops += 1;
                calls += 2;
            }
        }
    }
    if kind <= 5 || kind == 8 {
        // closing flushes: the writer stops polling as soon as one of them reports completion
        // (the oracle looks at what has reached the carrier by then)
        for _ in 0..rng.range(0, 4) {
            ops.push(2);
            nops += 1;
            calls += 2;
        }
    }
    if kind != 9 {
        // closing the substream, with or without a preceding flush
        match rng.below(10) {
            0..=2 => {
                for _ in 0..rng.range(1, 3) {
                    ops.push(4);
                    nops += 1;
                    calls += 3;
                }
                if rng.chance(30) {
                    ops.extend([1, 77, fits(rng, false)]);
                    ops.push(4);
                    nops += 2;
                    calls += 3;
                }
            }
            3..=4 => {
                ops.push(5);
                nops += 1;
                calls += 4;
            }
            _ => {}
        }
    }
    c.push(nops);
    c.extend(ops);
    let faulty = rng.chance(15);
    let ws = gen_script(rng, total, calls, false, faulty);
    push_script(&mut c, &ws);
    // raw bytes appended to the reader's wire
    let mut raw: Vec<(u64, u64)> = Vec::new();
    // With UnsignedVarint(None) or a huge maximum the announced length is allocated as it is
    // (memory exhaustion is outside the model): there every raw byte but a lone first length
    // byte stays below 128, so no announced length exceeds 16383.
    let bounded = tag == 2 && arg <= (1 << 21);
    if kind == 9 || rng.chance(10) {
        for _ in 0..rng.range(1, 6) {
            let fill = rng.below(128);
            match rng.below(8) {
                // unterminated / over-long length (run lengths leave at most 2 continuation bytes
                // after the 10-byte overflow reports, so no announced length exceeds 2^21)
                0 if bounded => {
                    raw.push((rng.range(128, 255), rng.pick(&[1u64, 2, 10, 11, 12, 20, 21])));
                    raw.push((rng.range(1, 127), 1));
                }
                1 if bounded => {
                    // non-minimal length
                    raw.push((rng.range(128, 255), rng.range(1, 3)));
                    raw.push((0, 1));
                }
                1 => {
                    raw.push((rng.range(128, 255), 1));
                    raw.push((0, 1));
                }
                2 if bounded => {
                    // huge length (kept below 2^28 so that a receiver that fails to reject it
                    // can still allocate it and is caught by the oracle instead of aborting)
                    raw.push((255, rng.range(2, 3)));
                    raw.push((rng.range(1, 127), 1));
                }
                3 => {
                    // two-byte length then payload
                    let lo = rng.range(128, 255);
                    let hi = rng.range(1, 3);
                    raw.push((lo, 1));
                    raw.push((hi, 1));
                    raw.push((fill, (lo - 128) + hi * 128));
                }
                4 => raw.push((0, rng.range(1, 4))),
                _ => {
                    let n = rng.range(1, 127);
                    raw.push((n, 1));
                    raw.push((fill, if rng.chance(80) { n } else { rng.below(n) }));
                }
            }
        }
    }
    let raw_total: u64 = raw.iter().map(|r| r.1).sum();
    c.push(raw.len() as u64);
    for (b, k) in &raw {
        c.extend([*b, *k]);
    }
    let rfaulty = rng.chance(8);
    let rs = gen_script(rng, total + raw_total, nmsgs * 3 + 6, true, rfaulty);
    push_script(&mut c, &rs);
    let npolls = match rng.below(4) {
        0 => rng.range(0, 6),
        _ => rs.len() as u64 / 2 + rng.range(2, 12),
    }
    .min(400);
    c.push(npolls);
    c
}

/// Systematic block, run on every tier right after the corpus: the carrier takes a strict non-empty part of a
/// queued frame, answers Pending, and later takes the rest. Every split point of every frame (length prefix
/// and payload) of small messages is visited, for both codecs, on each sending path:
///   path 0: start_send x2, poll_flush until complete      path 1: send_framed x2
///   path 2: start_send then send_framed (the queued frame goes out inside send_framed's flush)
///   path 3: start_send, Sink::poll_close, poll_flush ...   (a close in between must not disturb the queue)
/// The carrier script is `s`-byte accepts with one Pending after the j-th answer, for every j: whatever the number of
/// carrier calls an operation makes, the Pending visits every position. Then the backpressure flush of
/// poll_ready: a message above BACKPRESSURE_BOUNDARY cut at chosen points.
pub(crate) fn sys_partial_cases() -> Vec<Vec<u64>> {
    let mut out = Vec::new();
    let big = 1u64 << 20;
    let tail = |c: &mut Vec<u64>, nmsgs: u64| {
        c.push(0); // no raw bytes
        let nr = nmsgs * 3 + 6;
        c.push(nr);
        for _ in 0..nr {
            c.extend([1, big]);
        }
        c.push(nr + 2);
    };
    // (codec tag, arg, message length, accept sizes)
    let cfgs: [(u64, u64, u64, &[u64]); 5] = [
        (0, 5, 5, &[1, 2]),
        (1, 0, 3, &[1, 2]),
        (1, 0, 130, &[1, 7, 50]),   // two-byte length prefix
        (2, 300, 200, &[1, 3, 64]), // two-byte length prefix, bounded codec
        (2, 20, 1, &[1]),
    ];
    for (tag, arg, len, steps) in cfgs {
        let wire = if tag == 0 { len } else { len + varint_len(len) };
        for path in 0..4u64 {
            let ops: Vec<u64> = match path {
                0 => vec![0, 1, 11, len, 0, 1, 13, len, 2, 2, 2, 2],
                1 => vec![3, 11, len, 3, 13, len],
                2 => vec![0, 1, 11, len, 3, 13, len, 2],
                _ => vec![0, 1, 11, len, 4, 2, 2, 2],
            };
            let nops = match path { 0 => 8, 1 => 2, 2 => 4, _ => 6 };
            let nm = if path == 3 { 1 } else { 2 };
            for &s in steps {
                let nchunks = (wire * nm).div_ceil(s) + 2 * nm + 8;
                for j in 0..nchunks.min(if s == 1 { 40 } else { 24 }) {
                    let mut c = vec![tag, arg, nops];
                    c.extend(&ops);
                    c.push(nchunks + 1);
                    for i in 0..nchunks {
                        if i == j {
                            c.push(0);
                        }
                        c.extend([1, s]);
                    }
                    tail(&mut c, nm);
                    out.push(c);
                }
            }
        }
    }
    // the backpressure flush of poll_ready (and the flush after it) cut inside a frame of 66000 bytes
    for (tag, arg) in [(0u64, 66000u64), (1, 0)] {
        let pre: &[u64] = if tag == 0 { &[] } else { &[1, 2] };
        let cuts: &[u64] = if tag == 0 { &[1, 100, 464, 65999] } else { &[1, 463, 65999] };
        let mut scripts: Vec<Vec<u64>> = Vec::new();
        for &k in pre {
            scripts.push(vec![1, k, 0]); // inside the three-byte length prefix
        }
        for &k in cuts {
            let mut v = if tag == 0 { vec![] } else { vec![1, 3] };
            v.extend([1, k, 0]);
            scripts.push(v);
            // twice in the same frame
            let mut v = if tag == 0 { vec![] } else { vec![1, 3] };
            v.extend([1, k.min(400), 0, 1, 30, 0]);
            scripts.push(v);
        }
        for sc in scripts {
            // poll_ready, start_send, poll_ready (flushes: stalls inside), poll_ready, poll_flush x3
            let mut c = vec![tag, arg, 7, 0, 1, 21, 66000, 0, 0, 2, 2, 2];
            let nev = sc.iter().filter(|x| **x == 0).count() as u64 + (sc.len() as u64 - sc.iter().filter(|x| **x == 0).count() as u64) / 2;
            c.push(nev + 8);
            c.extend(&sc);
            for _ in 0..8 {
                c.extend([1, big]);
            }
            tail(&mut c, 1);
            out.push(c);
        }
    }
    out
}

/// End-to-end kinds (10-22 yamux, 60-62 QUIC): the last four numbers of the case are `z1 z2 0 0`, the environment's
/// share of the outcome, written here from the trace: z1 = frames the reader got, z2 = the accepting side saw the
/// stream. The model takes them as given and the oracle judges whether they are an outcome the code allows.
pub(crate) fn fill_choice(c: &mut [u64], t: &[u64]) {
    let kind = c.first().copied().unwrap_or(0);
    if !((10..=22).contains(&kind) || (60..=62).contains(&kind)) || c.len() < 7 {
        return;
    }
    let nops = c[2] as usize;
    let n = c.len();
    if (t.first() == Some(&2) || t.first() == Some(&11)) && t.len() >= nops + 3 {
        c[n - 4] = t[1 + nops].min(1_000_000);
        c[n - 3] = (*t.last().unwrap() != 8) as u64;
    } else {
        c[n - 4] = 0;
        c[n - 3] = 0;
    }
}

pub fn main(args: &Args) {
    let seed = args.u64("seed", 1);
    let ncases = args.u64("cases", 100);
    let thorough = args.str("tier") == Some("thorough");
    let mut out = Outputs::open(args);
    let mut rng = Rng::new(seed);

    let mut stored: Vec<Vec<u64>> = Vec::new();
    if let Some(r) = args.str("replay") {
        stored = read_cases(Path::new(r));
    } else if let Some(d) = args.str("corpus") {
        stored = read_cases(Path::new(d));
    }
    for c in stored.iter() {
        let t = catch_unwind(AssertUnwindSafe(|| run_case(c))).unwrap_or(vec![PANIC_MARK]);
        let mut c = c.clone();
        fill_choice(&mut c, &t);
        out.emit(&c, &t);
    }
    if args.str("replay").is_some() {
        return;
    }
    #[cfg(feature = "extra")]
    let systematic = args.str("extra").is_none();
    #[cfg(not(feature = "extra"))]
    let systematic = true;
    if systematic {
        for c in sys_partial_cases().into_iter().chain(crate::c04y::sys_partial_cases()) {
            let t = catch_unwind(AssertUnwindSafe(|| run_case(&c))).unwrap_or(vec![PANIC_MARK]);
            out.emit(&c, &t);
        }
    }
    for i in 0..ncases {
        let mut r = rng.fork();
        #[cfg(feature = "extra")]
        if args.str("extra").is_some() {
            let mut c = crate::c04w::gen(&mut r, thorough);
            let t = catch_unwind(AssertUnwindSafe(|| run_case(&c))).unwrap_or(vec![PANIC_MARK]);
            fill_choice(&mut c, &t);
            out.emit(&c, &t);
            continue;
        }
        let mut c = match i % 50 {
            24 | 49 => gen_e2e(&mut r, thorough),
            3 | 13 | 23 | 33 | 43 | 8 | 28 => crate::c04x::gen_codec(&mut r, thorough),
            18 | 38 => crate::c04x::gen_framed(&mut r, thorough),
            1 | 11 | 21 | 31 | 41 | 6 | 26 | 46 => crate::c04y::gen_writer(&mut r, thorough),
            16 | 36 | 9 | 29 => crate::c04y::gen_reader(&mut r, thorough),
            _ => gen_case(&mut r, thorough),
        };
        if std::env::var_os("VERIF_C04_ECHO").is_some() {
            eprintln!("about to run: {}", c.iter().map(|x| x.to_string()).collect::<Vec<_>>().join(" "));
        }
        let t = catch_unwind(AssertUnwindSafe(|| run_case(&c))).unwrap_or(vec![PANIC_MARK]);
        fill_choice(&mut c, &t);
        out.emit(&c, &t);
    }
}

#[allow(dead_code)]
fn _unused(_: &dyn Future<Output = ()>) {}
