//! C19: every decoder of remote bytes returns (no panic / abort / hang), stays within the
//! allocation bound, and inverts the library's own encoders.  Case format: coq/C19/Glue.v.
//!
//! The driver process generates byte strings and hands each one to a WORKER process (the same
//! binary with `--worker`); the worker computes the oracle dictionary, runs the real litep2p
//! decoder under `catch_unwind` with the allocation counter on, and answers with the completed
//! case and the trace.  A worker that dies (abort, stack overflow, allocation failure) or does not
//! answer within the watchdog time yields the trace ABORT_MARK / TIMEOUT_MARK and is replaced.
use crate::util::*;
use std::{
    alloc::{GlobalAlloc, Layout, System},
    io::{BufRead, BufReader, Write},
    path::Path,
    process::{Child, ChildStdin, Command, Stdio},
    sync::{
        atomic::{AtomicBool, AtomicIsize, Ordering},
        mpsc::{channel, Receiver},
    },
    time::Duration,
};

mod consume;
mod ext;
mod gen;
mod net;
mod run;
mod tasks;

pub const ABORT_MARK: u64 = 999_999_998;
pub const TIMEOUT_MARK: u64 = 999_999_997;

// ---------------------------------------------------------------- allocation counter

pub struct Counting;
static ENABLED: AtomicBool = AtomicBool::new(false);
static CUR: AtomicIsize = AtomicIsize::new(0);
static PEAK: AtomicIsize = AtomicIsize::new(0);

#[inline]
fn add(n: usize) {
    if ENABLED.load(Ordering::Relaxed) {
        let c = CUR.fetch_add(n as isize, Ordering::Relaxed) + n as isize;
        PEAK.fetch_max(c, Ordering::Relaxed);
    }
}
#[inline]
fn sub(n: usize) {
    if ENABLED.load(Ordering::Relaxed) {
        CUR.fetch_sub(n as isize, Ordering::Relaxed);
    }
}

unsafe impl GlobalAlloc for Counting {
    unsafe fn alloc(&self, l: Layout) -> *mut u8 {
        add(l.size());
        System.alloc(l)
    }
    unsafe fn alloc_zeroed(&self, l: Layout) -> *mut u8 {
        add(l.size());
        System.alloc_zeroed(l)
    }
    unsafe fn dealloc(&self, p: *mut u8, l: Layout) {
        sub(l.size());
        System.dealloc(p, l)
    }
    unsafe fn realloc(&self, p: *mut u8, l: Layout, new: usize) -> *mut u8 {
        // the old block stays alive until the copy is done
        add(new);
        let r = System.realloc(p, l, new);
        sub(l.size());
        r
    }
}

#[global_allocator]
static GLOBAL: Counting = Counting;

/// Peak number of bytes allocated (net of frees) while `f` runs. Everything `f` allocates and
/// still owns when it returns stays counted, so build the input container inside `f`.
pub fn measure<R>(f: impl FnOnce() -> R) -> (R, u64) {
    CUR.store(0, Ordering::SeqCst);
    PEAK.store(0, Ordering::SeqCst);
    ENABLED.store(true, Ordering::SeqCst);
    let r = f();
    ENABLED.store(false, Ordering::SeqCst);
    (r, PEAK.load(Ordering::SeqCst).max(0) as u64)
}

pub fn measure_off() {
    ENABLED.store(false, Ordering::SeqCst);
}

// ---------------------------------------------------------------- worker process

fn worker_main() {
    let stdin = std::io::stdin();
    let stdout = std::io::stdout();
    let mut out = stdout.lock();
    for l in stdin.lock().lines() {
        let Ok(l) = l else { break };
        let proto = parse_line(&l);
        let (case, trace) = run::run_proto(&proto);
        writeln!(out, "{} | {}", line(&case), line(&trace)).unwrap();
        out.flush().unwrap();
    }
}

struct Worker {
    child: Child,
    stdin: ChildStdin,
    rx: Receiver<String>,
}

impl Worker {
    fn spawn(exe: &Path) -> Worker {
        let mut child = Command::new(exe)
            .args(["c19", "--worker", "1"])
            .stdin(Stdio::piped())
            .stdout(Stdio::piped())
            .stderr(Stdio::null())
            .spawn()
            .expect("spawn worker");
        let stdin = child.stdin.take().unwrap();
        let stdout = child.stdout.take().unwrap();
        let (tx, rx) = channel();
        std::thread::spawn(move || {
            for l in BufReader::new(stdout).lines() {
                match l {
                    Ok(l) => {
                        if tx.send(l).is_err() {
                            break;
                        }
                    }
                    Err(_) => break,
                }
            }
        });
        Worker { child, stdin, rx }
    }
}

struct Pool {
    w: Option<Worker>,
    /// worker built with the optional `quic` and `webrtc` features (TLS certificates, WebRTC codec)
    wx: Option<Worker>,
    /// None = not tried yet, Some(None) = could not be built
    xbin: Option<Option<std::path::PathBuf>>,
    watchdog: Duration,
}

/// kinds that only the feature worker can run
fn needs_features(proto: &[u64]) -> bool {
    matches!(proto.first(), Some(18) | Some(19) | Some(25) | Some(9918))
}

/// The feature worker is a generated one-file crate (source: src/c19/xworker.rs) so that the other
/// properties' harness modules need not compile under the extra litep2p features.
fn build_feature_worker() -> Option<std::path::PathBuf> {
    let dir = Path::new(env!("CARGO_MANIFEST_DIR"));
    let manifest = std::fs::read_to_string(dir.join("Cargo.toml")).ok()?;
    // the litep2p checkout the harness itself is built against
    let dep = manifest.lines().find(|l| l.trim_start().starts_with("litep2p"))?;
    let start = dep.find("path = \"")? + 8;
    let repo = &dep[start..start + dep[start..].find('"')?];
    let root = dir.join("target-c19x");
    let krate = root.join("crate");
    std::fs::create_dir_all(krate.join("src")).ok()?;
    let toml = format!(
        "[package]\nname = \"c19x\"\nversion = \"0.1.0\"\nedition = \"2021\"\n\n[workspace]\n\n[dependencies]\n\
         litep2p = {{ path = \"{repo}\", features = [\"verif\", \"quic\", \"webrtc\"] }}\nbytes = \"1\"\n\n\
         [profile.dev]\nopt-level = 1\ndebug = 0\ndebug-assertions = true\noverflow-checks = true\n"
    );
    let write_if_changed = |p: &Path, text: &str| {
        if std::fs::read_to_string(p).map(|old| old != text).unwrap_or(true) {
            let _ = std::fs::write(p, text);
        }
    };
    write_if_changed(&krate.join("Cargo.toml"), &toml);
    write_if_changed(&krate.join("src").join("main.rs"), &std::fs::read_to_string(dir.join("src/c19/xworker.rs")).ok()?);
    if !krate.join("Cargo.lock").exists() {
        let _ = std::fs::copy(dir.join("Cargo.lock"), krate.join("Cargo.lock"));
    }
    let target = root.join("target");
    let status = Command::new("cargo")
        .args(["build", "--offline"])
        .current_dir(&krate)
        .env("CARGO_TARGET_DIR", &target)
        .env("CARGO_NET_OFFLINE", "true")
        .stdout(Stdio::null())
        .stderr(Stdio::null())
        .status()
        .ok()?;
    let bin = target.join("debug").join("c19x");
    (status.success() && bin.exists()).then_some(bin)
}

impl Pool {
    fn feature_worker_available(&mut self) -> bool {
        if self.xbin.is_none() {
            let b = build_feature_worker();
            if b.is_none() {
                eprintln!("c19: the feature worker (cargo features quic,webrtc) could not be built: kinds 18/19 are skipped");
            }
            self.xbin = Some(b);
        }
        matches!(self.xbin, Some(Some(_)))
    }

    fn exec(&mut self, proto: &[u64]) -> (Vec<u64>, Vec<u64>) {
        let featured = needs_features(proto);
        if featured && !self.feature_worker_available() {
            return (run::proto_as_case(proto), vec![0]);
        }
        let slot = if featured { &mut self.wx } else { &mut self.w };
        if slot.is_none() {
            let exe = if featured {
                self.xbin.clone().flatten().unwrap()
            } else {
                std::env::current_exe().expect("current_exe")
            };
            *slot = Some(Worker::spawn(&exe));
        }
        let w = slot.as_mut().unwrap();
        let sent = writeln!(w.stdin, "{}", line(proto)).and_then(|_| w.stdin.flush());
        let answer = if sent.is_ok() { w.rx.recv_timeout(self.watchdog) } else { Err(std::sync::mpsc::RecvTimeoutError::Disconnected) };
        match answer {
            Ok(l) => {
                let mut it = l.splitn(2, '|');
                let c = parse_line(it.next().unwrap_or(""));
                let t = parse_line(it.next().unwrap_or(""));
                (c, t)
            }
            Err(e) => {
                let mark = match e {
                    std::sync::mpsc::RecvTimeoutError::Timeout => TIMEOUT_MARK,
                    std::sync::mpsc::RecvTimeoutError::Disconnected => ABORT_MARK,
                };
                let slot = if featured { &mut self.wx } else { &mut self.w };
                if let Some(mut w) = slot.take() {
                    let _ = w.child.kill();
                    let _ = w.child.wait();
                }
                (run::proto_as_case(proto), vec![mark])
            }
        }
    }
}

pub fn main(args: &Args) {
    if args.str("worker").is_some() {
        worker_main();
        return;
    }
    let seed = args.u64("seed", 1);
    let ncases = args.u64("cases", 100);
    let thorough = args.str("tier") == Some("thorough");
    let mut out = Outputs::open(args);
    let mut pool = Pool { w: None, wx: None, xbin: None, watchdog: Duration::from_secs(if thorough { 20 } else { 10 }) };

    let mut stored: Vec<Vec<u64>> = Vec::new();
    if let Some(r) = args.str("replay") {
        stored = read_cases(Path::new(r));
    } else if let Some(d) = args.str("corpus") {
        stored = read_cases(Path::new(d));
    }
    // fail fast: once this many cases have ended in a panic, an abort or a hang the verdict is
    // settled (every one of them is a failing input); a globally broken decoder would otherwise
    // cost the watchdog time on every remaining case
    const MAX_BAD: usize = 12;
    let mut bad = 0usize;
    let is_bad = |t: &[u64]| matches!(t, [m] if *m == PANIC_MARK || *m == ABORT_MARK || *m == TIMEOUT_MARK);
    for c in stored.iter() {
        let proto = run::case_as_proto(c);
        let (c, t) = pool.exec(&proto);
        out.emit(&c, &t);
        bad += is_bad(&t) as usize;
    }
    if args.str("replay").is_some() {
        return;
    }
    for proto in gen::systematic(thorough) {
        if bad >= MAX_BAD {
            eprintln!("c19: {bad} cases panicked / aborted / hung: stopping early");
            return;
        }
        let (c, t) = pool.exec(&proto);
        out.emit(&c, &t);
        bad += is_bad(&t) as usize;
    }
    // TLS certificates and the WebRTC codec need the feature worker: thorough tier (or C19_FEATURES=1)
    let mut tls_seed: Option<Vec<u8>> = None;
    if (thorough || std::env::var_os("C19_FEATURES").is_some()) && pool.feature_worker_available() {
        let (_, t) = pool.exec(&[9918]);
        if t.len() > 1 && t[0] as usize == t.len() - 1 {
            tls_seed = Some(t[1..].iter().map(|x| *x as u8).collect());
        }
        for proto in gen::feature_systematic(tls_seed.as_deref()) {
            if bad >= MAX_BAD {
                return;
            }
            let (c, t) = pool.exec(&proto);
            out.emit(&c, &t);
            bad += is_bad(&t) as usize;
        }
    }
    let featured = pool.xbin.clone().flatten().is_some() && (thorough || std::env::var_os("C19_FEATURES").is_some());
    let mut rng = Rng::new(seed);
    for _ in 0..ncases {
        let mut r = rng.fork();
        let proto = if featured && r.chance(4) { gen::feature_random(&mut r, tls_seed.as_deref()) } else { gen::random_case(&mut r) };
        if bad >= MAX_BAD {
            eprintln!("c19: {bad} cases panicked / aborted / hung: stopping early");
            return;
        }
        let (c, t) = pool.exec(&proto);
        out.emit(&c, &t);
        bad += is_bad(&t) as usize;
    }
}
