//! C01: Noise handshake authenticates the remote peer identity. Case / trace formats: see
//! coq/C01/Glue.v.
//!
//! Four kinds of cases, all against the REAL `crypto::noise::handshake()` /
//! `TcpConnection::negotiate_connection()`:
//!   kind 1  decision: a rogue peer built directly on `snow` completes a valid Noise XX session
//!           with the victim and presents a forged (or, as control, valid) libp2p identity
//!           payload; the payload bytes, the rogue's static key and real ed25519 verdicts (oracle
//!           tables) go into the case; prost's decoders are logged next to the verdict;
//!   kind 2  transcript: two real handshake() futures over in-memory pipes with a scripted man in
//!           the middle (bit flips, truncations, substitutions, splices, ...), random
//!           fragmentation of the byte stream;
//!   kind 4  dialed-peer expectation {none, right, wrong} on both roles through
//!           negotiate_connection over loopback TCP (honest peers);
//!   kind 5  the rogue peer of kind 1 over loopback TCP (multistream-select, Noise, and the yamux
//!           negotiation in transport mode) against a victim's negotiate_connection that dials
//!           {none, the rogue's identity, another identity, the key in the payload}.
//!   kind 6  two complete Litep2p nodes through the public API (TCP, WebSocket; QUIC in harness_c01x),
//!           right / wrong peer id dialed;
//!   kind 9  the real TransportManager over a scripted transport: its own comparison of the reported
//!           peer with the dialed one (behind every transport);
//!   kinds 7, 8 (harness_c01x only, tools/c01_extra_streams.sh, run by ./check in both tiers): the TLS
//!           certificate verifier of the QUIC transport on crafted extension lists, and the WebRTC
//!           Noise path (with_prologue / get_remote_peer_id) against a snow responder.
//! A case line is `kind nparams params.. observed..`; only the parameters are read back on
//! replay, everything observed is regenerated.
use crate::util::*;
use futures::io::{AsyncRead, AsyncWrite};
use litep2p::{
    config::Role,
    crypto::{
        ed25519,
        verif::{handshake, verif_parse_and_verify_peer_id, HandshakeTransport, NoiseSocket, VERIF_STATIC_KEY_DOMAIN},
        verif_noise_identity::{
            verif_decode_key_message, verif_decode_payload, VerifNoiseResolver, VERIF_NOISE_PARAMETERS,
        },
        RemotePublicKey,
    },
    error::{NegotiationError, ParseError},
    transport::tcp::verif::TcpConnection,
    PeerId,
};
use std::{
    cell::RefCell,
    collections::VecDeque,
    future::Future,
    io,
    panic::{catch_unwind, AssertUnwindSafe},
    path::Path,
    pin::Pin,
    rc::Rc,
    task::{Context, Poll},
    time::Duration,
};

// ------------------------------------------------------------------ small helpers

fn el(out: &mut Vec<u64>, b: &[u8]) {
    out.push(b.len() as u64);
    out.extend(b.iter().map(|x| *x as u64));
}

fn class(e: &NegotiationError) -> u64 {
    match e {
        NegotiationError::IoError(_) => 1,
        NegotiationError::SnowError(_) => 2,
        NegotiationError::ParseError(ParseError::ProstDecodeError(_)) => 3,
        NegotiationError::PeerIdMissing => 4,
        NegotiationError::BadSignature => 5,
        NegotiationError::ParseError(ParseError::UnknownKeyType(_)) => 6,
        NegotiationError::ParseError(ParseError::InvalidPublicKey) => 7,
        NegotiationError::PeerIdMismatch(_, _) => 8,
        NegotiationError::Timeout => 9,
        NegotiationError::MultistreamSelectError(_) => 11,
        // QUIC: the verifier's refusal travels as the reason of a TLS transport error
        #[cfg(feature = "extra")]
        NegotiationError::Quic(e) if format!("{e:?}").contains("Wrong peer ID in p2p extension") => 8,
        _ => 10,
    }
}

fn parse_class(e: &ParseError) -> u64 {
    match e {
        ParseError::ProstDecodeError(_) => 3,
        ParseError::UnknownKeyType(_) => 6,
        ParseError::InvalidPublicKey => 7,
        _ => 10,
    }
}

fn put_result(out: &mut Vec<u64>, r: &Result<PeerId, u64>) {
    match r {
        Ok(p) => {
            out.push(0);
            el(out, &p.to_bytes());
        }
        Err(c) => out.push(*c),
    }
}

fn keypair_from(rng: &mut Rng) -> ed25519::Keypair {
    let mut sk = [0u8; 32];
    for b in sk.iter_mut() {
        *b = rng.below(256) as u8;
    }
    ed25519::Keypair::from(ed25519::SecretKey::try_from_bytes(&mut sk).expect("32 bytes"))
}

fn rand_bytes(rng: &mut Rng, n: usize) -> Vec<u8> {
    (0..n).map(|_| rng.below(256) as u8).collect()
}

/// The oracle tables are computed by an INDEPENDENT implementation (libp2p-identity 0.2.14, which
/// calls ed25519-dalek itself), not through litep2p's `crypto::ed25519`: a change to
/// `PublicKey::try_from_bytes` / `PublicKey::verify` in litep2p must not move the oracle with it.
fn on_curve(k: &[u8]) -> bool {
    libp2p_identity::ed25519::PublicKey::try_from_bytes(k).is_ok()
}

fn ed_verify(pk: &[u8], msg: &[u8], sig: &[u8]) -> bool {
    match libp2p_identity::ed25519::PublicKey::try_from_bytes(pk) {
        Ok(p) => p.verify(msg, sig),
        Err(_) => false,
    }
}

// ------------------------------------------------------------------ in-memory network

#[derive(Default)]
struct Dir {
    sent: Vec<u8>,        // everything the writer wrote
    inbox: VecDeque<u8>,  // released to the reader, not yet read
    delivered: Vec<u8>,   // everything released so far
    eof: bool,            // the reader sees EOF once the inbox is empty
    frag: Vec<u64>,       // reader's chunk sizes, cycled; 0 = one Pending
    fragpos: usize,
}

/// dir[0]: side 0 (dialer) -> side 1 (listener); dir[1]: the other way
#[derive(Default)]
struct Net {
    dir: [Dir; 2],
    progress: bool,
}

impl Net {
    fn release(&mut self, d: usize, bytes: &[u8]) {
        self.dir[d].inbox.extend(bytes.iter().copied());
        self.dir[d].delivered.extend_from_slice(bytes);
        self.progress = true;
    }
}

struct End {
    side: usize,
    net: Rc<RefCell<Net>>,
}

impl AsyncRead for End {
    fn poll_read(self: Pin<&mut Self>, _cx: &mut Context<'_>, buf: &mut [u8]) -> Poll<io::Result<usize>> {
        let mut net = self.net.borrow_mut();
        let d = 1 - self.side;
        if net.dir[d].inbox.is_empty() {
            return if net.dir[d].eof { Poll::Ready(Ok(0)) } else { Poll::Pending };
        }
        let mut chunk = usize::MAX;
        if !net.dir[d].frag.is_empty() {
            let i = net.dir[d].fragpos % net.dir[d].frag.len();
            net.dir[d].fragpos += 1;
            let c = net.dir[d].frag[i];
            if c == 0 {
                net.progress = true;
                return Poll::Pending;
            }
            chunk = c as usize;
        }
        let n = buf.len().min(net.dir[d].inbox.len()).min(chunk);
        for b in buf.iter_mut().take(n) {
            *b = net.dir[d].inbox.pop_front().unwrap();
        }
        net.progress = true;
        Poll::Ready(Ok(n))
    }
}

impl AsyncWrite for End {
    fn poll_write(self: Pin<&mut Self>, _cx: &mut Context<'_>, buf: &[u8]) -> Poll<io::Result<usize>> {
        let mut net = self.net.borrow_mut();
        let d = self.side;
        net.dir[d].sent.extend_from_slice(buf);
        net.progress = true;
        Poll::Ready(Ok(buf.len()))
    }
    fn poll_flush(self: Pin<&mut Self>, _cx: &mut Context<'_>) -> Poll<io::Result<()>> {
        Poll::Ready(Ok(()))
    }
    fn poll_close(self: Pin<&mut Self>, _cx: &mut Context<'_>) -> Poll<io::Result<()>> {
        Poll::Ready(Ok(()))
    }
}

type HsResult = Result<(NoiseSocket<End>, PeerId), NegotiationError>;
type HsFuture<'a> = Pin<Box<dyn Future<Output = HsResult> + 'a>>;

/// Poll the given handshake futures and the middle box `step` in turns until all futures are
/// done. When a round moves nothing, both directions are closed (readers then see EOF); a future
/// still pending after that is reported as `None`.
fn drive<'a>(
    rt: &tokio::runtime::Runtime,
    net: &Rc<RefCell<Net>>,
    mut futs: Vec<Option<HsFuture<'a>>>,
    mut step: impl FnMut(&mut Net, &[bool]),
) -> Vec<Option<HsResult>> {
    let mut results: Vec<Option<HsResult>> = futs.iter().map(|_| None).collect();
    let mut done: Vec<bool> = futs.iter().map(|f| f.is_none()).collect();
    rt.block_on(std::future::poll_fn(|cx| {
        let mut closed = false;
        let mut rounds = 0u64;
        loop {
            rounds += 1;
            net.borrow_mut().progress = false;
            for i in 0..futs.len() {
                if let Some(f) = futs[i].as_mut() {
                    if let Poll::Ready(r) = f.as_mut().poll(cx) {
                        results[i] = Some(r);
                        futs[i] = None;
                        done[i] = true;
                        net.borrow_mut().progress = true;
                    }
                }
            }
            step(&mut net.borrow_mut(), &done);
            if futs.iter().all(|f| f.is_none()) {
                break;
            }
            if !net.borrow().progress || rounds > 2_000_000 {
                if closed {
                    break;
                }
                closed = true;
                let mut n = net.borrow_mut();
                n.dir[0].eof = true;
                n.dir[1].eof = true;
            }
        }
        Poll::Ready(())
    }));
    results
}

fn outcome(r: &Option<HsResult>) -> Result<PeerId, u64> {
    match r {
        None => Err(9),
        Some(Ok((_, p))) => Ok(*p),
        Some(Err(e)) => Err(class(e)),
    }
}

fn frag_script(rng: &mut Rng, frag: u64) -> Vec<u64> {
    if frag == 0 {
        return Vec::new();
    }
    (0..32).map(|_| if rng.chance(12) { 0 } else { rng.range(1, frag) }).collect()
}

const T: Duration = Duration::from_secs(30);

/// next complete length-prefixed frame of `sent` at `*pos`
fn next_frame(sent: &[u8], pos: &mut usize) -> Option<Vec<u8>> {
    if sent.len() < *pos + 2 {
        return None;
    }
    let n = ((sent[*pos] as usize) << 8) | sent[*pos + 1] as usize;
    if sent.len() < *pos + 2 + n {
        return None;
    }
    let f = sent[*pos..*pos + 2 + n].to_vec();
    *pos += 2 + n;
    Some(f)
}

fn framed(body: &[u8]) -> Vec<u8> {
    let mut v = (body.len() as u16).to_be_bytes().to_vec();
    v.extend_from_slice(body);
    v
}

// ------------------------------------------------------------------ kind 2: man in the middle

struct Session {
    results: Vec<Option<HsResult>>,
    frames: [Vec<u8>; 3], // as sent: message 1, 2, 3 (empty = never sent)
    delivered: [Vec<u8>; 2],
    early_written: Vec<u8>,   // what the dialer's application wrote right after its handshake
    early_delivered: Vec<u8>, // what the listener's application could read
}

#[derive(Clone, Copy)]
struct Tamper {
    kind: u64,
    midx: u64,
    pos: u64,
    mask: u64,
}

fn apply_tamper(t: &Tamper, f: &[u8], earlier: &[Vec<u8>; 3], foreign: &[Vec<u8>; 3], rng: &mut Rng) -> (Vec<u8>, bool) {
    // returns (bytes to deliver, close this direction afterwards)
    let pos = t.pos as usize;
    let body = &f[2..];
    let part = |m: &Vec<u8>, a: usize, b: usize| -> Vec<u8> {
        if m.len() >= 2 + b {
            m[2 + a..2 + b].to_vec()
        } else {
            vec![0u8; b - a]
        }
    };
    match t.kind {
        1 => {
            let mut g = f.to_vec();
            if pos < g.len() {
                g[pos] ^= t.mask as u8;
            }
            (g, false)
        }
        2 => (f[..pos.min(f.len())].to_vec(), true),
        3 => (framed(&body[..pos.min(body.len())]), false),
        4 => (foreign[(t.midx - 1) as usize].clone(), false),
        5 => {
            let mut b = body.to_vec();
            let put = |b: &mut Vec<u8>, at: usize, src: Vec<u8>| {
                if b.len() >= at + src.len() {
                    b[at..at + src.len()].copy_from_slice(&src);
                }
            };
            match (t.midx, pos) {
                (2, 0) => put(&mut b, 0, part(&earlier[0], 0, 32)),
                (3, 1) => put(&mut b, 0, part(&earlier[1], 32, 80)),
                (3, 2) => b = earlier[1].get(34..).map(|x| x.to_vec()).unwrap_or_default(),
                (2, 3) => put(&mut b, 0, part(&foreign[1], 0, 32)),
                (2, 4) => put(&mut b, 32, part(&foreign[1], 32, 80)),
                (2, 5) => {
                    b.truncate(80);
                    b.extend(foreign[1].get(82..).unwrap_or(&[]));
                }
                (3, 6) => put(&mut b, 0, part(&foreign[2], 0, 48)),
                (3, 7) => {
                    b.truncate(48);
                    b.extend(foreign[2].get(50..).unwrap_or(&[]));
                }
                (1, 8) => put(&mut b, 0, part(&foreign[0], 0, 32)),
                (2, 9) => {
                    // the two ciphertexts of message 2 swapped (lengths differ: re-split)
                    let cs = b[32..80].to_vec();
                    let cp = b[80..].to_vec();
                    b.truncate(32);
                    b.extend(cp);
                    b.extend(cs);
                }
                _ => {}
            }
            (framed(&b), false)
        }
        6 => {
            let mut b = body.to_vec();
            b.extend(std::iter::repeat(t.mask as u8).take(pos.min(60_000)));
            (framed(&b), false)
        }
        7 => (Vec::new(), false),
        8 => {
            let mut g = f.to_vec();
            g.extend_from_slice(f);
            (g, false)
        }
        9 => {
            let mut g = f.to_vec();
            g.extend(std::iter::repeat(t.mask as u8).take(pos.min(60_000)));
            (g, false)
        }
        10 => (framed(&rand_bytes(rng, body.len())), false),
        11 => {
            let mut b = body.to_vec();
            b.insert(pos.min(b.len()), t.mask as u8);
            (framed(&b), false)
        }
        12 => {
            let mut g = f.to_vec();
            g[0] = (t.pos >> 8) as u8;
            g[1] = t.pos as u8;
            (g, false)
        }
        _ => (f.to_vec(), false),
    }
}

fn run_session(
    rt: &tokio::runtime::Runtime,
    kd: &ed25519::Keypair,
    kl: &ed25519::Keypair,
    tamper: Tamper,
    frag: u64,
    foreign: &[Vec<u8>; 3],
    rng: &mut Rng,
    early: usize,
) -> Session {
    use futures::{AsyncReadExt, AsyncWriteExt};
    let net = Rc::new(RefCell::new(Net::default()));
    let early_data: Vec<u8> = (0..early).map(|i| (i * 7 + 3) as u8).collect();
    let written: Rc<RefCell<Vec<u8>>> = Default::default();
    let got: Rc<RefCell<Vec<u8>>> = Default::default();
    net.borrow_mut().dir[0].frag = frag_script(rng, frag);
    net.borrow_mut().dir[1].frag = frag_script(rng, frag);
    let e0 = End { side: 0, net: net.clone() };
    let e1 = End { side: 1, net: net.clone() };
    // the dialer's application writes as soon as handshake() has returned (message 3 and the
    // transport frames then reach the listener in one piece); the listener's application reads
    // whatever its socket delivers
    let (w2, g2, ed) = (written.clone(), got.clone(), early_data.clone());
    let fut_d: HsFuture = Box::pin(async move {
        let mut r = handshake(e0, kd, Role::Dialer, 5, 2, T, HandshakeTransport::Tcp).await;
        if let (Ok((sock, _)), false) = (&mut r, ed.is_empty()) {
            if sock.write_all(&ed).await.is_ok() && sock.flush().await.is_ok() {
                *w2.borrow_mut() = ed.clone();
            }
        }
        r
    });
    let fut_l: HsFuture = Box::pin(async move {
        let mut r = handshake(e1, kl, Role::Listener, 5, 2, T, HandshakeTransport::Tcp).await;
        if let (Ok((sock, _)), true) = (&mut r, early > 0) {
            let mut buf = vec![0u8; 4096];
            while g2.borrow().len() < early {
                match sock.read(&mut buf).await {
                    Ok(0) | Err(_) => break,
                    Ok(n) => g2.borrow_mut().extend_from_slice(&buf[..n]),
                }
            }
        }
        r
    });
    let futs: Vec<Option<HsFuture>> = vec![Some(fut_d), Some(fut_l)];
    let mut frames: [Vec<u8>; 3] = Default::default();
    let mut fwd = [0usize; 2];
    let mut count = [0usize; 2];
    let mut trng = rng.fork();
    let results = drive(rt, &net, futs, |n, done| {
        for d in 0..2 {
            loop {
                let sent = n.dir[d].sent.clone();
                let Some(f) = next_frame(&sent, &mut fwd[d]) else { break };
                let midx = if d == 0 { [1u64, 3][count[d].min(1)] } else { 2 };
                let first = (d == 0 && count[d] < 2) || (d == 1 && count[d] < 1);
                count[d] += 1;
                if first && frames[(midx - 1) as usize].is_empty() {
                    frames[(midx - 1) as usize] = f.clone();
                }
                if first && tamper.kind != 0 && tamper.midx == midx {
                    let (g, close) = apply_tamper(&tamper, &f, &frames, foreign, &mut trng);
                    n.release(d, &g);
                    if close {
                        n.dir[d].eof = true;
                    }
                } else {
                    n.release(d, &f);
                }
            }
            // the writer of this direction is gone: its reader sees EOF after what was released
            if done[d] && fwd[d] == n.dir[d].sent.len() && !n.dir[d].eof {
                n.dir[d].eof = true;
                n.progress = true;
            }
        }
    });
    let delivered = [net.borrow().dir[0].delivered.clone(), net.borrow().dir[1].delivered.clone()];
    let early_written = written.borrow().clone();
    let early_delivered = got.borrow().clone();
    Session { results, frames, delivered, early_written, early_delivered }
}

const NO_TAMPER: Tamper = Tamper { kind: 0, midx: 0, pos: 0, mask: 0 };

fn run_kind2(rt: &tokio::runtime::Runtime, p: &[u64]) -> Option<(Vec<u64>, Vec<u64>)> {
    if p.len() != 6 && p.len() != 7 {
        return None;
    }
    let (seed, tkind, midx, pos, mask, frag) = (p[0], p[1], p[2], p[3], p[4], p[5]);
    let early = p.get(6).copied().unwrap_or(0);
    if tkind > 12 || (tkind != 0 && !(1..=3).contains(&midx)) || pos > 70_000 || mask > 255 || frag > 70_000 {
        return None;
    }
    // early data only with tampering that leaves nothing behind the damaged frame
    if early > 200_000 || (early > 0 && [6, 8, 9].contains(&tkind)) {
        return None;
    }
    let mut rng = Rng::new(seed ^ 0xC01_0002);
    let kd = keypair_from(&mut rng);
    let kl = keypair_from(&mut rng);
    let mut foreign: [Vec<u8>; 3] = Default::default();
    if tkind == 4 || tkind == 5 {
        let fd = keypair_from(&mut rng);
        let fl = keypair_from(&mut rng);
        let s = run_session(rt, &fd, &fl, NO_TAMPER, 0, &foreign, &mut rng, 0);
        foreign = s.frames;
    }
    let s = run_session(rt, &kd, &kl, Tamper { kind: tkind, midx, pos, mask }, frag, &foreign, &mut rng, early as usize);
    let mut case = vec![2, p.len() as u64];
    case.extend_from_slice(p);
    el(&mut case, &kd.public().to_bytes());
    el(&mut case, &kl.public().to_bytes());
    for f in s.frames.iter() {
        el(&mut case, f);
    }
    el(&mut case, &s.delivered[0]);
    el(&mut case, &s.delivered[1]);
    el(&mut case, &s.early_written);
    let mut trace = vec![2, !s.frames[1].is_empty() as u64, !s.frames[2].is_empty() as u64];
    put_result(&mut trace, &outcome(&s.results[0]));
    put_result(&mut trace, &outcome(&s.results[1]));
    el(&mut trace, &s.early_delivered);
    Some((case, trace))
}

// ------------------------------------------------------------------ kind 1: rogue peer on snow

fn varint(mut v: u64) -> Vec<u8> {
    let mut out = Vec::new();
    loop {
        let b = (v & 0x7f) as u8;
        v >>= 7;
        if v == 0 {
            out.push(b);
            return out;
        }
        out.push(b | 0x80);
    }
}

/// non-minimal varint: `pad` extra continuation groups of zero
fn varint_pad(v: u64, pad: usize) -> Vec<u8> {
    let mut out = varint(v);
    if pad > 0 {
        let l = out.len();
        out[l - 1] |= 0x80;
        for _ in 1..pad {
            out.push(0x80);
        }
        out.push(0);
    }
    out
}

fn field_key(tag: u64, wt: u64) -> Vec<u8> {
    varint((tag << 3) | wt)
}

fn ld(tag: u64, data: &[u8]) -> Vec<u8> {
    let mut v = field_key(tag, 2);
    v.extend(varint(data.len() as u64));
    v.extend_from_slice(data);
    v
}

fn key_blob(ty: u64, data: &[u8]) -> Vec<u8> {
    let mut v = field_key(1, 0);
    v.extend(varint(ty));
    v.extend(ld(2, data));
    v
}

fn payload_of(key: Option<&[u8]>, sig: Option<&[u8]>) -> Vec<u8> {
    let mut v = Vec::new();
    if let Some(k) = key {
        v.extend(ld(1, k));
    }
    if let Some(s) = sig {
        v.extend(ld(2, s));
    }
    v
}

/// a random unknown field (tags other than `avoid`), any wire type, groups nested up to `depth`
fn unknown_field(rng: &mut Rng, avoid: &[u64], depth: u64) -> Vec<u8> {
    let tag = loop {
        let t = match rng.below(4) {
            0 => rng.range(1, 15),
            1 => rng.range(16, 2047),
            2 => rng.range(1, (1 << 29) - 1),
            _ => rng.range(3, 9),
        };
        if !avoid.contains(&t) {
            break t;
        }
    };
    match rng.below(if depth > 0 { 5 } else { 4 }) {
        0 => {
            let mut v = field_key(tag, 0);
            let x = if rng.chance(50) { rng.below(300) } else { rng.next() };
            v.extend(varint_pad(x, if rng.chance(20) { rng.range(1, 3) as usize } else { 0 }));
            v
        }
        1 => {
            let mut v = field_key(tag, 1);
            v.extend(rand_bytes(rng, 8));
            v
        }
        2 => {
            let n = rng.below(40) as usize;
            ld(tag, &rand_bytes(rng, n))
        }
        3 => {
            let mut v = field_key(tag, 5);
            v.extend(rand_bytes(rng, 4));
            v
        }
        _ => {
            let mut v = field_key(tag, 3);
            for _ in 0..rng.below(3) {
                v.extend(unknown_field(rng, &[], depth - 1));
            }
            v.extend(field_key(tag, 4));
            v
        }
    }
}

fn nested_groups(tag: u64, depth: u64, inner: &[u8]) -> Vec<u8> {
    let mut v = Vec::new();
    for _ in 0..depth {
        v.extend(field_key(tag, 3));
    }
    v.extend_from_slice(inner);
    for _ in 0..depth {
        v.extend(field_key(tag, 4));
    }
    v
}

const SMALL_ORDER: [&str; 8] = [
    "0100000000000000000000000000000000000000000000000000000000000000",
    "ecffffffffffffffffffffffffffffffffffffffffffffffffffffffffffff7f",
    "0000000000000000000000000000000000000000000000000000000000000000",
    "0000000000000000000000000000000000000000000000000000000000000080",
    "26e8958fc2b227b045c3f489f2ef98f0d5dfac05d3c63339b13802886d53fc05",
    "26e8958fc2b227b045c3f489f2ef98f0d5dfac05d3c63339b13802886d53fc85",
    "c7176a703d4dd84fba3c0b760d10670f2a2053fa2c39ccc64ec7fd7792ac037a",
    "c7176a703d4dd84fba3c0b760d10670f2a2053fa2c39ccc64ec7fd7792ac03fa",
];

fn unhex(s: &str) -> Vec<u8> {
    (0..s.len() / 2).map(|i| u8::from_str_radix(&s[2 * i..2 * i + 2], 16).unwrap()).collect()
}

struct Forge<'a> {
    rs: &'a [u8],               // the rogue's static DH public key
    a: &'a ed25519::Keypair,    // the rogue's identity
    b: &'a ed25519::Keypair,    // another identity
    victim_pk: [u8; 32],
    rogue_is_listener: bool,
    replay: Vec<u8>,            // an honest payload of another session
}

/// the forged payload and the byte strings the oracle tables should cover (keys, signatures)
fn forge(fkind: u64, variant: u64, rng: &mut Rng, x: &Forge) -> (Vec<u8>, Vec<Vec<u8>>, Vec<Vec<u8>>) {
    let dom = VERIF_STATIC_KEY_DOMAIN.as_bytes();
    let good_msg = [dom, x.rs].concat();
    let pk_a = x.a.public().to_bytes().to_vec();
    let good_sig = x.a.sign(&good_msg);
    let good_blob = key_blob(1, &pk_a);
    let mut keys = vec![pk_a.clone()];
    let mut sigs = vec![good_sig.clone()];
    let p = match fkind {
        1 => payload_of(Some(&good_blob), Some(&good_sig)),
        2 => match variant % 2 {
            0 => payload_of(None, Some(&good_sig)),
            _ => payload_of(Some(&[]), Some(&good_sig)),
        },
        3 => match variant % 2 {
            0 => payload_of(Some(&good_blob), None),
            _ => payload_of(Some(&good_blob), Some(&[])),
        },
        4 => Vec::new(),
        5 => {
            let s = x.b.sign(&good_msg);
            sigs.push(s.clone());
            keys.push(x.b.public().to_bytes().to_vec());
            payload_of(Some(&good_blob), Some(&s))
        }
        6 => {
            let other = match variant % 3 {
                0 => rand_bytes(rng, 32),
                1 => {
                    let mut o = x.rs.to_vec();
                    o[rng.below(32) as usize] ^= 1 << rng.below(8);
                    o
                }
                _ => x.victim_pk.to_vec(),
            };
            let s = x.a.sign(&[dom, &other[..]].concat());
            sigs.push(s.clone());
            payload_of(Some(&good_blob), Some(&s))
        }
        7 => {
            let s = x.a.sign(x.rs);
            sigs.push(s.clone());
            payload_of(Some(&good_blob), Some(&s))
        }
        8 => {
            let msg: Vec<u8> = match variant % 6 {
                0 => [&dom[..dom.len() - 1], x.rs].concat(),
                1 => [dom.to_ascii_uppercase().as_slice(), x.rs].concat(),
                2 => [dom, dom, x.rs].concat(),
                3 => [x.rs, dom].concat(),
                4 => dom.to_vec(),
                _ => [dom, x.rs, &[0u8][..]].concat(),
            };
            let s = x.a.sign(&msg);
            sigs.push(s.clone());
            payload_of(Some(&good_blob), Some(&s))
        }
        9 => {
            let tys: [u64; 16] = [
                0, 2, 3, 4, 5, 127, 128, (1 << 31) - 1, 1 << 31, (1 << 32) - 1, 1 << 32, (1 << 32) + 1,
                (1 << 33) + 1, (1 << 63) + 1, u64::MAX, 1,
            ];
            payload_of(Some(&key_blob(tys[(variant % 16) as usize], &pk_a)), Some(&good_sig))
        }
        10 => {
            let lens: [usize; 7] = [0, 1, 31, 33, 64, 16, 32];
            let n = lens[(variant % 7) as usize];
            let mut d = pk_a.clone();
            d.resize(n, 7);
            keys.push(d.clone());
            payload_of(Some(&key_blob(1, &d)), Some(&good_sig))
        }
        11 => {
            // unknown fields around and inside
            let mut blob = Vec::new();
            let parts = [field_key(1, 0).into_iter().chain(varint(1)).collect::<Vec<u8>>(), ld(2, &pk_a)];
            for part in parts.iter() {
                if rng.chance(50) {
                    blob.extend(unknown_field(rng, &[1, 2], 3));
                }
                blob.extend_from_slice(part);
            }
            if rng.chance(50) {
                blob.extend(unknown_field(rng, &[1, 2], 3));
            }
            let mut p = Vec::new();
            for part in [ld(1, &blob), ld(2, &good_sig)].iter() {
                if rng.chance(50) {
                    p.extend(unknown_field(rng, &[1, 2, 4], 3));
                }
                p.extend_from_slice(part);
            }
            if rng.chance(60) {
                p.extend(unknown_field(rng, &[1, 2, 4], 3));
            }
            p
        }
        12 => {
            let bad_blob = key_blob(1, &x.b.public().to_bytes());
            keys.push(x.b.public().to_bytes().to_vec());
            let bad_sig = x.b.sign(&good_msg);
            sigs.push(bad_sig.clone());
            match variant % 8 {
                0 => [ld(2, &good_sig), ld(1, &good_blob)].concat(),
                1 => {
                    let blob = [ld(2, &pk_a), field_key(1, 0), varint(1)].concat();
                    payload_of(Some(&blob), Some(&good_sig))
                }
                2 => [ld(1, &bad_blob), ld(1, &good_blob), ld(2, &good_sig)].concat(),
                3 => [ld(1, &good_blob), ld(2, &good_sig), ld(1, &bad_blob)].concat(),
                4 => [ld(1, &good_blob), ld(2, &bad_sig), ld(2, &good_sig)].concat(),
                5 => [ld(2, &good_sig), ld(1, &good_blob), ld(2, &bad_sig)].concat(),
                6 => {
                    let blob = [field_key(1, 0), varint(0), ld(2, &x.b.public().to_bytes()), field_key(1, 0), varint(1), ld(2, &pk_a)].concat();
                    payload_of(Some(&blob), Some(&good_sig))
                }
                _ => {
                    let blob = [field_key(1, 0), varint(1), ld(2, &pk_a), field_key(1, 0), varint(2)].concat();
                    payload_of(Some(&blob), Some(&good_sig))
                }
            }
        }
        13 => {
            let pad = |rng: &mut Rng| if rng.chance(60) { rng.range(1, 9) as usize } else { 0 };
            let mut blob = varint_pad(8, pad(rng));
            blob.extend(varint_pad(1, pad(rng)));
            blob.extend(varint_pad(18, pad(rng)));
            blob.extend(varint_pad(32, pad(rng)));
            blob.extend(&pk_a);
            let mut p = varint_pad(10, pad(rng));
            p.extend(varint_pad(blob.len() as u64, pad(rng)));
            p.extend(&blob);
            p.extend(varint_pad(18, pad(rng)));
            p.extend(varint_pad(64, pad(rng)));
            p.extend(&good_sig);
            p
        }
        14 => {
            let muxer = ld(2, b"/yamux/1.0.0");
            let ext: Vec<u8> = match variant % 10 {
                0 => [ld(1, &rand_bytes(rng, 32)), muxer.clone()].concat(),
                1 => ld(2, &[0xff, 0xfe]),
                2 => ld(2, &[0xc3]),
                3 => ld(2, "h\u{e9}llo \u{20ac} \u{1f600}".as_bytes()),
                4 => ld(2, &[0xed, 0xa0, 0x80]),
                5 => ld(2, &[0xf4, 0x90, 0x80, 0x80]),
                6 => [muxer.clone(), unknown_field(rng, &[1, 2], 3)].concat(),
                7 => [field_key(2, 0), varint(5)].concat(),
                8 => ld(2, &[0xc0, 0xaf]),
                _ => ld(2, &[0xe0, 0x9f, 0xbf]),
            };
            let mut p = payload_of(Some(&good_blob), Some(&good_sig));
            match variant % 13 {
                10 => {
                    // the nested message claims fewer bytes than its last field uses (overrun)
                    p.extend(field_key(4, 2));
                    p.extend(varint(muxer.len() as u64 - 3));
                    p.extend(&muxer);
                }
                11 => {
                    p.extend(field_key(4, 0));
                    p.extend(varint(3));
                }
                12 => {
                    p = [ld(4, &ext), payload_of(Some(&good_blob), Some(&good_sig)), ld(4, &muxer)].concat();
                }
                _ => p.extend(ld(4, &ext)),
            }
            p
        }
        15 => {
            let mut p = payload_of(Some(&good_blob), Some(&good_sig));
            match variant % 4 {
                0 => p.truncate(rng.below(p.len() as u64) as usize),
                1 => {
                    let i = rng.below(p.len() as u64) as usize;
                    p[i] ^= 1 << rng.below(8);
                }
                2 => {
                    let i = rng.below(8.min(p.len() as u64)) as usize;
                    p[i] = rng.below(256) as u8;
                }
                _ => {
                    let n = rng.below(80) as usize;
                    p = rand_bytes(rng, n);
                }
            }
            p
        }
        16 => {
            let k = unhex(SMALL_ORDER[(variant % 8) as usize]);
            let mut s = unhex(SMALL_ORDER[0]);
            s.extend([0u8; 32]);
            keys.push(k.clone());
            sigs.push(s.clone());
            payload_of(Some(&key_blob(1, &k)), Some(&s))
        }
        17 => {
            let k = loop {
                let k = rand_bytes(rng, 32);
                if !on_curve(&k) {
                    break k;
                }
            };
            keys.push(k.clone());
            payload_of(Some(&key_blob(1, &k)), Some(&good_sig))
        }
        18 => {
            let mut s = good_sig.clone();
            match variant % 5 {
                0 => s.truncate(63),
                1 => s.push(0),
                2 => s = vec![0u8; 64],
                3 => {
                    // S + L (non-canonical scalar)
                    let l: [u8; 32] = [
                        0xed, 0xd3, 0xf5, 0x5c, 0x1a, 0x63, 0x12, 0x58, 0xd6, 0x9c, 0xf7, 0xa2, 0xde, 0xf9, 0xde, 0x14, 0, 0,
                        0, 0, 0, 0, 0, 0, 0, 0, 0, 0, 0, 0, 0, 0x10,
                    ];
                    let mut carry = 0u16;
                    for i in 0..32 {
                        let v = s[32 + i] as u16 + l[i] as u16 + carry;
                        s[32 + i] = v as u8;
                        carry = v >> 8;
                    }
                }
                _ => {
                    let i = rng.below(64) as usize;
                    s[i] ^= 1 << rng.below(8);
                }
            }
            sigs.push(s.clone());
            payload_of(Some(&good_blob), Some(&s))
        }
        19 => {
            let depth = 96 + variant % 8;
            let inner = if variant % 3 == 0 { [field_key(9, 0), varint(1)].concat() } else { Vec::new() };
            let mut p = payload_of(Some(&good_blob), Some(&good_sig));
            match (variant / 8) % 3 {
                0 => p.extend(nested_groups(7, depth, &inner)),
                1 => p.extend(ld(4, &nested_groups(7, depth, &inner))),
                _ => {
                    let blob = [good_blob.clone(), nested_groups(7, depth, &inner)].concat();
                    p = payload_of(Some(&blob), Some(&good_sig));
                }
            }
            p
        }
        20 => {
            keys.push(x.victim_pk.to_vec());
            payload_of(Some(&key_blob(1, &x.victim_pk)), Some(&good_sig))
        }
        21 => x.replay.clone(),
        23 => {
            // a valid identity padded with one unknown field to the largest Noise message
            // (65535 bytes: message 2 = 32 + 48 + payload + 16, message 3 = 48 + payload + 16),
            // one byte less, and a few kB less
            let room = if x.rogue_is_listener { 65_535 - 32 - 48 - 16 } else { 65_535 - 48 - 16 };
            let target = room - [0usize, 1, 2, 1000, 30_000][(variant % 5) as usize];
            let base = payload_of(Some(&good_blob), Some(&good_sig));
            let mut pad = target - base.len();
            // field 7, length-delimited: 1 byte key + 3 bytes length
            pad -= 4;
            let mut p = if variant % 2 == 0 { base.clone() } else { Vec::new() };
            p.extend(field_key(7, 2));
            p.extend(varint_pad(pad as u64, if pad < 16_384 { 1 } else { 0 }));
            p.extend(std::iter::repeat(0xaa).take(pad));
            if variant % 2 != 0 {
                p.extend(base);
            }
            p
        }
        _ => {
            // structure-aware random mixture
            let mut blob_parts: Vec<Vec<u8>> = Vec::new();
            let ty = if rng.chance(85) { 1 } else { rng.pick(&[0u64, 2, 3, 4, (1 << 32) + 1, 1 << 32]) };
            let mut t = varint_pad(8, if rng.chance(15) { 1 } else { 0 });
            t.extend(varint_pad(ty, if rng.chance(15) { rng.range(1, 4) as usize } else { 0 }));
            blob_parts.push(t);
            let klen = rng.pick(&[0usize, 31, 32, 32, 33]);
            let kdata = if rng.chance(85) { pk_a.clone() } else { rand_bytes(rng, klen) };
            keys.push(kdata.clone());
            blob_parts.push(ld(2, &kdata));
            if rng.chance(30) {
                blob_parts.push(unknown_field(rng, &[1, 2], 2));
            }
            if rng.chance(30) {
                blob_parts.swap(0, 1);
            }
            let blob = blob_parts.concat();
            let sig = if rng.chance(80) {
                good_sig.clone()
            } else {
                let s = x.a.sign(&rand_bytes(rng, 56));
                sigs.push(s.clone());
                s
            };
            let mut parts: Vec<Vec<u8>> = vec![ld(1, &blob), ld(2, &sig)];
            if rng.chance(30) {
                parts.push(unknown_field(rng, &[1, 2, 4], 2));
            }
            if rng.chance(25) {
                parts.push(ld(4, &ld(2, b"/yamux/1.0.0")));
            }
            if rng.chance(10) {
                parts.push(ld(4, &ld(2, &[0x80])));
            }
            if rng.chance(4) {
                // a large payload: one big unknown field, or thousands of small ones
                if rng.chance(50) {
                    let n = rng.range(2_000, 40_000) as usize;
                    parts.push(ld(rng.range(5, 1000), &rand_bytes(rng, n)));
                } else {
                    let mut many = Vec::new();
                    for _ in 0..rng.range(500, 4000) {
                        many.extend(unknown_field(rng, &[1, 2, 4], 1));
                    }
                    parts.push(many);
                }
            }
            for i in (1..parts.len()).rev() {
                if rng.chance(30) {
                    let j = rng.below(i as u64 + 1) as usize;
                    parts.swap(i, j);
                }
            }
            let mut p = parts.concat();
            if rng.chance(8) {
                let i = rng.below(p.len() as u64) as usize;
                p[i] ^= 1 << rng.below(8);
            }
            p
        }
    };
    (p, keys, sigs)
}

fn snow_builder<'a>() -> snow::Builder<'a> {
    snow::Builder::with_resolver(VERIF_NOISE_PARAMETERS.parse().expect("noise parameters"), Box::new(VerifNoiseResolver))
}

/// An honest session; returns what `role`'s REMOTE presented (payload, static key) and
/// `role`'s verdict.
fn honest_pair(rt: &tokio::runtime::Runtime, rng: &mut Rng, role: u64, frag: u64) -> (Vec<u8>, Vec<u8>, Result<PeerId, u64>, [u8; 32]) {
    let kd = keypair_from(rng);
    let kl = keypair_from(rng);
    let foreign: [Vec<u8>; 3] = Default::default();
    let s = run_session(rt, &kd, &kl, NO_TAMPER, frag, &foreign, rng, 0);
    let other = 1 - role as usize;
    let (pb, rs) = match &s.results[other] {
        Some(Ok((sock, _))) => (sock.verif_local_payload(), sock.verif_local_static()),
        _ => (Vec::new(), Vec::new()),
    };
    let vk = if role == 0 { kd.public().to_bytes() } else { kl.public().to_bytes() };
    (pb, rs, outcome(&s.results[role as usize]), vk)
}

const NKINDS: u64 = 24;

const MS_NOISE: &[u8] = b"\x13/multistream/1.0.0\n\x07/noise\n";
const MS_YAMUX: &[u8] = b"\x13/multistream/1.0.0\n\x0d/yamux/1.0.0\n";

async fn tcp_frame(s: &mut tokio::net::TcpStream) -> Option<Vec<u8>> {
    use tokio::io::AsyncReadExt;
    let mut l = [0u8; 2];
    s.read_exact(&mut l).await.ok()?;
    let mut b = vec![0u8; u16::from_be_bytes(l) as usize];
    s.read_exact(&mut b).await.ok()?;
    Some(b)
}

/// The rogue peer over TCP: multistream-select for /noise, the Noise XX handshake with the forged
/// payload, then (in transport mode) multistream-select for yamux, so that a victim that accepts
/// the identity returns `Ok(peer)` from `negotiate_connection`.
async fn rogue_tcp(mut s: tokio::net::TcpStream, role: u64, mut noise: snow::HandshakeState, payload: Vec<u8>) -> Option<()> {
    use tokio::io::{AsyncReadExt, AsyncWriteExt};
    let mut buf = vec![0u8; 70_000];
    let mut out = vec![0u8; 70_000];
    s.write_all(MS_NOISE).await.ok()?;
    let mut got = [0u8; 28];
    s.read_exact(&mut got).await.ok()?;
    if role == 0 {
        let f = tcp_frame(&mut s).await?;
        noise.read_message(&f, &mut buf).ok()?;
        let k = noise.write_message(&payload, &mut out).ok()?;
        s.write_all(&framed(&out[..k])).await.ok()?;
        let f = tcp_frame(&mut s).await?;
        noise.read_message(&f, &mut buf).ok()?;
    } else {
        let k = noise.write_message(&[], &mut out).ok()?;
        s.write_all(&framed(&out[..k])).await.ok()?;
        let f = tcp_frame(&mut s).await?;
        noise.read_message(&f, &mut buf).ok()?;
        let k = noise.write_message(&payload, &mut out).ok()?;
        s.write_all(&framed(&out[..k])).await.ok()?;
    }
    let mut t = noise.into_transport_mode().ok()?;
    let k = t.write_message(MS_YAMUX, &mut out).ok()?;
    s.write_all(&framed(&out[..k])).await.ok()?;
    let mut total = 0usize;
    while total < MS_YAMUX.len() {
        let f = tcp_frame(&mut s).await?;
        total += t.read_message(&f, &mut buf).ok()?;
    }
    // stay until the victim hangs up
    let _ = s.read(&mut buf).await;
    Some(())
}

fn id_of_key_bytes(k: &[u8]) -> Option<PeerId> {
    let pk = ed25519::PublicKey::try_from_bytes(k).ok()?;
    Some(PeerId::from_public_key(&litep2p::crypto::PublicKey::Ed25519(pk)))
}

fn run_kind1(rt: &tokio::runtime::Runtime, p: &[u64]) -> Option<(Vec<u64>, Vec<u64>)> {
    if p.len() != 4 && p.len() != 5 {
        return None;
    }
    let (seed, role, fkind, variant) = (p[0], p[1], p[2], p[3]);
    let tcp: Option<u64> = p.get(4).copied();
    if role > 1 || fkind >= NKINDS || tcp.map_or(false, |d| d > 3 || fkind == 0) {
        return None;
    }
    let mut dialed: Option<PeerId> = None;
    let mut rng = Rng::new(seed ^ 0xC01_0001);
    let dom = VERIF_STATIC_KEY_DOMAIN.as_bytes();
    let (pb, rs, hs, keys, sigs): (Vec<u8>, Vec<u8>, Result<PeerId, u64>, Vec<Vec<u8>>, Vec<Vec<u8>>);
    if fkind == 0 {
        let (a, b, c, _) = honest_pair(rt, &mut rng, role, if variant % 2 == 0 { 0 } else { 1 + variant % 7 });
        pb = a;
        rs = b;
        hs = c;
        keys = Vec::new();
        sigs = Vec::new();
    } else {
        let victim = keypair_from(&mut rng);
        let ka = keypair_from(&mut rng);
        let kb = keypair_from(&mut rng);
        let replay = if fkind == 21 { honest_pair(rt, &mut rng, variant % 2, 0).0 } else { Vec::new() };
        let builder = snow_builder();
        let kp = builder.generate_keypair().ok()?;
        let x = Forge { rs: &kp.public, a: &ka, b: &kb, victim_pk: victim.public().to_bytes(), rogue_is_listener: role == 0, replay };
        let (payload, ks, ss) = forge(fkind, variant, &mut rng, &x);
        if payload.len() > 65_471 {
            return None;
        }
        if let Some(dmode) = tcp {
            dialed = match dmode {
                0 => None,
                1 => id_of_key_bytes(&ka.public().to_bytes()),
                2 => id_of_key_bytes(&kb.public().to_bytes()),
                _ => ks.last().and_then(|k| id_of_key_bytes(k)).or_else(|| id_of_key_bytes(&ka.public().to_bytes())),
            };
            let noise = if role == 0 {
                builder.local_private_key(&kp.private).build_responder().ok()?
            } else {
                builder.local_private_key(&kp.private).build_initiator().ok()?
            };
            let vrole = if role == 0 { Role::Dialer } else { Role::Listener };
            let res = rt.block_on(async {
                let listener = tokio::net::TcpListener::bind("127.0.0.1:0").await.ok()?;
                let addr = listener.local_addr().ok()?;
                let (a, b) = tokio::join!(tokio::net::TcpStream::connect(addr), listener.accept());
                let (a, b) = (a.ok()?, b.ok()?.0);
                // the TCP dialer end goes to whoever plays the Noise dialer
                let (vs, rs_) = if role == 0 { (a, b) } else { (b, a) };
                let (v, _) = tokio::join!(
                    TcpConnection::verif_negotiate_connection(vs, dialed, victim.clone(), vrole, Duration::from_secs(10)),
                    rogue_tcp(rs_, role, noise, payload.clone())
                );
                Some(v)
            })?;
            let mut case = vec![5, 5];
            case.extend_from_slice(p);
            let mut trace = vec![5];
            put_result(&mut trace, &res.map_err(|e| class(&e)));
            trace.push(0);
            return Some(finish_case(case, trace, &payload, &kp.public, dialed, ks, ss, true));
        }
        let net = Rc::new(RefCell::new(Net::default()));
        let frag = if rng.chance(50) { 0 } else { rng.range(1, 300) };
        net.borrow_mut().dir[0].frag = frag_script(&mut rng, frag);
        net.borrow_mut().dir[1].frag = frag_script(&mut rng, frag);
        let vside = role as usize; // victim dialer = side 0, victim listener = side 1
        let vend = End { side: vside, net: net.clone() };
        let vrole = if role == 0 { Role::Dialer } else { Role::Listener };
        let fut: HsFuture = Box::pin(handshake(vend, &victim, vrole, 5, 2, T, HandshakeTransport::Tcp));
        let mut noise = if role == 0 {
            builder.local_private_key(&kp.private).build_responder().ok()?
        } else {
            builder.local_private_key(&kp.private).build_initiator().ok()?
        };
        let rd = 1 - vside; // the direction the rogue writes into is read by the victim
        let mut state = 0u32;
        let mut rpos = 0usize;
        let mut buf = vec![0u8; 70_000];
        let mut out = vec![0u8; 70_000];
        let results = drive(rt, &net, vec![Some(fut)], |n, _done| {
            let sent = n.dir[vside].sent.clone();
            if role == 0 {
                // rogue listener: read message 1, answer with message 2 carrying the payload, read 3
                if state == 0 {
                    if let Some(f) = next_frame(&sent, &mut rpos) {
                        let _ = noise.read_message(&f[2..], &mut buf);
                        if let Ok(k) = noise.write_message(&payload, &mut out) {
                            n.release(rd, &framed(&out[..k]));
                        }
                        state = 1;
                    }
                } else if state == 1 {
                    if let Some(f) = next_frame(&sent, &mut rpos) {
                        let _ = noise.read_message(&f[2..], &mut buf);
                        state = 2;
                    }
                }
            } else {
                // rogue dialer: message 1, read message 2, message 3 carrying the payload
                if state == 0 {
                    if let Ok(k) = noise.write_message(&[], &mut out) {
                        n.release(rd, &framed(&out[..k]));
                    }
                    state = 1;
                } else if state == 1 {
                    if let Some(f) = next_frame(&sent, &mut rpos) {
                        let _ = noise.read_message(&f[2..], &mut buf);
                        if let Ok(k) = noise.write_message(&payload, &mut out) {
                            n.release(rd, &framed(&out[..k]));
                        }
                        state = 2;
                    }
                }
            }
        });
        pb = payload;
        rs = kp.public.clone();
        hs = outcome(&results[0]);
        keys = ks;
        sigs = ss;
    }

    // what the real decoders make of the payload (logged next to the verdicts)
    let pd = verif_decode_payload(&pb);
    let mut trace = vec![1];
    el(&mut trace, dom);
    let mut cand_keys: Vec<Vec<u8>> = keys;
    let mut cand_sigs: Vec<Vec<u8>> = sigs;
    let opt = |t: &mut Vec<u64>, o: &Option<Vec<u8>>| match o {
        None => t.push(0),
        Some(b) => {
            t.push(1);
            el(t, b);
        }
    };
    match &pd {
        None => trace.extend([0, 0, 0, 0, 99]),
        Some((key, sig)) => {
            trace.push(1);
            opt(&mut trace, key);
            opt(&mut trace, sig);
            if let Some(s) = sig {
                cand_sigs.push(s.clone());
            }
            match key {
                None => trace.extend([0, 0, 0]),
                Some(kb) => {
                    match verif_decode_key_message(kb) {
                        None => trace.push(1),
                        Some((ty, data)) => {
                            trace.push(2);
                            trace.push(ty as u32 as u64);
                            el(&mut trace, &data);
                            cand_keys.push(data);
                        }
                    }
                    match RemotePublicKey::from_protobuf_encoding(kb) {
                        Ok(RemotePublicKey::Ed25519(pk)) => {
                            trace.extend([1, 0]);
                            el(&mut trace, &pk.to_bytes());
                            cand_keys.push(pk.to_bytes().to_vec());
                        }
                        Err(e) => trace.extend([1, parse_class(&e)]),
                        // only when the harness is built with its optional `rsa` feature (C18 aux stream)
                        #[cfg(feature = "rsa")]
                        Ok(RemotePublicKey::Rsa(_)) => trace.extend([1, 99]),
                    }
                    // the reference: libp2p-identity 0.2.14 on the same key blob
                    match libp2p_identity::PublicKey::try_decode_protobuf(kb) {
                        Ok(pk) => match pk.clone().try_into_ed25519() {
                            Ok(ed) => {
                                trace.extend([1, 0]);
                                el(&mut trace, &ed.to_bytes());
                                el(&mut trace, &pk.to_peer_id().to_bytes());
                            }
                            Err(_) => trace.extend([1, 2]),
                        },
                        Err(_) => trace.extend([1, 1]),
                    }
                }
            }
            let hook = verif_parse_and_verify_peer_id(key.clone(), sig.clone(), &rs).map_err(|e| class(&e));
            put_result(&mut trace, &hook);
        }
    }
    put_result(&mut trace, &hs);
    trace.push(0); // no oracle miss on this side

    let _ = dialed;
    let mut case = vec![1, 4];
    case.extend_from_slice(p);
    Some(finish_case(case, trace, &pb, &rs, None, cand_keys, cand_sigs, false))
}

/// Append the observed part of a rogue case: payload, remote static key, (kind 5) the dialed
/// peer, and the oracle tables: real curve checks and real ed25519 verdicts for every candidate
/// key and signature, plus whatever the real decoders extract from the payload.
#[allow(clippy::too_many_arguments)]
fn finish_case(
    mut case: Vec<u64>,
    trace: Vec<u64>,
    pb: &[u8],
    rs: &[u8],
    dialed: Option<PeerId>,
    mut cand_keys: Vec<Vec<u8>>,
    mut cand_sigs: Vec<Vec<u8>>,
    with_dialed: bool,
) -> (Vec<u64>, Vec<u64>) {
    let msg = [VERIF_STATIC_KEY_DOMAIN.as_bytes(), rs].concat();
    if let Some((key, sig)) = verif_decode_payload(pb) {
        if let Some(s) = sig {
            cand_sigs.push(s);
        }
        if let Some(kb) = key {
            if let Some((_, data)) = verif_decode_key_message(&kb) {
                cand_keys.push(data);
            }
        }
    }
    cand_keys.sort();
    cand_keys.dedup();
    cand_sigs.sort();
    cand_sigs.dedup();
    let keys32: Vec<&Vec<u8>> = cand_keys.iter().filter(|k| k.len() == 32).collect();
    el(&mut case, pb);
    el(&mut case, rs);
    if with_dialed {
        match dialed {
            None => case.push(0),
            Some(id) => {
                case.push(1);
                el(&mut case, &id.to_bytes());
            }
        }
    }
    case.push(keys32.len() as u64);
    for k in keys32.iter() {
        el(&mut case, k);
        case.push(on_curve(k) as u64);
    }
    let mut entries: Vec<u64> = Vec::new();
    let mut nent = 0u64;
    for k in keys32.iter().filter(|k| on_curve(k)) {
        for s in cand_sigs.iter() {
            el(&mut entries, k);
            el(&mut entries, &msg);
            el(&mut entries, s);
            entries.push(ed_verify(k, &msg, s) as u64);
            nent += 1;
        }
    }
    case.push(nent);
    case.extend(entries);
    (case, trace)
}

// ------------------------------------------------------------------ kind 4: negotiate_connection

fn run_kind4(rt: &tokio::runtime::Runtime, p: &[u64]) -> Option<(Vec<u64>, Vec<u64>)> {
    if p.len() != 3 || p[1] > 2 || p[2] > 2 {
        return None;
    }
    let mut rng = Rng::derive(p[0] ^ 0xC01_0004);
    let kd = keypair_from(&mut rng);
    let kl = keypair_from(&mut rng);
    let other = keypair_from(&mut rng);
    let id_of = |k: &ed25519::Keypair| PeerId::from_public_key(&litep2p::crypto::PublicKey::Ed25519(k.public()));
    let expect = |mode: u64, right: &ed25519::Keypair| match mode {
        0 => None,
        1 => Some(id_of(right)),
        _ => Some(id_of(&other)),
    };
    let dial_d = expect(p[1], &kl);
    let dial_l = expect(p[2], &kd);
    let (rd, rl) = rt.block_on(async {
        let listener = tokio::net::TcpListener::bind("127.0.0.1:0").await.ok()?;
        let addr = listener.local_addr().ok()?;
        let (a, b) = tokio::join!(tokio::net::TcpStream::connect(addr), listener.accept());
        let (a, b) = (a.ok()?, b.ok()?.0);
        let t = Duration::from_secs(10);
        Some(tokio::join!(
            TcpConnection::verif_negotiate_connection(a, dial_d, kd.clone(), Role::Dialer, t),
            TcpConnection::verif_negotiate_connection(b, dial_l, kl.clone(), Role::Listener, t)
        ))
    })?;
    let mut case = vec![4, 3];
    case.extend_from_slice(p);
    el(&mut case, &kd.public().to_bytes());
    el(&mut case, &kl.public().to_bytes());
    for d in [&dial_d, &dial_l] {
        match d {
            None => case.push(0),
            Some(id) => {
                case.push(1);
                el(&mut case, &id.to_bytes());
            }
        }
    }
    let mut trace = vec![4];
    put_result(&mut trace, &rd.map_err(|e| class(&e)));
    put_result(&mut trace, &rl.map_err(|e| class(&e)));
    Some((case, trace))
}

// ------------------------------------------------------------------ kind 6: public API end to end

/// Two complete `Litep2p` nodes over TCP (transport 0) or WebSocket (1); the dialer dials the
/// listener's address with the right (1) or a wrong (2) peer id in it. Observed: the dialer's
/// ConnectionEstablished / DialFailure and whether the listener reports a connection.
fn run_kind6(rt: &tokio::runtime::Runtime, p: &[u64]) -> Option<(Vec<u64>, Vec<u64>)> {
    use litep2p::{
        config::ConfigBuilder,
        error::DialError,
        transport::{tcp::config::Config as TcpConfig, websocket::config::Config as WsConfig},
        Litep2p, Litep2pEvent,
    };
    use multiaddr::Protocol;
    let max_transport = if cfg!(feature = "extra") { 2 } else { 1 };
    if p.len() != 3 || p[1] > max_transport || !(1..=2).contains(&p[2]) {
        return None;
    }
    let mut rng = Rng::derive(p[0] ^ 0xC01_0006);
    let kd = keypair_from(&mut rng);
    let kl = keypair_from(&mut rng);
    let other = keypair_from(&mut rng);
    let id_of = |k: &ed25519::Keypair| PeerId::from_public_key(&litep2p::crypto::PublicKey::Ed25519(k.public()));
    let expected = if p[2] == 1 { id_of(&kl) } else { id_of(&other) };
    let transport = p[1];
    let node = |k: &ed25519::Keypair| {
        let b = ConfigBuilder::new().with_keypair(k.clone());
        #[cfg(feature = "extra")]
        if transport == 2 {
            return Litep2p::new(
                b.with_quic(litep2p::transport::quic::config::Config {
                    listen_addresses: vec!["/ip4/127.0.0.1/udp/0/quic-v1".parse().unwrap()],
                    ..Default::default()
                })
                .build(),
            );
        }
        let b = if transport == 1 {
            b.with_websocket(WsConfig {
                listen_addresses: vec!["/ip4/127.0.0.1/tcp/0/ws".parse().unwrap()],
                reuse_port: false,
                ..Default::default()
            })
        } else {
            b.with_tcp(TcpConfig {
                listen_addresses: vec!["/ip4/127.0.0.1/tcp/0".parse().unwrap()],
                reuse_port: false,
                ..Default::default()
            })
        };
        Litep2p::new(b.build())
    };
    let (rd, rl): (Result<PeerId, u64>, Result<PeerId, u64>) = rt.block_on(async {
        let mut d = node(&kd).ok()?;
        let mut l = node(&kl).ok()?;
        let base: multiaddr::Multiaddr = l
            .listen_addresses()
            .next()?
            .iter()
            .filter(|x| !matches!(x, Protocol::P2p(_)))
            .collect();
        let addr = base.with(Protocol::P2p(multiaddr::PeerId::from_bytes(&expected.to_bytes()).ok()?));
        if d.dial_address(addr).await.is_err() {
            return Some((Err(10), Err(12)));
        }
        let mut rd: Option<Result<PeerId, u64>> = None;
        let mut rl: Option<Result<PeerId, u64>> = None;
        let deadline = tokio::time::sleep(Duration::from_secs(12));
        tokio::pin!(deadline);
        let mut grace: Option<std::pin::Pin<Box<tokio::time::Sleep>>> = None;
        loop {
            if rd.is_some() && (rl.is_some() || grace.is_none()) && grace.is_none() {
                grace = Some(Box::pin(tokio::time::sleep(Duration::from_millis(150))));
            }
            if rd.is_some() && rl.is_some() {
                break;
            }
            tokio::select! {
                ev = d.next_event(), if rd.is_none() => match ev {
                    Some(Litep2pEvent::ConnectionEstablished { peer, .. }) => rd = Some(Ok(peer)),
                    Some(Litep2pEvent::DialFailure { error, .. }) => rd = Some(Err({ match error {
                        DialError::NegotiationError(e) => class(&e),
                        DialError::Timeout => 9,
                        _ => 10,
                    }})),
                    Some(Litep2pEvent::ListDialFailures { errors }) => rd = Some(Err(match errors.first() {
                        Some((_, DialError::NegotiationError(e))) => class(e),
                        Some((_, DialError::Timeout)) => 9,
                        _ => 10,
                    })),
                    Some(_) => {}
                    None => rd = Some(Err(10)),
                },
                ev = l.next_event(), if rl.is_none() => {
                    if let Some(Litep2pEvent::ConnectionEstablished { peer, .. }) = ev {
                        rl = Some(Ok(peer));
                    }
                },
                _ = async { grace.as_mut().unwrap().await }, if grace.is_some() => break,
                _ = &mut deadline => break,
            }
        }
        Some((rd.unwrap_or(Err(9)), rl.unwrap_or(Err(12))))
    })?;
    let mut case = vec![6, 3];
    case.extend_from_slice(p);
    el(&mut case, &kd.public().to_bytes());
    el(&mut case, &kl.public().to_bytes());
    case.push(1);
    el(&mut case, &expected.to_bytes());
    let mut trace = vec![6];
    put_result(&mut trace, &rd);
    put_result(&mut trace, &rl);
    Some((case, trace))
}

// ------------------------------------------------------------------ kind 9: the manager's comparison
// `9 3 seed transport mode`: the REAL TransportManager over a scripted transport installed as TCP (0),
// WebSocket (1) or — harness_c01x only — QUIC (2). mode 0/1: dial_address(../p2p/<dialed>), then the
// transport reports ConnectionEstablished for the dialed peer / for another peer under the dial's
// connection id; mode 2: an inbound connection (nothing pending). Observed: does next() hand out
// ConnectionEstablished (after transport.accept), or is the connection refused (transport.reject; in
// a debug build the manager stops at debug_assert!(false) first — both are "refused").
fn run_kind9(rt: &tokio::runtime::Runtime, p: &[u64]) -> Option<(Vec<u64>, Vec<u64>)> {
    use litep2p::transport::verif::{SupportedTransport, TransportManagerBuilder, VerifCall, VerifManagerEvent};
    let max_transport = if cfg!(feature = "extra") { 2 } else { 1 };
    if p.len() != 3 || p[1] > max_transport || p[2] > 2 {
        return None;
    }
    let (seed, transport, mode) = (p[0], p[1], p[2]);
    let mut rng = Rng::new(seed ^ 0xC01_0009);
    let id_of = |k: &ed25519::Keypair| PeerId::from_public_key(&litep2p::crypto::PublicKey::Ed25519(k.public()));
    let dialed = id_of(&keypair_from(&mut rng));
    let other = id_of(&keypair_from(&mut rng));
    let reported = if mode == 1 { other } else { dialed };
    let base = match transport {
        0 => "/ip4/10.1.2.3/tcp/7001",
        1 => "/ip4/10.1.2.3/tcp/7001/ws",
        _ => "/ip4/10.1.2.3/udp/7001/quic-v1",
    };
    let addr: multiaddr::Multiaddr =
        format!("{base}/p2p/{}", multiaddr::PeerId::from_bytes(&dialed.to_bytes()).ok()?).parse().ok()?;
    let name = match transport {
        0 => SupportedTransport::Tcp,
        1 => SupportedTransport::WebSocket,
        #[cfg(feature = "extra")]
        _ => SupportedTransport::Quic,
        #[cfg(not(feature = "extra"))]
        _ => return None,
    };
    let guard = rt.enter();
    let mut manager = TransportManagerBuilder::new().build();
    let script = manager.verif_register_scripted_as(name);
    let cid = if mode == 2 {
        manager.verif_alloc_connection_id()
    } else {
        rt.block_on(manager.dial_address(addr.clone())).ok()?;
        let _ = manager.verif_drain();
        let calls = script.take_calls();
        let cid = calls.iter().find_map(|c| if let VerifCall::Dial(c) = c { Some(*c) } else { None })?;
        if manager.verif_pending_connections() != vec![(cid, dialed)] {
            return None;
        }
        cid
    };
    script.inject_connection_established(reported, cid, addr, mode == 2);
    let res = catch_unwind(AssertUnwindSafe(|| {
        let mut evs = manager.verif_drain();
        script.resolve_accept(cid, true);
        evs.extend(manager.verif_drain());
        evs
    }));
    drop(guard);
    let calls = script.take_calls();
    let r: Result<PeerId, u64> = match res {
        Err(_) => Err(8),
        Ok(evs) => {
            let est = evs.iter().find_map(|e| match e {
                VerifManagerEvent::ConnectionEstablished(peer, c, _) if *c == cid => Some(*peer),
                _ => None,
            });
            match est {
                Some(peer) if calls.contains(&VerifCall::Accept(cid)) => Ok(peer),
                Some(_) => Err(10),
                None if calls.contains(&VerifCall::Reject(cid)) => Err(8),
                None => Err(10),
            }
        }
    };
    std::mem::forget(manager);
    let mut case = vec![9, 3];
    case.extend_from_slice(p);
    if mode == 2 {
        case.push(0);
    } else {
        case.push(1);
        el(&mut case, &dialed.to_bytes());
    }
    el(&mut case, &reported.to_bytes());
    let mut trace = vec![9];
    put_result(&mut trace, &r);
    Some((case, trace))
}

// ------------------------------------------------------------------ kinds 7, 8: other callers
// Compiled only into harness_c01x (cargo features quic + webrtc of litep2p), run by
// tools/c01_extra_streams.sh.

#[cfg(feature = "extra")]
mod extra {
    use super::*;
    use litep2p::{
        crypto::{
            verif_tls::{verif_check_client_cert, verif_check_server_cert, verif_generate_with_extensions, VERIF_P2P_SIGNING_PREFIX},
            verif_webrtc_noise::NoiseContext,
        },
        transport::webrtc::verif::verif_noise_prologue,
    };

    fn tls_class(e: &str) -> u64 {
        if e.contains("Wrong peer ID") {
            8
        } else if e.contains("InvalidCertificateEncoding") {
            13
        } else if e.contains("ExtensionValueInvalid") {
            14
        } else if e.contains("UnsupportedCriticalExtension") {
            15
        } else if e.contains("UnknownIssuer") {
            5
        } else {
            10
        }
    }

    /// One extension of a crafted certificate.
    #[derive(Clone)]
    enum X {
        /// another OID, `critical` or not
        Other(bool),
        /// the libp2p OID with a content that is not a SignedKey
        Raw(Vec<u8>),
        /// the libp2p OID: SignedKey { key blob, signature }, marked critical or not
        P2p(Vec<u8>, Vec<u8>, bool),
    }

    const OTHER_OIDS: [&[u64]; 3] = [&[1, 3, 6, 1, 4, 1, 53594, 1, 2], &[1, 2, 3, 4], &[1, 3, 6, 1, 4, 1, 53594, 2, 1]];

    /// kind 7: `7 3 seed forgery variant`. A certificate is generated by litep2p's own code path
    /// (rcgen, fresh P-256 certificate key) with the extensions chosen here, in this order, and
    /// given to the real verifier as a server certificate (with an expected peer) and as a client
    /// certificate.
    pub fn run_kind7(p: &[u64]) -> Option<(Vec<u64>, Vec<u64>)> {
        if p.len() != 3 || p[1] > 17 {
            return None;
        }
        let (seed, fk, variant) = (p[0], p[1], p[2]);
        let mut rng = Rng::new(seed ^ 0xC01_0007);
        let ka = keypair_from(&mut rng);
        let kb = keypair_from(&mut rng);
        let pk_a = ka.public().to_bytes().to_vec();
        let prefix = VERIF_P2P_SIGNING_PREFIX.to_vec();
        // a SubjectPublicKeyInfo of ANOTHER certificate key (for "signature made for another key")
        let (_, other_spki) = verif_generate_with_extensions(|_| Vec::new()).ok()?;
        let mut keys: Vec<Vec<u8>> = vec![pk_a.clone(), kb.public().to_bytes().to_vec()];
        let mut sigs: Vec<Vec<u8>> = Vec::new();
        let mut inter = 0usize;
        let mut exts: Vec<X> = Vec::new();
        let mut r2 = rng.fork();
        let mut r3 = rng.fork();
        let (der, spki) = verif_generate_with_extensions(|spki| {
            let good_msg = [&prefix[..], spki].concat();
            let good_sig = ka.sign(&good_msg);
            let good_blob = key_blob(1, &pk_a);
            sigs.push(good_sig.clone());
            let good = X::P2p(good_blob.clone(), good_sig.clone(), true);
            let bad_key = X::P2p(key_blob(2, &pk_a), good_sig.clone(), true);
            let malformed = X::Raw(vec![0x30, 0x03, 0x04, 0x01, 0x00]);
            exts = match fk {
                0 => vec![good],
                1 => Vec::new(),
                2 => {
                    let s = kb.sign(&good_msg);
                    sigs.push(s.clone());
                    vec![X::P2p(good_blob, s, true)]
                }
                3 => {
                    let s = ka.sign(&[&prefix[..], &other_spki[..]].concat());
                    sigs.push(s.clone());
                    vec![X::P2p(good_blob, s, true)]
                }
                4 => {
                    let msg: Vec<u8> = match variant % 4 {
                        0 => spki.to_vec(),
                        1 => [VERIF_STATIC_KEY_DOMAIN.as_bytes(), spki].concat(),
                        2 => [&prefix[..prefix.len() - 1], spki].concat(),
                        _ => [&prefix[..], &spki[..spki.len() - 1]].concat(),
                    };
                    let s = ka.sign(&msg);
                    sigs.push(s.clone());
                    vec![X::P2p(good_blob, s, true)]
                }
                5 => {
                    // non-canonical encodings of the key: the id must still be the key's
                    let blob = match variant % 4 {
                        0 => [ld(2, &pk_a), field_key(1, 0), varint(1)].concat(),
                        1 => [good_blob.clone(), unknown_field(&mut r2, &[1, 2], 2)].concat(),
                        2 => [varint_pad(8, 1), varint_pad(1, 2), varint_pad(18, 1), varint_pad(32, 3), pk_a.clone()].concat(),
                        _ => key_blob((1 << 32) + 1, &pk_a),
                    };
                    vec![X::P2p(blob, good_sig, true)]
                }
                6 => {
                    let tys = [0u64, 2, 3, 4, 1 << 32];
                    vec![X::P2p(key_blob(tys[(variant % 5) as usize], &pk_a), good_sig, true)]
                }
                7 => {
                    let n = [0usize, 31, 33, 64][(variant % 4) as usize];
                    let mut d = pk_a.clone();
                    d.resize(n, 9);
                    vec![X::P2p(key_blob(1, &d), good_sig, true)]
                }
                8 => {
                    let raw = match variant % 3 {
                        0 => vec![0x30, 0x03, 0x04, 0x01, 0x00],
                        1 => rand_bytes(&mut r2, 20),
                        _ => Vec::new(),
                    };
                    vec![X::Raw(raw)]
                }
                9 => vec![good.clone(), X::P2p(good_blob, good_sig, false)],
                10 => {
                    inter = 1 + (variant % 2) as usize;
                    vec![good]
                }
                11 => {
                    let k = unhex(SMALL_ORDER[(variant % 8) as usize]);
                    let mut s = unhex(SMALL_ORDER[0]);
                    s.extend([0u8; 32]);
                    keys.push(k.clone());
                    sigs.push(s.clone());
                    vec![X::P2p(key_blob(1, &k), s, true)]
                }
                12 => {
                    let mut s = good_sig.clone();
                    let i = r2.below(64) as usize;
                    s[i] ^= 1 << r2.below(8);
                    sigs.push(s.clone());
                    vec![X::P2p(good_blob, s, true)]
                }
                // extensions the verifier must skip, around a good libp2p extension (critical or not)
                13 => {
                    let g = X::P2p(good_blob, good_sig, variant % 2 == 0);
                    match (variant / 2) % 4 {
                        0 => vec![X::Other(false), g],
                        1 => vec![g, X::Other(false)],
                        2 => vec![X::Other(false), X::Other(false), g, X::Other(false)],
                        _ => vec![X::Other(false), g, X::Other(false), X::Other(false)],
                    }
                }
                // a critical extension the verifier does not understand
                14 => match variant % 5 {
                    0 => vec![X::Other(true), good],
                    1 => vec![good, X::Other(true)],
                    2 => vec![X::Other(false), good, X::Other(false), X::Other(true)],
                    3 => vec![X::Other(true)],
                    _ => vec![X::Other(true), X::Other(true), good],
                },
                // two extensions with the libp2p OID: which error wins depends on the order
                15 => match variant % 6 {
                    0 => vec![bad_key, good],
                    1 => vec![malformed, good],
                    2 => vec![good, malformed],
                    3 => vec![good, bad_key],
                    4 => vec![good.clone(), X::Other(false), good],
                    _ => vec![malformed.clone(), malformed],
                },
                // the first offending extension decides
                16 => match variant % 6 {
                    0 => vec![X::Other(true), malformed],
                    1 => vec![malformed, X::Other(true)],
                    2 => vec![bad_key, X::Other(true)],
                    3 => vec![X::Other(true), bad_key],
                    4 => vec![good.clone(), good, X::Other(true)],
                    _ => vec![good, X::Other(true), X::Raw(Vec::new())],
                },
                // random lists
                _ => {
                    let n = r2.below(5);
                    (0..n)
                        .map(|_| match r2.below(8) {
                            0 => X::Other(true),
                            1 | 2 | 3 => X::Other(false),
                            4 => malformed.clone(),
                            5 => bad_key.clone(),
                            _ => good.clone(),
                        })
                        .collect()
                }
            };
            exts.iter()
                .map(|x| match x {
                    X::Other(critical) => {
                        let oid = OTHER_OIDS[r3.below(3) as usize].to_vec();
                        (Some(oid), None, rand_bytes(&mut r3, 1 + (variant % 7) as usize), *critical)
                    }
                    X::Raw(raw) => (None, None, raw.clone(), true),
                    X::P2p(k, s, critical) => (None, Some((k.clone(), s.clone())), Vec::new(), *critical),
                })
                .collect()
        })
        .ok()?;
        let expected = match variant % 3 {
            0 => None,
            1 => id_of_key_bytes(&pk_a),
            _ => id_of_key_bytes(&kb.public().to_bytes()),
        };
        let rs = verif_check_server_cert(&der, inter, expected).map_err(|e| tls_class(&e));
        let rc = verif_check_client_cert(&der, inter).map_err(|e| tls_class(&e));
        let mut trace = vec![7];
        put_result(&mut trace, &rs);
        put_result(&mut trace, &rc);
        trace.push(0);
        // case
        let mut case = vec![7, 3];
        case.extend_from_slice(p);
        case.push(exts.len() as u64);
        for x in exts.iter() {
            match x {
                X::Other(critical) => case.push(*critical as u64),
                X::Raw(_) => case.push(2),
                X::P2p(k, s, _) => {
                    case.push(3);
                    el(&mut case, k);
                    el(&mut case, s);
                    // oracle tables over the extension's key data and signature
                    if let Some((_, data)) = verif_decode_key_message(k) {
                        keys.push(data);
                    }
                    sigs.push(s.clone());
                }
            }
        }
        el(&mut case, &spki);
        case.push(inter as u64);
        match expected {
            None => case.push(0),
            Some(id) => {
                case.push(1);
                el(&mut case, &id.to_bytes());
            }
        }
        keys.sort();
        keys.dedup();
        sigs.sort();
        sigs.dedup();
        let msg = [&prefix[..], &spki[..]].concat();
        let keys32: Vec<&Vec<u8>> = keys.iter().filter(|k| k.len() == 32).collect();
        case.push(keys32.len() as u64);
        for k in keys32.iter() {
            el(&mut case, k);
            case.push(on_curve(k) as u64);
        }
        let mut entries = Vec::new();
        let mut n = 0u64;
        for k in keys32.iter().filter(|k| on_curve(k)) {
            for s in sigs.iter() {
                el(&mut entries, k);
                el(&mut entries, &msg);
                el(&mut entries, s);
                entries.push(ed_verify(k, &msg, s) as u64);
                n += 1;
            }
        }
        case.push(n);
        case.extend(entries);
        Some((case, trace))
    }

    /// kind 8: `8 5 seed forgery variant fpmode`. litep2p's WebRTC Noise path on byte vectors:
    /// `NoiseContext::with_prologue` (initiator) with the prologue computed by litep2p from its
    /// two fingerprints; the remote is a snow responder whose prologue is computed from ITS view
    /// of the fingerprints (fpmode 0: the same pair; others: a differing pair).
    pub fn run_kind8(rt: &tokio::runtime::Runtime, p: &[u64]) -> Option<(Vec<u64>, Vec<u64>)> {
        if p.len() != 5 || p[1] == 0 || p[1] >= NKINDS || p[3] > 7 || p[4] > 6 {
            return None;
        }
        let (seed, fkind, variant, fpmode, lenmode) = (p[0], p[1], p[2], p[3], p[4]);
        let mut rng = Rng::new(seed ^ 0xC01_0008);
        let victim = keypair_from(&mut rng);
        let ka = keypair_from(&mut rng);
        let kb = keypair_from(&mut rng);
        let local_fp = rand_bytes(&mut rng, 32);
        let remote_fp = rand_bytes(&mut rng, 32);
        let pro_i = verif_noise_prologue(local_fp.clone(), remote_fp.clone());
        // the remote's view: its local fingerprint is our remote one
        let (mut their_local, mut their_remote) = (remote_fp.clone(), local_fp.clone());
        match fpmode {
            0 => {}
            1 => their_local[rng.below(32) as usize] ^= 1 << rng.below(8),
            2 => their_remote[rng.below(32) as usize] ^= 1 << rng.below(8),
            3 => std::mem::swap(&mut their_local, &mut their_remote),
            4 => their_remote = rand_bytes(&mut rng, 32),
            5 => their_local.truncate(31),
            _ => {}
        }
        // the remote (client) computes "libp2p-webrtc-noise:" ++ client fp ++ server fp
        let pro_r = match fpmode {
            6 => Vec::new(),                          // a remote that uses no prologue at all
            7 => b"libp2p-webrtc-noise:".to_vec(),    // ... or only the prefix
            _ => [b"libp2p-webrtc-noise:".as_slice(), &their_local, &their_remote].concat(),
        };
        let replay = if fkind == 21 { honest_pair(rt, &mut rng, variant % 2, 0).0 } else { Vec::new() };
        let builder = snow_builder();
        let kp = builder.generate_keypair().ok()?;
        let x = Forge { rs: &kp.public, a: &ka, b: &kb, victim_pk: victim.public().to_bytes(), rogue_is_listener: true, replay };
        let (payload, ks, ss) = forge(fkind, variant, &mut rng, &x);
        if payload.len() > 60_000 {
            return None;
        }
        let mut responder = builder.local_private_key(&kp.private).prologue(&pro_r).build_responder().ok()?;
        let mut ctx = NoiseContext::with_prologue(&victim, pro_i.clone()).ok()?;
        let m1 = ctx.first_message(Role::Dialer).ok()?;
        let mut buf = vec![0u8; 70_000];
        let mut out = vec![0u8; 70_000];
        responder.read_message(&m1[2..], &mut buf).ok()?;
        let n = responder.write_message(&payload, &mut out).ok()?;
        // get_remote_peer_id takes the two-byte prefix only as the size of its output buffer and hands
        // ALL the bytes behind it to snow: a prefix that does not match, bytes behind the message
        let (prefix, extra, short): (usize, usize, bool) = match lenmode {
            0 => (n, 0, false),
            1 => (payload.len(), 0, false),                     // smaller than the message, enough for the payload
            2 if !payload.is_empty() => (payload.len() - 1, 0, false), // one byte too small for the payload
            3 => (65535, 0, false),
            4 => (n, 1, false),                                 // a byte appended behind the message
            5 => (n, 0, true),                                  // the reply cut to a single byte
            6 => (0, 0, false),
            _ => (n, 0, false),
        };
        let mut reply = vec![(prefix >> 8) as u8, (prefix & 0xff) as u8];
        reply.extend_from_slice(&out[..n]);
        reply.extend(std::iter::repeat(0x5a).take(extra));
        if short {
            reply.truncate(1);
        }
        let res = ctx.get_remote_peer_id(&reply).map_err(|e| class(&e));
        let mut trace = vec![8];
        put_result(&mut trace, &res);
        trace.push(0);
        let mut case = vec![8, 5];
        case.extend_from_slice(p);
        // finish_case appends payload, static key, tables; the prologues go in between
        let (c2, t2) = finish_case(Vec::new(), trace, &payload, &kp.public, None, ks, ss, false);
        // c2 = L payload, L rs, tables...: splice the prologues after the first two lists
        let l1 = 1 + c2[0] as usize;
        let l2 = 1 + c2[l1] as usize;
        case.extend_from_slice(&c2[..l1 + l2]);
        el(&mut case, &pro_i);
        el(&mut case, &pro_r);
        case.extend([short as u64, prefix as u64, extra as u64]);
        case.extend_from_slice(&c2[l1 + l2..]);
        Some((case, t2))
    }

    pub fn generate(rt: &tokio::runtime::Runtime, rng: &mut Rng, n: u64, run: &mut dyn FnMut(&[u64])) {
        let _ = rt;
        for fk in 0..=17u64 {
            for v in 0..12u64 {
                run(&[7, 3, 5000 + fk * 16 + v, fk, v]);
            }
        }
        // two complete nodes over QUIC (right / wrong peer id dialed); the manager behind a scripted QUIC transport
        for m in 1..=2u64 {
            run(&[6, 3, 6900 + m, 2, m]);
        }
        for m in 0..3u64 {
            run(&[9, 3, 6910 + m, 2, m]);
        }
        for fk in 1..NKINDS {
            for fp in 0..8u64 {
                run(&[8, 5, 6000 + fk * 8 + fp, fk, fp + fk, fp, 0]);
            }
            run(&[8, 5, 6500 + fk, fk, fk, 0, 0]);
            for lm in 1..7u64 {
                run(&[8, 5, 6600 + fk * 8 + lm, if lm % 2 == 0 { fk } else { 1 }, fk, 0, lm]);
            }
        }
        for i in 0..n {
            let seed = rng.next() >> 16;
            if i % 100 == 99 {
                run(&[6, 3, seed, 2, rng.range(1, 2)]);
            } else if i % 50 == 25 {
                run(&[9, 3, seed, 2, rng.below(3)]);
            } else if i % 2 == 0 {
                run(&[7, 3, seed, if rng.chance(30) { 17 } else { rng.below(18) }, rng.below(1 << 12)]);
            } else {
                let fk = if rng.chance(40) { 1 } else { 1 + rng.below(NKINDS - 1) };
                run(&[8, 5, seed, fk, rng.below(1 << 12), if rng.chance(50) { 0 } else { rng.below(8) }, if rng.chance(70) { 0 } else { rng.below(7) }]);
            }
        }
    }
}

// ------------------------------------------------------------------ driver

fn run_case(rt: &tokio::runtime::Runtime, c: &[u64]) -> Option<(Vec<u64>, Vec<u64>)> {
    let kind = *c.first()?;
    let np = *c.get(1)? as usize;
    let p = c.get(2..2 + np)?;
    match kind {
        1 | 5 => run_kind1(rt, p),
        2 => run_kind2(rt, p),
        4 => run_kind4(rt, p),
        6 => run_kind6(rt, p),
        9 => run_kind9(rt, p),
        #[cfg(feature = "extra")]
        7 => extra::run_kind7(p),
        #[cfg(feature = "extra")]
        8 => extra::run_kind8(rt, p),
        _ => None,
    }
}

/// framed lengths of the three honest messages (2 + 32, 2 + 32 + 48 + 104 + 16, 2 + 48 + 104 + 16)
const MSG_LEN: [u64; 3] = [34, 202, 170];

fn exhaustive() -> Vec<Vec<u64>> {
    let mut v = Vec::new();
    let mut seed = 1000u64;
    let mut push = |v: &mut Vec<Vec<u64>>, t: [u64; 5]| {
        seed += 1;
        v.push(vec![2, 6, seed, t[0], t[1], t[2], t[3], t[4]]);
    };
    for m in 1..=3u64 {
        let n = MSG_LEN[(m - 1) as usize];
        for pos in 0..n {
            for mask in [0x01u64, 0x80, 0xff] {
                push(&mut v, [1, m, pos, mask, 0]);
            }
            push(&mut v, [2, m, pos, 0, 0]); // stream cut after `pos` bytes of the frame
        }
        for pos in 0..n - 2 {
            push(&mut v, [3, m, pos, 0, 0]); // body shortened to `pos` bytes, length prefix adjusted
        }
        push(&mut v, [4, m, 0, 0, 0]);
        push(&mut v, [7, m, 0, 0, 0]);
        push(&mut v, [8, m, 0, 0, 0]);
        push(&mut v, [10, m, 0, 0, 0]);
    }
    for (m, s) in [(2u64, 0u64), (3, 1), (3, 2), (2, 3), (2, 4), (2, 5), (3, 6), (3, 7), (1, 8), (2, 9)] {
        push(&mut v, [5, m, s, 0, 0]);
    }
    v
}

fn gen_case(rng: &mut Rng, i: u64, thorough: bool) -> Vec<u64> {
    let seed = rng.next() >> 16;
    let roll = rng.below(100);
    if roll < 2 && (thorough || i % 8 == 0) {
        vec![6, 3, seed, rng.below(2), rng.range(1, 2)]
    } else if roll < 3 {
        vec![9, 3, seed, rng.below(2), rng.below(3)]
    } else if roll < 12 {
        // honest sessions under random fragmentation, half of them with early data
        let frag = rng.pick(&[0u64, 1, 2, 3, 7, 16, 31, 33, 100, 201, 1000]);
        let early = if rng.chance(50) {
            0
        } else if rng.chance(4) {
            rng.pick(&[65_519u64, 65_520, 100_000])
        } else {
            rng.pick(&[1u64, 2, 17, 100, 1000, 4096])
        };
        vec![2, 7, seed, 0, 0, 0, 0, frag, early]
    } else if roll < 30 {
        // random tampering beyond the exhaustive sweep
        let m = rng.range(1, 3);
        let n = MSG_LEN[(m - 1) as usize];
        let frag = rng.pick(&[0u64, 0, 1, 5, 50]);
        let t = match rng.below(9) {
            0 => [1, m, rng.below(n), rng.range(1, 255)],
            1 => [6, m, rng.pick(&[1u64, 2, 16, 100, 1000, if thorough { 40_000 } else { 3000 }]), rng.below(256)],
            2 => [9, m, rng.pick(&[1u64, 2, 3, 34, 50, 170, 202, 1000]), rng.below(256)],
            3 => [11, m, rng.below(n - 1), rng.below(256)],
            4 => [12, m, rng.pick(&[0u64, 1, 31, 32, 33, 47, 48, 63, 64, 79, 80, 95, 96, 167, 168, 169, 199, 200, 201, 255, 256, 4096, 65535]), 0],
            5 => [5, rng.pick(&[2u64, 3]), rng.below(10), 0],
            6 => [4, m, 0, 0],
            7 => [2, m, rng.below(n), 0],
            _ => [3, m, rng.below(n - 2), 0],
        };
        let early = if [6, 8, 9].contains(&t[0]) || rng.chance(60) { 0 } else { rng.pick(&[1u64, 50, 5000]) };
        vec![2, 7, seed, t[0], t[1], t[2], t[3], frag, early]
    } else if roll < 34 || (roll < 40 && thorough) {
        vec![4, 3, seed, rng.below(3), rng.below(3)]
    } else if roll < 50 {
        // a rogue peer against negotiate_connection over TCP, with a dialed-peer expectation
        let fkind = if rng.chance(35) { 1 } else { 1 + (i + rng.below(3)) % (NKINDS - 1) };
        vec![5, 5, seed, rng.below(2), fkind, rng.below(1 << 16), rng.below(4)]
    } else {
        let mut fkind = if rng.chance(6) { 0 } else { 1 + (i + rng.below(3)) % (NKINDS - 1) };
        if fkind == 23 && !rng.chance(15) {
            fkind = 22;
        }
        vec![1, 4, seed, rng.below(2), fkind, rng.below(1 << 16)]
    }
}

pub fn main(args: &Args) {
    let seed = args.u64("seed", 1);
    let ncases = args.u64("cases", 100);
    let thorough = args.str("tier") == Some("thorough");
    let mut out = Outputs::open(args);
    let rt = tokio::runtime::Builder::new_current_thread().enable_all().build().unwrap();
    let mut rng = Rng::new(seed);

    let mut stored: Vec<Vec<u64>> = Vec::new();
    if let Some(r) = args.str("replay") {
        stored = read_cases(Path::new(r));
    } else if let Some(d) = args.str("corpus") {
        stored = read_cases(Path::new(d));
    }
    let run = |c: &[u64], out: &mut Outputs| match catch_unwind(AssertUnwindSafe(|| run_case(&rt, c))) {
        Ok(Some((case, trace))) => out.emit(&case, &trace),
        Ok(None) => out.emit(c, &[0]),
        Err(_) => out.emit(c, &[PANIC_MARK]),
    };
    for c in stored.iter() {
        run(c, &mut out);
    }
    if args.str("replay").is_some() {
        return;
    }
    #[cfg(feature = "extra")]
    {
        extra::generate(&rt, &mut rng, ncases, &mut |c| run(c, &mut out));
        let _ = thorough;
        return;
    }
    // a few of each kind first (the in-Coq sample takes the head of the file)
    for i in 0..24u64 {
        let c = match i % 4 {
            0 => vec![1, 4, 7000 + i, i % 2, 1 + i % (NKINDS - 1), i],
            1 => vec![2, 6, 7000 + i, 0, 0, 0, 0, i % 5],
            2 => vec![2, 6, 7000 + i, 1, 1 + i % 3, 3 + i, 0x40, 0],
            _ => vec![1, 4, 7000 + i, (i / 4) % 2, 1 + (i * 5) % (NKINDS - 1), i],
        };
        run(&c, &mut out);
    }
    for k in 0..NKINDS {
        for v in 0..(if k == 23 { 5u64 } else { 16 }) {
            for role in 0..2u64 {
                run(&[1, 4, 9000 + k * 100 + v * 2 + role, role, k, v + (role << 3)], &mut out);
            }
        }
    }
    for m in 0..9u64 {
        run(&[4, 3, 8000 + m, m / 3, m % 3], &mut out);
    }
    for k in 1..NKINDS {
        for d in 0..4u64 {
            run(&[5, 5, 8100 + k * 8 + d, d % 2, k, d + k, d], &mut out);
        }
    }
    // public API end to end: TCP and WebSocket, right and wrong peer id dialed
    for t in 0..2u64 {
        for m in 1..=2u64 {
            run(&[6, 3, 8300 + t * 2 + m, t, m], &mut out);
        }
    }
    // the manager's own comparison behind a scripted transport (TCP, WebSocket)
    for t in 0..2u64 {
        for m in 0..3u64 {
            run(&[9, 3, 8350 + t * 4 + m, t, m], &mut out);
        }
    }
    // early data: the dialer's application writes right behind message 3
    for (i, early) in [1u64, 100, 4096, 70_000].iter().enumerate() {
        for (j, t) in [[0u64, 0, 0, 0], [1, 3, 60, 4], [1, 3, 0, 1], [3, 3, 100, 0], [4, 3, 0, 0], [10, 3, 0, 0], [1, 2, 90, 8], [7, 3, 0, 0], [12, 3, 100, 0]]
            .iter()
            .enumerate()
        {
            if *early > 10_000 && j > 2 {
                continue;
            }
            let frag = [0u64, 1, 33][(i + j) % 3];
            run(&[2, 7, 8400 + (i * 16 + j) as u64, t[0], t[1], t[2], t[3], frag, *early], &mut out);
        }
    }
    for c in exhaustive() {
        run(&c, &mut out);
    }
    for i in 0..ncases {
        let mut r = rng.fork();
        let c = gen_case(&mut r, i, thorough);
        run(&c, &mut out);
    }
}
