//! C16: the glue of `Kademlia` around the query engine (kademlia/mod.rs, executor.rs,
//! query/target_peers.rs). Case format: see coq/C16/Glue.v.
//!
//! The REAL `Kademlia::run` loop is polled by hand on a real `TransportService`; the harness plays
//! the transports (connections, substreams over in-memory carriers, dial results through the
//! state of a real `TransportManager` handle) and the user (`KademliaHandle`). One harness event =
//! one `select!` event = one poll of the loop; the loop reports (cfg(verif) probe) every action the
//! engine yielded and a snapshot of its maps when it waits again. The served query ids, the seed
//! candidates and the XOR-distance ranks observed on the implementation are written into the case
//! (they are inputs of the model: HashMap order, routing table, SHA-256).
use crate::util::*;
use bytes::Bytes;
use futures::{FutureExt, Stream};
use litep2p::{
    codec::ProtocolCodec,
    protocol::{
        libp2p::kademlia::{
            verif::{
                ConnectionType, KademliaMessage, KademliaPeer, Key, SchemaMessage, SchemaPeer, SchemaRecord, VerifKadDump,
                VerifKademlia, VerifProbe, VerifProbeEntry, VerifStoreDump,
            },
            ConfigBuilder, ContentProvider, IncomingRecordValidationMode, KademliaEvent, KademliaHandle, Quorum, Record,
            RecordKey, RoutingTableUpdateMode,
        },
        verif::{VerifConnection, VerifServiceInput},
        TransportService,
    },
    transport::verif::{TransportManager, TransportManagerBuilder},
    types::protocol::ProtocolName,
    PeerId,
};
use multiaddr::Multiaddr;
use prost::Message as _;
use std::{
    collections::{BTreeMap, HashMap, VecDeque},
    future::Future,
    num::NonZeroUsize,
    panic::{catch_unwind, AssertUnwindSafe},
    path::Path,
    pin::Pin,
    sync::{Arc, Mutex},
    task::{Context, Poll, Waker},
    time::{Duration, Instant},
};
use tokio::io::{AsyncRead, AsyncWrite, ReadBuf};

#[path = "c16_handle.rs"]
mod handle_stream;

const NADDR: usize = 8;
const LOCAL: u64 = 99;
const UNKNOWN: u64 = 777;
const LOCAL_REC: u8 = 77;
/// Inbound substreams and bogus ids live far away from the service's counter.
const INBOUND_BASE: u64 = 100_000;
const BOGUS_BASE: u64 = 50_000;
const MAX_POOL: u64 = 10;
/// provider refresh interval of the node under test (tokio time is paused and advanced by hand)
const REFRESH_SECS: u64 = 1000;
const REFRESH_MS: u64 = REFRESH_SECS * 1000;
/// more than WRITE_TIMEOUT, more than READ_TIMEOUT of the executor
const TIMEOUT_MS: u64 = 20_000;
/// composed mode: the store's clock, the refresh futures and every expiry are counted in ticks of 10 s
/// (coq/C16/Glue.v: TMO_TICKS, C_PROVIDER_TTL, C_RECORD_TTL, C_REFRESH, C_MAX_RECORD_SIZE, C_MAX_RECORDS)
const TICK_MS: u64 = 10_000;
const TMO_TICKS: u64 = TIMEOUT_MS / TICK_MS;
const PROVIDER_TTL_SECS: u64 = 2_500;
const RECORD_TTL_SECS: u64 = 3_000;
const MAX_RECORD_SIZE: usize = 4;
const MAX_RECORDS: usize = 6;

// ------------------------------------------------------------------ in-memory substream carrier

#[derive(Default)]
struct CarrierState {
    /// 0 writes block, 1 writes are accepted, 2 writes fail, 3 writes are taken but the flush blocks
    wmode: u8,
    /// what was written
    written: Vec<u8>,
    rq: VecDeque<u8>,
    eof: bool,
    rwaker: Option<Waker>,
    wwaker: Option<Waker>,
}

#[derive(Clone, Default)]
struct Carrier(Arc<Mutex<CarrierState>>);

impl Carrier {
    /// a future is blocked on this carrier
    fn awaited(&self) -> bool {
        let s = self.0.lock().unwrap();
        s.rwaker.is_some() || s.wwaker.is_some()
    }

    fn take_written(&self) -> Vec<u8> {
        std::mem::take(&mut self.0.lock().unwrap().written)
    }

    fn set(&self, wmode: Option<u8>, data: Option<Vec<u8>>, eof: bool) {
        let mut s = self.0.lock().unwrap();
        if let Some(w) = wmode {
            s.wmode = w;
        }
        if let Some(d) = data {
            s.rq.extend(d);
        }
        if eof {
            s.eof = true;
        }
        if let Some(w) = s.rwaker.take() {
            w.wake();
        }
        if let Some(w) = s.wwaker.take() {
            w.wake();
        }
    }
}

impl AsyncRead for Carrier {
    fn poll_read(self: Pin<&mut Self>, cx: &mut Context<'_>, buf: &mut ReadBuf<'_>) -> Poll<std::io::Result<()>> {
        let mut s = self.0.lock().unwrap();
        if !s.rq.is_empty() {
            while buf.remaining() > 0 {
                match s.rq.pop_front() {
                    Some(b) => buf.put_slice(&[b]),
                    None => break,
                }
            }
            Poll::Ready(Ok(()))
        } else if s.eof {
            Poll::Ready(Ok(()))
        } else {
            s.rwaker = Some(cx.waker().clone());
            Poll::Pending
        }
    }
}

impl AsyncWrite for Carrier {
    fn poll_write(self: Pin<&mut Self>, cx: &mut Context<'_>, buf: &[u8]) -> Poll<std::io::Result<usize>> {
        let mut s = self.0.lock().unwrap();
        match s.wmode {
            0 => {
                s.wwaker = Some(cx.waker().clone());
                Poll::Pending
            }
            1 | 3 => {
                s.written.extend_from_slice(buf);
                Poll::Ready(Ok(buf.len()))
            }
            _ => Poll::Ready(Err(std::io::ErrorKind::BrokenPipe.into())),
        }
    }
    fn poll_flush(self: Pin<&mut Self>, cx: &mut Context<'_>) -> Poll<std::io::Result<()>> {
        let mut s = self.0.lock().unwrap();
        match s.wmode {
            2 => Poll::Ready(Err(std::io::ErrorKind::BrokenPipe.into())),
            3 => {
                s.wwaker = Some(cx.waker().clone());
                Poll::Pending
            }
            _ => Poll::Ready(Ok(())),
        }
    }
    fn poll_shutdown(self: Pin<&mut Self>, _: &mut Context<'_>) -> Poll<std::io::Result<()>> {
        Poll::Ready(Ok(()))
    }
}

// ------------------------------------------------------------------ case vocabulary

#[derive(Clone, Debug, PartialEq)]
enum Msg {
    FindNode(Vec<u64>),
    PutValue,
    GetRecord { haskey: bool, flag: u64, id: u64, peers: Vec<u64> },
    AddProvider(bool),
    GetProviders { haskey: bool, provs: Vec<(u64, Vec<u64>)>, peers: Vec<u64> },
    Invalid,
}

/// A request read from an inbound substream (composed mode): the record key is a label.
#[derive(Clone, Debug, PartialEq)]
enum Req {
    FindNode(u64),
    /// publisher code (0 none, 1 the local peer, p + 2 peer p, 255 bytes that are no peer id), ttl in ticks
    PutValue { rk: u64, len: u64, publ: u64, ttl: u64 },
    GetValue(u64),
    GetProviders(u64),
    /// (peer, number of addresses, 1 = decodes / 0 = peer id bytes that are no peer id / 2 = unknown connection type)
    AddProvider { rk: u64, provs: Vec<(u64, u64, u64)> },
}

#[derive(Clone, Debug, PartialEq)]
enum Res {
    SendOk,
    Assume,
    SendFail,
    ReadFail,
    Read(Msg),
}

/// Events of `select!` (everything except the served-query records `3 q`).
#[derive(Clone, Debug, PartialEq)]
enum Ev {
    /// `local`: get_record: a record is in the local store (0/1); provider refresh (ctag 5): 1 + the
    /// label of the start_providing operation whose key is republished
    Cmd { q: u64, ctag: u64, qtag: u64, qn: u64, local: u64, dists: Vec<u64>, seeds: Vec<u64> },
    PutToPeers { q: u64, qtag: u64, qn: u64, peers: Vec<u64> },
    Nop,
    Established(u64, bool),
    Closed(u64),
    Kill(u64),
    Mgr(u64, u64),
    Opened(u64, u64),
    OpenFail(u64),
    DialFail(u64),
    Inbound(u64, u64),
    /// What the substream of executor future `id` does. wb: the write side 0 accepts the frame, 1 fails,
    /// 2 blocks for ever; rb: the read side 0 delivers `msg`, 1 ends, 2 stays silent. `tmo`: the harness
    /// let 16 s pass with this future in flight (filled in when the event is applied).
    Fut { id: u64, wb: u64, rb: u64, msg: Option<Msg>, tmo: bool },
    /// composed mode: the read future of inbound substream `id` delivers a request
    InReq { id: u64, rq: Req },
    /// composed mode: stop_providing(key rk)
    UStop(u64),
    /// composed mode: `wait` ticks pass, then the store's refresh future for key rk is taken; q = label of
    /// the refresh operation (`wait` is filled in when the event is applied)
    UFire { q: u64, rk: u64, wait: u64 },
    /// composed mode: d ticks pass
    UAge(u64),
    /// bounded event channel only: the user receives one event
    Recv,
    // composed mode (routing table and store computed by the model): user-level events
    /// uc: 0 find_node, 1 put_record, 2 start_providing, 3 get_record, 4 get_providers;
    /// rk: label of the record key (put / get / start_providing)
    /// len: length of the value (put_record); expc: 0 = no expiry given, n + 1 = expires n ticks from now
    UCmd { q: u64, uc: u64, qtag: u64, qn: u64, rk: u64, len: u64, expc: u64 },
    UPutToPeers { q: u64, qtag: u64, qn: u64, rk: u64, len: u64, publ: u64, expc: u64, upd: bool, given: Vec<u64> },
    UStore { rk: u64, len: u64, publ: u64, expc: u64 },
    UAddKnown(u64, bool),
}

fn push_list(out: &mut Vec<u64>, l: &[u64]) {
    out.push(l.len() as u64);
    out.extend(l);
}

fn push_entries(out: &mut Vec<u64>, l: &[(u64, Vec<u64>)]) {
    out.push(l.len() as u64);
    for (p, a) in l {
        out.push(*p);
        push_list(out, a);
    }
}

impl Msg {
    fn encode(&self, out: &mut Vec<u64>) {
        match self {
            Msg::FindNode(ps) => {
                out.push(0);
                push_list(out, ps);
            }
            Msg::PutValue => out.push(1),
            Msg::GetRecord { haskey, flag, id, peers } => {
                out.extend([2, *haskey as u64, *flag, *id]);
                push_list(out, peers);
            }
            Msg::AddProvider(v) => out.extend([3, *v as u64]),
            Msg::GetProviders { haskey, provs, peers } => {
                out.extend([4, *haskey as u64]);
                push_entries(out, provs);
                push_list(out, peers);
            }
            Msg::Invalid => out.push(5),
        }
    }
}

impl Ev {
    fn encode(&self) -> Vec<u64> {
        let mut o = Vec::new();
        match self {
            Ev::Cmd { q, ctag, qtag, qn, local, dists, seeds } => {
                o.extend([0, *q, *ctag, *qtag, *qn, *local]);
                push_list(&mut o, dists);
                push_list(&mut o, seeds);
            }
            Ev::PutToPeers { q, qtag, qn, peers } => {
                o.extend([1, *q, *qtag, *qn]);
                push_list(&mut o, peers);
            }
            Ev::Nop => o.push(2),
            Ev::Recv => o.push(13),
            Ev::UCmd { q, uc, qtag, qn, rk, len, expc } => {
                o.extend([14, *q, *uc, *qtag, *qn, *rk, *len, *expc]);
                o.extend(target_key(*q, *uc, *rk).iter().map(|b| *b as u64));
            }
            Ev::UPutToPeers { q, qtag, qn, rk, len, publ, expc, upd, given } => {
                o.extend([15, *q, *qtag, *qn, *rk, *len, *publ, *expc, *upd as u64]);
                push_list(&mut o, given);
            }
            Ev::UStore { rk, len, publ, expc } => o.extend([16, *rk, *len, *publ, *expc]),
            Ev::UAddKnown(p, a) => o.extend([17, *p, *a as u64]),
            Ev::Established(p, a) => o.extend([4, *p, *a as u64]),
            Ev::Closed(p) => o.extend([5, *p]),
            Ev::Kill(p) => o.extend([6, *p]),
            Ev::Mgr(p, v) => o.extend([7, *p, *v]),
            Ev::Opened(p, sid) => o.extend([8, *p, *sid]),
            Ev::OpenFail(sid) => o.extend([9, *sid]),
            Ev::DialFail(p) => o.extend([10, *p]),
            Ev::Inbound(p, id) => o.extend([11, *p, *id]),
            Ev::Fut { id, wb, rb, msg, tmo } => {
                let rb = if *rb == 0 && msg.is_none() { 1 } else { *rb };
                o.extend([12, *id, *wb, rb, *tmo as u64]);
                if rb == 0 {
                    msg.as_ref().unwrap().encode(&mut o);
                }
            }
            Ev::InReq { id, rq } => {
                o.extend([19, *id]);
                let key = |rk: u64| Key::new(Sys::key_of(rk)).verif_raw().iter().map(|b| *b as u64).collect::<Vec<u64>>();
                match rq {
                    Req::FindNode(rk) => {
                        o.extend([0, *rk]);
                        o.extend(key(*rk));
                    }
                    Req::PutValue { rk, len, publ, ttl } => o.extend([1, *rk, *len, *publ, *ttl]),
                    Req::GetValue(rk) => {
                        o.extend([2, *rk]);
                        o.extend(key(*rk));
                    }
                    Req::GetProviders(rk) => {
                        o.extend([3, *rk]);
                        o.extend(key(*rk));
                    }
                    Req::AddProvider { rk, provs } => {
                        o.extend([4, *rk, provs.len() as u64]);
                        for (p, na, v) in provs {
                            o.extend([*p, *na, *v]);
                        }
                        o.extend(key(*rk));
                    }
                }
            }
            Ev::UStop(rk) => {
                o.extend([20, *rk]);
                o.extend(Key::new(Sys::key_of(*rk)).verif_raw().iter().map(|b| *b as u64));
            }
            Ev::UFire { q, rk, wait } => {
                o.extend([21, *q, *rk, *wait]);
                o.extend(Key::new(Sys::key_of(*rk)).verif_raw().iter().map(|b| *b as u64));
            }
            Ev::UAge(d) => o.extend([22, *d]),
        }
        o
    }
}

struct Cursor<'a>(&'a [u64], usize);
impl<'a> Cursor<'a> {
    fn n(&mut self) -> Option<u64> {
        let x = *self.0.get(self.1)?;
        self.1 += 1;
        Some(x)
    }
    fn list(&mut self) -> Option<Vec<u64>> {
        let n = self.n()? as usize;
        if n > self.0.len() {
            return None;
        }
        (0..n).map(|_| self.n()).collect()
    }
    fn entries(&mut self) -> Option<Vec<(u64, Vec<u64>)>> {
        let n = self.n()? as usize;
        if n > self.0.len() {
            return None;
        }
        (0..n).map(|_| Some((self.n()?, self.list()?))).collect()
    }
    fn pairs(&mut self) -> Option<Vec<(u64, u64)>> {
        let n = self.n()? as usize;
        if n > self.0.len() {
            return None;
        }
        (0..n).map(|_| Some((self.n()?, self.n()?))).collect()
    }
}

#[derive(Clone, Debug)]
struct Header {
    k: u64,
    mgr: Vec<(u64, u64)>,
    /// peers put into the routing table before the first event (ignored by the model)
    known: Vec<u64>,
    /// capacity of the event channel towards the handle; 0 = the shipped one (never full here)
    cap: u64,
    /// 1 = composed mode: the case carries the peers' Kademlia keys, commands are user-level events
    mode: u64,
    /// number of peer labels 0..pool the case may use (their keys are listed in composed mode)
    pool: u64,
}

fn encode_case(h: &Header, events: &[Vec<u64>]) -> Vec<u64> {
    let mut c = vec![h.k, LOCAL, h.mgr.len() as u64];
    for (p, v) in &h.mgr {
        c.extend([*p, *v]);
    }
    push_list(&mut c, &h.known);
    c.push(h.cap);
    c.push(h.mode);
    if h.mode & 1 == 1 {
        let labels: Vec<u64> = (0..h.pool).chain([LOCAL]).collect();
        c.push(labels.len() as u64);
        for l in labels {
            c.push(l);
            let p = if l == LOCAL { mk_peer(500) } else { mk_peer(l) };
            c.extend(Key::from(p).verif_raw().iter().map(|b| *b as u64));
        }
    }
    c.push(events.len() as u64);
    for e in events {
        c.extend(e);
    }
    c
}

fn decode_msg(r: &mut Cursor) -> Option<Msg> {
    Some(match r.n()? {
        0 => Msg::FindNode(r.list()?),
        1 => Msg::PutValue,
        2 => Msg::GetRecord { haskey: r.n()? != 0, flag: r.n()?, id: r.n()?, peers: r.list()? },
        3 => Msg::AddProvider(r.n()? != 0),
        4 => Msg::GetProviders { haskey: r.n()? != 0, provs: r.entries()?, peers: r.list()? },
        5 => Msg::Invalid,
        _ => return None,
    })
}

/// Decodes a stored case; the served-query records are dropped (the implementation decides them).
fn decode_case(c: &[u64]) -> Option<(Header, Vec<Ev>)> {
    let mut r = Cursor(c, 0);
    let k = r.n()?;
    let _local = r.n()?;
    let mgr = r.pairs()?;
    let known = r.list()?;
    let cap = r.n()?;
    let mode = r.n()?;
    let mut pool = MAX_POOL;
    if mode & 1 == 1 {
        let nk = r.n()? as usize;
        if nk == 0 || nk > 201 {
            return None;
        }
        pool = nk as u64 - 1;
        for _ in 0..nk * 33 {
            r.n()?;
        }
    }
    let n = r.n()? as usize;
    let mut evs = Vec::new();
    for _ in 0..n {
        let e = match r.n()? {
            0 => Ev::Cmd {
                q: r.n()?,
                ctag: r.n()?,
                qtag: r.n()?,
                qn: r.n()?,
                local: r.n()?,
                dists: r.list()?,
                seeds: r.list()?,
            },
            1 => Ev::PutToPeers { q: r.n()?, qtag: r.n()?, qn: r.n()?, peers: r.list()? },
            2 => Ev::Nop,
            13 => Ev::Recv,
            14 => {
                let e = Ev::UCmd { q: r.n()?, uc: r.n()?, qtag: r.n()?, qn: r.n()?, rk: r.n()?, len: r.n()?, expc: r.n()? };
                for _ in 0..32 {
                    r.n()?;
                }
                e
            }
            15 => Ev::UPutToPeers {
                q: r.n()?,
                qtag: r.n()?,
                qn: r.n()?,
                rk: r.n()?,
                len: r.n()?,
                publ: r.n()?,
                expc: r.n()?,
                upd: r.n()? != 0,
                given: r.list()?,
            },
            16 => Ev::UStore { rk: r.n()?, len: r.n()?, publ: r.n()?, expc: r.n()? },
            17 => Ev::UAddKnown(r.n()?, r.n()? != 0),
            3 | 18 => {
                r.n()?;
                continue;
            }
            4 => Ev::Established(r.n()?, r.n()? != 0),
            5 => Ev::Closed(r.n()?),
            6 => Ev::Kill(r.n()?),
            7 => Ev::Mgr(r.n()?, r.n()?),
            8 => Ev::Opened(r.n()?, r.n()?),
            9 => Ev::OpenFail(r.n()?),
            10 => Ev::DialFail(r.n()?),
            11 => Ev::Inbound(r.n()?, r.n()?),
            12 => {
                let id = r.n()?;
                let wb = r.n()?;
                let rb = r.n()?;
                let _tmo = r.n()?;
                let msg = if rb == 0 { Some(decode_msg(&mut r)?) } else { None };
                Ev::Fut { id, wb, rb, msg, tmo: false }
            }
            19 => {
                let id = r.n()?;
                let mut skip_key = |r: &mut Cursor| -> Option<()> {
                    for _ in 0..32 {
                        r.n()?;
                    }
                    Some(())
                };
                let rq = match r.n()? {
                    0 => {
                        let rk = r.n()?;
                        skip_key(&mut r)?;
                        Req::FindNode(rk)
                    }
                    1 => Req::PutValue { rk: r.n()?, len: r.n()?, publ: r.n()?, ttl: r.n()? },
                    2 => {
                        let rk = r.n()?;
                        skip_key(&mut r)?;
                        Req::GetValue(rk)
                    }
                    3 => {
                        let rk = r.n()?;
                        skip_key(&mut r)?;
                        Req::GetProviders(rk)
                    }
                    4 => {
                        let rk = r.n()?;
                        let n = r.n()? as usize;
                        if n > 64 {
                            return None;
                        }
                        let mut provs = Vec::new();
                        for _ in 0..n {
                            provs.push((r.n()?, r.n()?, r.n()?));
                        }
                        skip_key(&mut r)?;
                        Req::AddProvider { rk, provs }
                    }
                    _ => return None,
                };
                Ev::InReq { id, rq }
            }
            20 => {
                let e = Ev::UStop(r.n()?);
                for _ in 0..32 {
                    r.n()?;
                }
                e
            }
            21 => {
                let e = Ev::UFire { q: r.n()?, rk: r.n()?, wait: r.n()? };
                for _ in 0..32 {
                    r.n()?;
                }
                e
            }
            22 => Ev::UAge(r.n()?),
            _ => return None,
        };
        evs.push(e);
    }
    if r.1 != c.len() {
        return None;
    }
    Some((Header { k, mgr, known, cap, mode, pool }, evs))
}

// ------------------------------------------------------------------ the system under test

/// 256-bit Kademlia key of the target of a composed-mode command.
fn target_key(q: u64, uc: u64, rk: u64) -> [u8; 32] {
    match uc {
        0 => Key::from(mk_peer(1_000 + q)).verif_raw(),
        _ => Key::new(Sys::key_of(rk)).verif_raw(),
    }
}

fn mk_peer(i: u64) -> PeerId {
    let mut b = vec![0x00u8, 0x24, 0x08, 0x01, 0x12, 0x20];
    let mut r = Rng::derive(0xC16_0000 + i);
    for _ in 0..4 {
        b.extend(r.next().to_le_bytes());
    }
    PeerId::from_bytes(&b).expect("identity multihash peer id")
}

fn varint_frame(payload: &[u8]) -> Vec<u8> {
    let mut out = Vec::new();
    let mut n = payload.len();
    loop {
        let b = (n & 0x7f) as u8;
        n >>= 7;
        if n == 0 {
            out.push(b);
            break;
        }
        out.push(b | 0x80);
    }
    out.extend(payload);
    out
}

#[derive(Clone, Copy, Debug, PartialEq)]
enum FKind {
    ReqResp,
    ReqEat,
    Send,
    InRead,
    InSend,
    InSendEat,
}

struct Sys {
    k: u64,
    peers: Vec<PeerId>,
    index: HashMap<PeerId, u64>,
    addrs: Vec<Multiaddr>,
    manager: TransportManager,
    input: VerifServiceInput,
    handle: KademliaHandle,
    probe: VerifProbe,
    fut: Pin<Box<dyn Future<Output = ()>>>,
    finished: bool,
    conns: HashMap<u64, VerifConnection>,
    dummy: VerifConnection,
    next_cid: usize,
    carriers: HashMap<u64, Carrier>,
    /// real query id -> label used in the case
    qmap: HashMap<usize, u64>,
    dump: VerifKadDump,
    /// futures the harness believes to be in flight
    inflight: BTreeMap<u64, FKind>,
    /// substream / carrier id -> peer label
    sub_peer: HashMap<u64, u64>,
    /// substream id -> real query id of the action it was opened for
    fut_query: HashMap<u64, usize>,
    mode: u64,
    /// milliseconds the paused clock has been advanced
    now_ms: u64,
    /// base mode: start_providing operations: (label, refresh deadline, qtag, qn)
    provided: Vec<(u64, u64, u64, u64)>,
    /// composed mode: keys this node provides (key label -> quorum) and the armed refresh timers of the
    /// store (key label, deadline)
    prov: HashMap<u64, (u64, u64)>,
    timers: Vec<(u64, u64)>,
    /// composed mode: replies written to inbound substreams while the current event was handled:
    /// (a record is attached, closer peers, providers as (peer, number of addresses))
    replies: Vec<(bool, Vec<u64>, Vec<(u64, u64)>)>,
    cap: u64,
    /// bounded channel: the loop is blocked in a handler on a full event channel
    parked: bool,
    recv_buf: Vec<KademliaEvent>,
    last_recv_none: bool,
    probe_back: Vec<VerifProbeEntry>,
}

impl Sys {
    fn new(h: &Header) -> Option<Self> {
        if h.k == 0 || h.k > 64 {
            return None;
        }
        let peers: Vec<PeerId> = (0..h.pool).map(mk_peer).collect();
        let mut index: HashMap<PeerId, u64> = peers.iter().enumerate().map(|(i, p)| (*p, i as u64)).collect();
        let local = mk_peer(500);
        index.insert(local, LOCAL);
        let addrs: Vec<Multiaddr> =
            (0..NADDR as u16).map(|i| format!("/ip4/10.0.0.{}/tcp/{}", i + 1, 1000 + i).parse().unwrap()).collect();
        let manager = TransportManagerBuilder::new().build();
        let (service, input) = TransportService::verif_new(
            &manager,
            local,
            ProtocolName::from("/ipfs/kad/1.0.0"),
            ProtocolCodec::UnsignedVarint(Some(70 * 1024)),
            Duration::from_secs(3600 * 24),
        );
        let mut builder = ConfigBuilder::new()
            .with_replication_factor(h.k as usize)
            .with_provider_refresh_interval(Duration::from_secs(REFRESH_SECS))
            .with_provider_record_ttl(Duration::from_secs(PROVIDER_TTL_SECS))
            .with_record_ttl(Duration::from_secs(RECORD_TTL_SECS))
            .with_max_record_size(MAX_RECORD_SIZE)
            .with_max_records(MAX_RECORDS);
        if h.mode & 4 != 0 {
            builder = builder.with_routing_table_update_mode(RoutingTableUpdateMode::Manual);
        }
        if h.mode & 8 != 0 {
            builder = builder.with_incoming_records_validation_mode(IncomingRecordValidationMode::Manual);
        }
        let (config, handle) = if h.cap == 0 { builder.build() } else { builder.verif_build_bounded(h.cap as usize) };
        let probe = VerifProbe::default();
        let mut kad = VerifKademlia::new(service, config, probe.clone());
        if h.mode & 2 != 0 {
            kad.verif_zero_peer_timeout();
        }
        let fut: Pin<Box<dyn Future<Output = ()>>> = Box::pin(async move {
            let _ = kad.run().await;
        });
        let dummy = input.dummy_connection(9_999);
        let mut s = Sys {
            k: h.k,
            peers,
            index,
            addrs,
            manager,
            input,
            handle,
            probe,
            fut,
            finished: false,
            conns: HashMap::new(),
            dummy,
            next_cid: 1,
            carriers: HashMap::new(),
            qmap: HashMap::new(),
            dump: VerifKadDump::default(),
            inflight: BTreeMap::new(),
            sub_peer: HashMap::new(),
            fut_query: HashMap::new(),
            mode: h.mode,
            now_ms: 0,
            provided: Vec::new(),
            prov: HashMap::new(),
            timers: Vec::new(),
            replies: Vec::new(),
            cap: h.cap,
            parked: false,
            recv_buf: Vec::new(),
            last_recv_none: false,
            probe_back: Vec::new(),
        };
        // routing table, then the manager's beliefs (add_known_peer goes through the manager too)
        for p in &h.known {
            if *p >= h.pool {
                return None;
            }
            let peer = s.peers[*p as usize];
            s.handle.try_add_known_peer(peer, vec![s.peer_addr(*p)]).ok()?;
        }
        s.poll();
        for en in s.probe.take() {
            if let VerifProbeEntry::AtSelect(d) = en {
                s.dump = d;
            }
        }
        for (p, v) in &h.mgr {
            if *p >= h.pool || *v > 3 {
                return None;
            }
            s.manager.verif_force_peer(s.peers[*p as usize], *v as usize, s.peer_addr(*p));
        }
        Some(s)
    }

    fn peer_addr(&self, p: u64) -> Multiaddr {
        format!("/ip4/10.1.0.{}/tcp/{}", p + 1, 2000 + p).parse().unwrap()
    }

    fn peer(&self, p: u64) -> PeerId {
        if (p as usize) < self.peers.len() {
            self.peers[p as usize]
        } else if p == LOCAL {
            mk_peer(500)
        } else {
            mk_peer(10_000 + p)
        }
    }

    fn idx(&self, p: &PeerId) -> u64 {
        self.index.get(p).copied().unwrap_or(UNKNOWN)
    }

    fn qlabel(&self, q: usize) -> u64 {
        self.qmap.get(&q).copied().unwrap_or(900_000 + q as u64)
    }

    fn poll(&mut self) {
        if self.finished {
            return;
        }
        let waker = futures::task::noop_waker();
        let mut cx = Context::from_waker(&waker);
        for _ in 0..3 {
            if let Poll::Ready(()) = self.fut.as_mut().poll(&mut cx) {
                self.finished = true;
                return;
            }
        }
    }

    fn drain_events(&mut self) -> Vec<KademliaEvent> {
        let waker = futures::task::noop_waker();
        let mut cx = Context::from_waker(&waker);
        let mut out = Vec::new();
        while let Poll::Ready(Some(e)) = Pin::new(&mut self.handle).poll_next(&mut cx) {
            out.push(e);
        }
        out
    }

    fn key_of(q: u64) -> RecordKey {
        RecordKey::from(vec![q as u8, (q >> 8) as u8, 7, 7])
    }

    /// Rank of every pool peer by its real XOR distance to the target of operation `q`.
    fn dists(&self, q: u64, ctag: u64) -> Vec<u64> {
        let mut order: Vec<usize> = (0..self.peers.len()).collect();
        if ctag == 0 {
            let t = Key::from(mk_peer(1_000 + q));
            order.sort_by_key(|i| t.distance(&Key::from(self.peers[*i])));
        } else {
            let t = Key::new(Self::key_of(q));
            order.sort_by_key(|i| t.distance(&Key::from(self.peers[*i])));
        }
        let mut rank = vec![0u64; self.peers.len()];
        for (r, i) in order.iter().enumerate() {
            rank[*i] = r as u64;
        }
        rank
    }

    /// publisher code of a record: 0 none, 1 the local peer, p + 2 peer p
    fn publisher_of(&self, code: u64) -> Option<PeerId> {
        match code {
            0 => None,
            1 => Some(mk_peer(500)),
            c => Some(self.peer(c - 2)),
        }
    }

    /// A record as the user hands it to the handle: `len` bytes LOCAL_REC, expiry `expc - 1` ticks from now.
    fn user_record(&self, rk: u64, len: u64, publ: u64, expc: u64) -> Record {
        Record {
            key: Self::key_of(rk),
            value: vec![LOCAL_REC; len as usize],
            publisher: self.publisher_of(publ),
            expires: if expc == 0 { None } else { Some(Instant::now() + Duration::from_millis((expc - 1) * TICK_MS)) },
        }
    }

    /// Lets `ticks` of logical time pass without an event of its own: the store ages (applied by the loop
    /// the next time it goes round, which a command that touches nothing makes it do), then tokio's
    /// clock moves (executor timeouts, refresh futures).
    async fn pass_time(&mut self, ticks: u64) {
        let by = Duration::from_millis(ticks * TICK_MS);
        if self.mode & 1 == 1 {
            self.probe.request_store_age(by);
            let _ = self.handle.stop_providing(RecordKey::from(vec![252u8, 9])).now_or_never();
            self.poll();
            for en in self.probe.take() {
                match en {
                    VerifProbeEntry::AtSelect(d) => self.dump = d,
                    other => self.probe_back.push(other),
                }
            }
        }
        tokio::time::advance(by).await;
        self.now_ms += ticks * TICK_MS;
    }

    fn kad_peer(&self, p: u64) -> KademliaPeer {
        KademliaPeer::new(self.peer(p), vec![self.peer_addr(p % 200)], ConnectionType::NotConnected)
    }

    fn msg_bytes(&self, sender: u64, m: &Msg) -> Vec<u8> {
        let key = RecordKey::from(vec![250u8, 1, 2]);
        let payload: Vec<u8> = match m {
            Msg::FindNode(ps) => {
                if ps.is_empty() {
                    // an empty closer_peers list of a response, a plain request otherwise alike
                    KademliaMessage::find_node_response(key.to_vec(), Vec::new())
                } else {
                    KademliaMessage::find_node_response(key.to_vec(), ps.iter().map(|p| self.kad_peer(*p)).collect())
                }
            }
            Msg::PutValue => KademliaMessage::put_value_response(key, vec![1]).to_vec(),
            Msg::GetRecord { haskey: _, flag, id, peers } => KademliaMessage::get_value_response(
                key.clone(),
                peers.iter().map(|p| self.kad_peer(*p)).collect(),
                if *flag == 0 {
                    None
                } else {
                    Some(Record { key, value: vec![*id as u8, 1, 2], publisher: None, expires: None })
                },
            ),
            Msg::AddProvider(valid) => {
                let who = if *valid { self.peer(sender) } else { mk_peer(424_242) };
                KademliaMessage::add_provider(key, ContentProvider { peer: who, addresses: vec![self.addrs[0].clone()] })
                    .to_vec()
            }
            Msg::GetProviders { haskey, provs, peers } => {
                if *haskey && provs.is_empty() && peers.is_empty() {
                    KademliaMessage::get_providers_request(key).to_vec()
                } else {
                    KademliaMessage::get_providers_response(
                        provs
                            .iter()
                            .map(|(p, a)| ContentProvider {
                                peer: self.peer(*p),
                                addresses: a.iter().map(|x| self.addrs[*x as usize % NADDR].clone()).collect(),
                            })
                            .collect(),
                        &peers.iter().map(|p| self.kad_peer(*p)).collect::<Vec<_>>(),
                    )
                }
            }
            Msg::Invalid => vec![0xff, 0xff, 0xff, 0xff, 0x0f, 0x01],
        };
        varint_frame(&payload)
    }

    /// A request of a remote peer about the record key with label `rk`.
    fn req_bytes(&self, sender: u64, rq: &Req) -> Vec<u8> {
        let _ = sender;
        let payload: Vec<u8> = match rq {
            Req::FindNode(rk) => KademliaMessage::find_node(Self::key_of(*rk).to_vec()).to_vec(),
            Req::PutValue { rk, len, publ, ttl } => {
                let kb = Self::key_of(*rk).to_vec();
                SchemaMessage {
                    r#type: 0,
                    cluster_level_raw: 10,
                    key: kb.clone(),
                    record: Some(SchemaRecord {
                        key: kb,
                        value: vec![LOCAL_REC; *len as usize],
                        time_received: String::new(),
                        publisher: if *publ == 255 {
                            vec![1, 2, 3]
                        } else {
                            self.publisher_of(*publ).map(|p| p.to_bytes()).unwrap_or_default()
                        },
                        ttl: (*ttl * TICK_MS / 1000) as u32,
                    }),
                    closer_peers: vec![],
                    provider_peers: vec![],
                }
                .encode_to_vec()
            }
            Req::GetValue(rk) => KademliaMessage::get_record(Self::key_of(*rk)).to_vec(),
            Req::GetProviders(rk) => KademliaMessage::get_providers_request(Self::key_of(*rk)).to_vec(),
            Req::AddProvider { rk, provs } => SchemaMessage {
                r#type: 2,
                cluster_level_raw: 10,
                key: Self::key_of(*rk).to_vec(),
                record: None,
                closer_peers: vec![],
                provider_peers: provs
                    .iter()
                    .map(|(p, na, valid)| SchemaPeer {
                        id: if *valid == 0 { vec![9, 9, 9] } else { self.peer(*p).to_bytes() },
                        addrs: self.addrs.iter().take(*na as usize).map(|a| a.to_vec()).collect(),
                        connection: if *valid == 2 { 77 } else { 1 },
                    })
                    .collect(),
            }
            .encode_to_vec(),
        };
        varint_frame(&payload)
    }

    /// The reply the node wrote to inbound substream `id`: (a record is attached, the closer peers, the
    /// providers with the number of their addresses).
    fn take_reply(&self, id: u64) -> Option<(bool, Vec<u64>, Vec<(u64, u64)>)> {
        let bytes = self.carriers.get(&id)?.take_written();
        // unsigned-varint length prefix
        let mut i = 0;
        while i < bytes.len() && bytes[i] & 0x80 != 0 {
            i += 1;
        }
        if i >= bytes.len() {
            return None;
        }
        let body = bytes::BytesMut::from(&bytes[i + 1..]);
        let labels = |ps: &Vec<KademliaPeer>| ps.iter().map(|p| self.idx(&p.verif_peer())).collect::<Vec<u64>>();
        match KademliaMessage::from_bytes(body, 64)? {
            KademliaMessage::FindNode { peers, .. } => Some((false, labels(&peers), Vec::new())),
            KademliaMessage::GetRecord { record, peers, .. } => Some((record.is_some(), labels(&peers), Vec::new())),
            KademliaMessage::GetProviders { peers, providers, .. } => Some((
                false,
                labels(&peers),
                providers.iter().map(|p| (self.idx(&p.verif_peer()), p.addresses().len() as u64)).collect(),
            )),
            _ => None,
        }
    }

    fn quorum(qtag: u64, qn: u64) -> Quorum {
        match qtag {
            0 => Quorum::All,
            1 => Quorum::One,
            _ => Quorum::N(NonZeroUsize::new(qn.max(1) as usize).unwrap()),
        }
    }

    fn fkind_of_action(kind: u8) -> FKind {
        match kind {
            0 => FKind::ReqResp,
            1 => FKind::ReqEat,
            _ => FKind::Send,
        }
    }

    fn dump_action(&mut self, p: u64, sid: u64) -> Option<u8> {
        let peer = self.peer(p);
        let found = self
            .dump
            .peers
            .iter()
            .find(|(x, _)| *x == peer)
            .and_then(|(_, acts)| acts.iter().find(|(s, _, _)| *s as u64 == sid).map(|(_, k, q)| (*k, *q)));
        if let Some((_, q)) = found {
            self.fut_query.insert(sid, q);
        }
        found.map(|(k, _)| k)
    }

    /// Injects one event, polls the loop once, returns the events to write into the case (the
    /// event with its oracle fields filled in, then one `3 q` per served query) and appends the
    /// group (ok flag, outputs, dump) to the trace.
    async fn apply(&mut self, e: &Ev, trace: &mut Vec<u64>) -> Vec<Vec<u64>> {
        let mut e = e.clone();
        let before_len = self.dump.executor_len;
        #[allow(unused_assignments)]
        let mut real_q: Option<usize> = None;
        let mut touched: Option<u64> = None;
        // bounded channel: does this event make the loop run a handler?
        let mut expect = true;
        // select! iterations this event causes (get_record with a local record = store_record + get_record)
        let mut iterations = 1usize;
        let mut refresh_label: Option<u64> = None;
        let mut want_reply: Option<u64> = None;
        let mut applied: Option<(u64, u64, bool)> = None;
        let mut fire_wait: Option<u64> = None;
        let mut post_advance: Option<u64> = None;
        self.replies.clear();
        match &e {
            Ev::Cmd { q, ctag, qtag, qn, local, .. } => {
                let quorum = Self::quorum(*qtag, *qn);
                let key = Self::key_of(*q);
                let r = match ctag {
                    0 => self.handle.try_find_node(mk_peer(1_000 + q)).ok(),
                    1 => self
                        .handle
                        .try_put_record(Record { key, value: vec![9], publisher: None, expires: None }, quorum)
                        .ok(),
                    2 => {
                        self.provided.push((*q, self.now_ms + REFRESH_MS, *qtag, *qn));
                        self.handle.start_providing(key, quorum).now_or_never()
                    }
                    5 => {
                        // the store's refresh timer of an earlier start_providing fires
                        let now = self.now_ms;
                        if let Some(entry) = self.provided.iter_mut().find(|x| x.0 + 1 == *local) {
                            let wait = entry.1.saturating_sub(now) + 1;
                            entry.1 = now + wait + REFRESH_MS;
                            tokio::time::advance(Duration::from_millis(wait)).await;
                            self.now_ms += wait;
                            refresh_label = Some(*q);
                        } else {
                            expect = false;
                        }
                        None
                    }
                    3 => {
                        if *local != 0 {
                            iterations = 2;
                            let _ = self.handle.try_store_record(Record {
                                key: key.clone(),
                                value: vec![LOCAL_REC],
                                publisher: None,
                                expires: None,
                            });
                        }
                        self.handle.try_get_record(key, quorum).ok()
                    }
                    _ => self.handle.get_providers(key).now_or_never(),
                };
                if let Some(r) = r {
                    self.qmap.insert(r.0, *q);
                    real_q = Some(r.0);
                }
            }
            Ev::PutToPeers { q, qtag, qn, peers } => {
                let r = self
                    .handle
                    .try_put_record_to_peers(
                        Record { key: Self::key_of(*q), value: vec![9], publisher: None, expires: None },
                        peers.iter().map(|p| if *p == LOCAL { mk_peer(500) } else { self.peer(*p) }).collect(),
                        false,
                        Self::quorum(*qtag, *qn),
                    )
                    .ok();
                if let Some(r) = r {
                    self.qmap.insert(r.0, *q);
                    real_q = Some(r.0);
                }
            }
            Ev::UCmd { q, uc, qtag, qn, rk, len, expc } => {
                let quorum = Self::quorum(*qtag, *qn);
                let r = match uc {
                    0 => self.handle.try_find_node(mk_peer(1_000 + q)).ok(),
                    1 => self.handle.try_put_record(self.user_record(*rk, *len, 0, *expc), quorum).ok(),
                    2 => {
                        // put_local_provider arms a refresh future of the store; no two futures have deadlines
                        // within three ticks of each other (they are taken one at a time)
                        if self.timers.iter().any(|t| t.1.abs_diff(self.now_ms + REFRESH_MS) < 3 * TICK_MS) {
                            // the command is not issued
                            return Vec::new();
                        }
                        self.prov.insert(*rk, (*qtag, *qn));
                        self.timers.push((*rk, self.now_ms + REFRESH_MS));
                        self.handle.start_providing(Self::key_of(*rk), quorum).now_or_never()
                    }
                    3 => self.handle.try_get_record(Self::key_of(*rk), quorum).ok(),
                    _ => self.handle.get_providers(Self::key_of(*rk)).now_or_never(),
                };
                if let Some(r) = r {
                    self.qmap.insert(r.0, *q);
                    real_q = Some(r.0);
                }
            }
            Ev::UPutToPeers { q, qtag, qn, rk, len, publ, expc, upd, given } => {
                let r = self
                    .handle
                    .try_put_record_to_peers(
                        self.user_record(*rk, *len, *publ, *expc),
                        given.iter().map(|p| self.peer(*p)).collect(),
                        *upd,
                        Self::quorum(*qtag, *qn),
                    )
                    .ok();
                if let Some(r) = r {
                    self.qmap.insert(r.0, *q);
                    real_q = Some(r.0);
                }
            }
            Ev::UStop(rk) => {
                self.prov.remove(rk);
                let _ = self.handle.stop_providing(Self::key_of(*rk)).now_or_never();
            }
            Ev::UFire { q, rk, .. } => {
                // the earliest refresh future of the store completes (only that one: deadlines are kept apart)
                let first = self.timers.iter().enumerate().min_by_key(|(_, t)| t.1).map(|(i, t)| (i, *t));
                match first {
                    Some((i, (key, deadline))) if key == *rk && self.inflight.is_empty() => {
                        self.timers.remove(i);
                        // every other future is due at least 3 ticks later
                        let at = deadline.max(self.now_ms) + TICK_MS;
                        let wait = (at - self.now_ms) / TICK_MS;
                        self.pass_time(wait).await;
                        fire_wait = Some(wait);
                        if self.prov.contains_key(rk) {
                            self.timers.push((*rk, self.now_ms + REFRESH_MS));
                            refresh_label = Some(*q);
                        }
                    }
                    _ => return Vec::new(),
                }
            }
            Ev::UAge(d) => {
                // explicit time passing: no future in flight (executor timeouts), no refresh future due
                let ok = self.inflight.is_empty()
                    && *d > 0
                    && !self.timers.iter().any(|t| t.1 <= self.now_ms + (*d + 3) * TICK_MS);
                if !ok {
                    return Vec::new();
                }
                self.probe.request_store_age(Duration::from_millis(*d * TICK_MS));
                let _ = self.handle.stop_providing(RecordKey::from(vec![252u8, 9])).now_or_never();
                post_advance = Some(*d);
            }
            Ev::InReq { id, rq } => {
                expect = false;
                let live = self.carriers.get(id).map(|c| c.awaited()).unwrap_or(false);
                if let (Some(c), Some(FKind::InRead), true) = (self.carriers.get(id).cloned(), self.inflight.get(id).copied(), live) {
                    expect = true;
                    let sender = self.sub_peer.get(id).copied().unwrap_or(0);
                    c.set(None, Some(self.req_bytes(sender, rq)), false);
                    self.inflight.remove(id);
                    let reply = match rq {
                        Req::FindNode(_) | Req::GetValue(_) | Req::GetProviders(_) => Some(FKind::InSend),
                        Req::PutValue { publ: 255, .. } => None,
                        Req::PutValue { .. } => Some(FKind::InSendEat),
                        Req::AddProvider { .. } => None,
                    };
                    if let Some(k) = reply {
                        self.inflight.insert(*id, k);
                        touched = Some(*id);
                        if k == FKind::InSend {
                            want_reply = Some(*id);
                        }
                    }
                }
            }
            Ev::UStore { rk, len, publ, expc } => {
                let _ = self.handle.try_store_record(self.user_record(*rk, *len, *publ, *expc));
            }
            Ev::UAddKnown(p, addr) => {
                let addrs = if *addr { vec![self.peer_addr(*p % 200)] } else { vec![] };
                let _ = self.handle.try_add_known_peer(self.peer(*p), addrs);
            }
            Ev::Nop => {
                let _ = self.handle.try_store_record(Record {
                    key: RecordKey::from(vec![251u8, 1]),
                    value: vec![1],
                    publisher: None,
                    expires: None,
                });
            }
            Ev::Established(p, alive) => {
                expect = !self.conns.contains_key(p);
                if !self.conns.contains_key(p) {
                    let cid = self.next_cid;
                    self.next_cid += 1;
                    if let Some(mut c) = self.input.connection_established(self.peer(*p), cid, self.peer_addr(*p % 200), 256) {
                        if !*alive {
                            c.kill();
                        }
                        self.conns.insert(*p, c);
                    }
                }
            }
            Ev::Closed(p) => {
                expect = self.conns.contains_key(p);
                if let Some(c) = self.conns.remove(p) {
                    self.input.connection_closed(self.peer(*p), &c);
                }
            }
            Ev::Kill(p) => {
                expect = false;
                if let Some(c) = self.conns.get_mut(p) {
                    c.kill();
                }
            }
            Ev::Mgr(p, v) => {
                expect = false;
                if (*p as usize) < self.peers.len() && *v <= 3 {
                    self.manager.verif_force_peer(self.peer(*p), *v as usize, self.peer_addr(*p));
                }
            }
            Ev::Opened(p, sid) => {
                let carrier = Carrier::default();
                self.carriers.insert(*sid, carrier.clone());
                self.sub_peer.insert(*sid, *p);
                let kind = self.dump_action(*p, *sid);
                let conn = self.conns.get(p).unwrap_or(&self.dummy);
                self.input.substream_opened(self.peer(*p), Some(*sid as usize), *sid as usize, Box::new(carrier), conn);
                if let Some(kind) = kind {
                    self.inflight.insert(*sid, Self::fkind_of_action(kind));
                    touched = Some(*sid);
                }
            }
            Ev::OpenFail(sid) => {
                self.input.substream_open_failure(*sid as usize);
            }
            Ev::DialFail(p) => {
                self.input.dial_failure(self.peer(*p), vec![self.peer_addr(*p % 200)]);
            }
            Ev::Inbound(p, id) => {
                expect = !self.carriers.contains_key(id);
                if !self.carriers.contains_key(id) {
                    let carrier = Carrier::default();
                    // the reply is taken (and kept for comparison) but not flushed until the environment says so
                    carrier.set(Some(3), None, false);
                    self.carriers.insert(*id, carrier.clone());
                    self.sub_peer.insert(*id, *p);
                    let conn = self.conns.get(p).unwrap_or(&self.dummy);
                    self.input.substream_opened(self.peer(*p), None, *id as usize, Box::new(carrier), conn);
                    self.inflight.insert(*id, FKind::InRead);
                }
            }
            Ev::Recv => {
                expect = false;
                let waker = futures::task::noop_waker();
                let mut cx = Context::from_waker(&waker);
                match Pin::new(&mut self.handle).poll_next(&mut cx) {
                    Poll::Ready(Some(ev)) => {
                        self.recv_buf.push(ev);
                        self.last_recv_none = false;
                    }
                    _ => self.last_recv_none = true,
                }
            }
            Ev::Fut { id, wb, rb, msg, .. } => {
                expect = false;
                let live = self.carriers.get(id).map(|c| c.awaited()).unwrap_or(false);
                if let (Some(c), Some(kind), true) = (self.carriers.get(id).cloned(), self.inflight.get(id).copied(), live || self.cap == 0) {
                    let sender = self.sub_peer.get(id).copied().unwrap_or(0);
                    // a timeout can be played only when no other future would time out with it
                    let sole = self.inflight.len() == 1
                        && !self.timers.iter().any(|t| t.1 <= self.now_ms + 2 * TIMEOUT_MS)
                        && !self.provided.iter().any(|t| t.1 <= self.now_ms + 2 * TIMEOUT_MS);
                    let (mut wb, mut rb) = (*wb, *rb);
                    if rb == 0 && msg.is_none() {
                        rb = 1;
                    }
                    let mut timed = false;
                    expect = true;
                    let writes = kind != FKind::InRead;
                    if writes {
                        match wb {
                            0 => c.set(Some(1), None, false),
                            2 if sole => {
                                self.pass_time(TMO_TICKS).await;
                                timed = true;
                            }
                            _ => {
                                wb = 1;
                                c.set(Some(2), None, false)
                            }
                        }
                    }
                    let reads = kind == FKind::InRead || (matches!(kind, FKind::ReqResp | FKind::ReqEat) && wb == 0);
                    if reads {
                        match rb {
                            0 => c.set(None, Some(self.msg_bytes(sender, msg.as_ref().unwrap())), false),
                            2 if sole => {
                                // the request goes out (outbound futures), the answer never comes
                                self.poll();
                                self.pass_time(TMO_TICKS).await;
                                timed = true;
                            }
                            _ => {
                                rb = 1;
                                c.set(None, None, true)
                            }
                        }
                    }
                    applied = Some((wb, rb, timed));
                    self.inflight.remove(id);
                    // the reply future of an inbound request reuses the substream
                    if kind == FKind::InRead && rb == 0 {
                        let reply = match msg.as_ref().unwrap() {
                            Msg::FindNode(_) => Some(FKind::InSend),
                            Msg::PutValue => Some(FKind::InSendEat),
                            Msg::GetRecord { haskey: true, .. } => Some(FKind::InSend),
                            Msg::GetProviders { haskey: true, .. } => Some(FKind::InSend),
                            _ => None,
                        };
                        if let Some(k) = reply {
                            self.inflight.insert(*id, k);
                            touched = Some(*id);
                        }
                    }
                }
            }
        }
        if let (Ev::Fut { wb, rb, tmo, .. }, Some((w, r, t))) = (&mut e, applied) {
            *wb = w;
            *rb = r;
            *tmo = t;
        }
        if let (Ev::UFire { wait, .. }, Some(w)) = (&mut e, fire_wait) {
            *wait = w;
        }
        self.poll();
        if let Some(d) = post_advance {
            tokio::time::advance(Duration::from_millis(d * TICK_MS)).await;
            self.now_ms += d * TICK_MS;
        }
        if let Some(id) = want_reply {
            if let Some(r) = self.take_reply(id) {
                self.replies.push(r);
            }
        }
        if let Some(label) = refresh_label {
            // the internal query id drawn from the shared counter: the one the loop reports and the
            // harness has not seen yet
            let entries = self.probe.take();
            let mut fresh: Vec<usize> = Vec::new();
            for en in &entries {
                match en {
                    VerifProbeEntry::Action { query, .. } => fresh.push(*query),
                    VerifProbeEntry::AtSelect(d) => fresh.extend(d.queries.iter().map(|x| x.query.0)),
                }
            }
            fresh.retain(|r| !self.qmap.contains_key(r));
            if let Some(r) = fresh.iter().min() {
                self.qmap.insert(*r, label);
                real_q = Some(*r);
            }
            self.probe_back = entries;
        }
        self.collect(&mut e, real_q, before_len, touched, if expect { iterations } else { 0 }, trace)
    }

    fn collect(
        &mut self,
        e: &mut Ev,
        real_q: Option<usize>,
        before_len: usize,
        touched: Option<u64>,
        expect: usize,
        trace: &mut Vec<u64>,
    ) -> Vec<Vec<u64>> {
        let mut entries = std::mem::take(&mut self.probe_back);
        entries.extend(self.probe.take());
        let saw_select = matches!(entries.last(), Some(VerifProbeEntry::AtSelect(_)));
        let events = if self.cap == 0 { self.drain_events() } else { std::mem::take(&mut self.recv_buf) };
        if self.cap > 0 {
            let selects = entries.iter().filter(|x| matches!(x, VerifProbeEntry::AtSelect(_))).count();
            self.parked = if expect > 0 { selects < expect } else { self.parked && !saw_select };
        }
        for c in self.conns.values_mut() {
            c.take_open_requests();
        }
        let mut actions: Vec<(u8, usize, Vec<PeerId>)> = Vec::new();
        for en in entries {
            match en {
                VerifProbeEntry::Action { kind, query, peers } => actions.push((kind, query, peers)),
                VerifProbeEntry::AtSelect(d) => self.dump = d,
            }
        }
        // a future the harness expected but the loop did not create
        if let (Some(id), true) = (touched, saw_select || self.cap == 0) {
            let grew = match e {
                Ev::Opened(..) => self.dump.executor_len > before_len,
                _ => self.dump.executor_len >= before_len,
            };
            if !grew {
                self.inflight.remove(&id);
            }
        }
        // oracle fields
        match e {
            Ev::Cmd { q, ctag, local, dists, seeds, .. } => {
                *dists = if *ctag == 5 { self.dists(local.saturating_sub(1), 2) } else { self.dists(*q, *ctag) };
                let mut s: Vec<u64> = Vec::new();
                if let Some(r) = real_q {
                    if let Some(st) = self.dump.queries.iter().find(|x| x.query.0 == r) {
                        if let Some(l) = &st.lookup {
                            for p in l.candidates.iter().chain(l.pending.iter()).chain(l.queried.iter()) {
                                s.push(self.idx(p));
                            }
                        }
                    }
                    for (kind, query, peers) in &actions {
                        if *kind == 0 && *query == r {
                            s.extend(peers.iter().map(|p| self.idx(p)));
                        }
                    }
                }
                s.sort();
                s.dedup();
                *seeds = s;
            }
            Ev::PutToPeers { peers, .. } => {
                if let Some(r) = real_q {
                    if let Some((_, _, ps)) = actions.iter().find(|(kind, query, _)| *kind == 2 && *query == r) {
                        *peers = ps.iter().map(|p| self.idx(p)).collect();
                    }
                }
            }
            _ => {}
        }
        // outputs: what the handler emitted, then what each served action emitted
        let emitting = |k: u8| matches!(k, 1 | 3 | 5 | 6 | 7 | 8 | 9);
        let m = actions.iter().filter(|(k, _, _)| emitting(*k)).count().min(events.len());
        let split = events.len() - m;
        let mut outs: Vec<Vec<u64>> = events[..split].iter().map(|ev| self.enc_event(ev)).collect();
        let mut rest = events[split..].iter();
        let mut serves = Vec::new();
        // zero peer timeout: time passes before every next_action call
        let stale = self.mode & 2 != 0;
        for (kind, query, peers) in &actions {
            if stale {
                serves.push(vec![18, 1]);
            }
            serves.push(vec![3, self.qlabel(*query)]);
            if *kind == 2 || *kind == 4 {
                let mut o = vec![10, self.qlabel(*query)];
                push_list(&mut o, &peers.iter().map(|p| self.idx(p)).collect::<Vec<_>>());
                outs.push(o);
            } else if emitting(*kind) {
                if let Some(ev) = rest.next() {
                    outs.push(self.enc_event(ev));
                }
            }
        }
        if self.cap == 0 {
            trace.push(1);
            trace.push(outs.len() as u64);
            for o in outs {
                trace.extend(o);
            }
            self.enc_dump(trace);
            if self.mode & 1 == 1 {
                self.enc_rt_store(trace);
            }
        } else {
            // bounded channel: what the user received; the snapshot only when the loop waits in select!
            trace.push(1);
            trace.push(self.parked as u64);
            trace.push(events.len() as u64);
            for ev in &events {
                trace.extend(self.enc_event(ev));
            }
            if !self.parked {
                self.enc_dump(trace);
            }
        }
        if stale {
            serves.push(vec![18, 1]);
        }
        let mut out = vec![e.encode()];
        out.extend(serves);
        out
    }

    fn enc_event(&self, ev: &KademliaEvent) -> Vec<u64> {
        match ev {
            KademliaEvent::FindNodeSuccess { query_id, peers, .. } => {
                let mut o = vec![0, self.qlabel(query_id.0)];
                push_list(&mut o, &peers.iter().map(|(p, _)| self.idx(p)).collect::<Vec<_>>());
                o
            }
            KademliaEvent::PutRecordSuccess { query_id, .. } => vec![1, self.qlabel(query_id.0)],
            KademliaEvent::AddProviderSuccess { query_id, .. } => vec![2, self.qlabel(query_id.0)],
            KademliaEvent::GetRecordSuccess { query_id } => vec![3, self.qlabel(query_id.0)],
            KademliaEvent::GetProvidersSuccess { query_id, providers, .. } => {
                let mut o = vec![4, self.qlabel(query_id.0), providers.len() as u64];
                for p in providers {
                    let mut a: Vec<u64> = p
                        .addresses
                        .iter()
                        .map(|x| self.addrs.iter().position(|y| y == x).unwrap_or(99) as u64)
                        .collect();
                    a.sort();
                    o.push(self.idx(&p.peer));
                    push_list(&mut o, &a);
                }
                o
            }
            KademliaEvent::QueryFailed { query_id } => vec![5, self.qlabel(query_id.0)],
            KademliaEvent::GetRecordPartialResult { query_id, record } => vec![
                6,
                self.qlabel(query_id.0),
                self.idx(&record.peer),
                record.record.value.first().copied().unwrap_or(0) as u64,
            ],
            KademliaEvent::RoutingTableUpdate { peers } => {
                let mut o = vec![7];
                push_list(&mut o, &peers.iter().map(|p| self.idx(p)).collect::<Vec<_>>());
                o
            }
            KademliaEvent::IncomingRecord { .. } => vec![8],
            KademliaEvent::IncomingProvider { .. } => vec![9],
        }
    }

    fn enc_dump(&self, out: &mut Vec<u64>) {
        let d = &self.dump;
        let mut dials: Vec<(u64, Vec<u64>)> = d
            .pending_dials
            .iter()
            .map(|(p, acts)| {
                let mut v = vec![acts.len() as u64];
                for (k, q) in acts {
                    v.extend([*k as u64, self.qlabel(*q)]);
                }
                (self.idx(p), v)
            })
            .collect();
        dials.sort();
        out.push(dials.len() as u64);
        for (p, v) in dials {
            out.push(p);
            out.extend(v);
        }
        let mut peers: Vec<(u64, Vec<u64>)> = d
            .peers
            .iter()
            .map(|(p, acts)| {
                let mut acts: Vec<(u64, u64, u64)> =
                    acts.iter().map(|(s, k, q)| (*s as u64, *k as u64, self.qlabel(*q))).collect();
                acts.sort();
                let mut v = vec![acts.len() as u64];
                for (s, k, q) in acts {
                    v.extend([s, k, q]);
                }
                (self.idx(p), v)
            })
            .collect();
        peers.sort();
        out.push(peers.len() as u64);
        for (p, v) in peers {
            out.push(p);
            out.extend(v);
        }
        let mut subs: Vec<(u64, u64)> = d.pending_substreams.iter().map(|(s, p)| (*s as u64, self.idx(p))).collect();
        subs.sort();
        out.push(subs.len() as u64);
        for (s, p) in subs {
            out.extend([s, p]);
        }
        out.push(d.executor_len as u64);
        let mut qs: Vec<(u64, Vec<u64>)> = d
            .queries
            .iter()
            .map(|x| {
                let mut v = vec![x.tag as u64];
                let sorted = |l: &Vec<PeerId>| {
                    let mut v: Vec<u64> = l.iter().map(|p| self.idx(p)).collect();
                    v.sort();
                    v
                };
                let plain = |l: &Vec<PeerId>| l.iter().map(|p| self.idx(p)).collect::<Vec<u64>>();
                match x.tag {
                    2 => {}
                    3 | 6 => {
                        let (pending, n, need) = x.tracking.clone().unwrap_or_default();
                        push_list(&mut v, &sorted(&pending));
                        v.extend([n as u64, need as u64]);
                    }
                    _ => {
                        let l = x.lookup.clone().unwrap_or_default();
                        push_list(&mut v, &plain(&l.candidates));
                        push_list(&mut v, &sorted(&l.pending));
                        push_list(&mut v, &sorted(&l.queried));
                        push_list(&mut v, &plain(&l.responses));
                        v.push(l.found_records as u64);
                        push_list(&mut v, &plain(&l.queued_records));
                        push_list(&mut v, &plain(&l.found_providers));
                    }
                }
                (self.qlabel(x.query.0), v)
            })
            .collect();
        qs.sort();
        out.push(qs.len() as u64);
        for (q, v) in qs {
            out.push(q);
            out.extend(v);
        }
    }

    /// composed mode: the routing table (non-empty buckets) and the keys of the local store
    fn enc_rt_store(&self, out: &mut Vec<u64>) {
        let d = &self.dump;
        out.push(d.routing_table.len() as u64);
        for (index, nodes) in &d.routing_table {
            out.push(*index as u64);
            out.push(nodes.len() as u64);
            for node in nodes {
                // connection as the C16 model numbers it: NotConnected 0, Connected 1, CanConnect 2, CannotConnect 3
                use litep2p::protocol::libp2p::kademlia::verif::ConnectionType as Ct;
                let conn = match node.connection {
                    Ct::NotConnected => 0u64,
                    Ct::Connected => 1,
                    Ct::CanConnect => 2,
                    Ct::CannotConnect => 3,
                };
                out.extend([self.idx(&node.peer), node.has_addresses as u64, conn]);
            }
        }
        enc_store_dump(&d.store, &|p| self.idx(p), out);
        out.push(self.replies.len() as u64);
        for (found, peers, provs) in &self.replies {
            out.push(*found as u64);
            push_list(out, peers);
            out.push(provs.len() as u64);
            for (p, na) in provs {
                out.extend([*p, *na]);
            }
        }
    }

    fn live_futs(&self) -> Vec<(u64, FKind)> {
        self.inflight
            .iter()
            .filter(|(id, _)| self.cap == 0 || self.carriers.get(*id).map(|c| c.awaited()).unwrap_or(false))
            .map(|(a, b)| (*a, *b))
            .collect()
    }

    // ---- what the environment still owes, read from the last snapshot ----
    fn owed_dials(&self) -> Vec<u64> {
        let mut v: Vec<u64> =
            self.dump.pending_dials.iter().filter(|(_, a)| !a.is_empty()).map(|(p, _)| self.idx(p)).collect();
        v.sort();
        v
    }
    fn owed_subs(&self) -> Vec<(u64, u64)> {
        let mut v: Vec<(u64, u64)> = Vec::new();
        for (p, acts) in &self.dump.peers {
            for (s, _, _) in acts {
                v.push((*s as u64, self.idx(p)));
            }
        }
        v.sort();
        v
    }
}

// ------------------------------------------------------------------ running cases

/// Label of a record key of the cases.
fn key_label(k: &[u8]) -> u64 {
    match k {
        [a, b, 7, 7] => *a as u64 + 256 * *b as u64,
        [250, 1, 2] => 250,
        _ => 999,
    }
}

/// publisher code of a record: 0 none, 1 the local peer, p + 2 peer p
fn publisher_code(p: &Option<PeerId>, idx: &dyn Fn(&PeerId) -> u64) -> u64 {
    match p {
        None => 0,
        Some(p) if *p == mk_peer(500) => 1,
        Some(p) => match idx(p) {
            UNKNOWN => 999,
            i => i + 2,
        },
    }
}

/// The store of the loop as coq/C16/Glue.v `dump_store` writes it.
fn enc_store_dump(st: &VerifStoreDump, idx: &dyn Fn(&PeerId) -> u64, out: &mut Vec<u64>) {
    // the store: records, provider records per key in stored order, local_providers, refresh futures
    let now = Instant::now();
    let ticks = |d: Duration| (d.as_millis() as u64 + TICK_MS / 2) / TICK_MS;
    let rel = |exp: Option<Instant>| -> [u64; 2] {
        match exp {
            None => [2, 0],
            Some(t) if t <= now => [0, ticks(now - t)],
            Some(t) => [1, ticks(t - now)],
        }
    };
    let mut recs: Vec<[u64; 5]> = st
        .records
        .iter()
        .map(|r| {
            let e = rel(r.expires);
            [
                key_label(r.key.as_ref()),
                r.value.first().copied().unwrap_or(0) as u64 + 256 * publisher_code(&r.publisher, idx),
                r.value.len() as u64,
                e[0],
                e[1],
            ]
        })
        .collect();
    recs.sort();
    out.push(recs.len() as u64);
    for r in recs {
        out.extend(r);
    }
    let mut pk: Vec<(u64, Vec<u64>)> = st
        .provider_keys
        .iter()
        .map(|(k, ps)| {
            let mut v = vec![ps.len() as u64];
            for p in ps {
                let e = rel(Some(p.expires));
                v.extend([idx(&p.provider), p.addresses.len() as u64, e[0], e[1]]);
            }
            (key_label(k.as_ref()), v)
        })
        .collect();
    pk.sort();
    out.push(pk.len() as u64);
    for (k, v) in pk {
        out.push(k);
        out.extend(v);
    }
    let mut qs: Vec<[u64; 2]> = st
        .local_providers
        .iter()
        .map(|(k, p, q)| {
            let okp = p.peer == mk_peer(500) && p.addresses.is_empty();
            let code = match q {
                Quorum::All => 0,
                Quorum::One => 1,
                Quorum::N(n) => n.get() as u64 + 1,
            };
            [key_label(k.as_ref()), if okp { code } else { 777_777 }]
        })
        .collect();
    qs.sort();
    out.push(qs.len() as u64);
    for x in qs {
        out.extend(x);
    }
    out.push(st.pending_refresh as u64);
}

fn runtime() -> tokio::runtime::Runtime {
    tokio::runtime::Builder::new_current_thread().enable_time().start_paused(true).build().unwrap()
}

/// Replays the select! events of a stored case; returns the case with fresh oracle fields and
/// the trace.
fn run_stored(c: &[u64]) -> Option<(Vec<u64>, Vec<u64>)> {
    if c.first() == Some(&handle_stream::HANDLE_TAG) {
        return handle_stream::run_stored(c);
    }
    let (h, evs) = decode_case(c)?;
    let rt = runtime();
    // unconstrained: tokio's cooperative budget would make channel polls return Pending spuriously
    // in a task that never yields, i.e. delay events of long histories
    rt.block_on(tokio::task::unconstrained(async {
        let mut s = Sys::new(&h)?;
        let mut trace = vec![if h.mode & 1 == 1 { 3u64 } else if h.cap == 0 { 1u64 } else { 2u64 }];
        let mut events = Vec::new();
        for e in &evs {
            events.extend(s.apply(e, &mut trace).await);
        }
        Some((encode_case(&h, &events), trace))
    }))
}

/// The behaviour of the substream that makes a future of this kind end with `res`
/// (`how` 1: by the executor timeout instead of an error).
fn fut_ev(id: u64, kind: Option<FKind>, res: Res, how: u64) -> Ev {
    let t = if how == 1 { 2 } else { 1 };
    let (wb, rb, msg) = match res {
        Res::SendOk => (0, 1, None),
        Res::SendFail => (t, 1, None),
        Res::Assume if kind == Some(FKind::InSendEat) => (t, 1, None),
        Res::Assume | Res::ReadFail => (0, t, None),
        Res::Read(m) => (0, 0, Some(m)),
    };
    Ev::Fut { id, wb, rb, msg, tmo: false }
}

struct Gen {
    rng: Rng,
    n: u64,
    k: u64,
    next_q: u64,
    next_inbound: u64,
    /// substream ids the environment has already answered (each is answered once)
    answered: Vec<u64>,
    dial_answered: Vec<u64>,
}

impl Gen {
    fn peers_list(&mut self, max: u64, allow_odd: bool) -> Vec<u64> {
        let len = self.rng.below(max + 1).min(self.k);
        (0..len)
            .map(|_| {
                if allow_odd && self.rng.chance(8) {
                    *[LOCAL, 7 + self.n.min(2)].get(self.rng.below(2) as usize).unwrap()
                } else {
                    self.rng.below(self.n)
                }
            })
            .collect()
    }

    fn reply_for(&mut self, kind: u8) -> Msg {
        // kind of the pending action decides what a well-behaved peer answers; the lookup kind
        // is not known here, so every message type is drawn (wrong types are failures)
        let _ = kind;
        match self.rng.below(10) {
            0..=3 => Msg::FindNode(self.peers_list(3, true)),
            4..=5 => {
                let flag = if self.rng.chance(60) { 1 } else { 0 };
                Msg::GetRecord { haskey: true, flag, id: self.rng.range(1, 5), peers: self.peers_list(3, true) }
            }
            6..=7 => {
                let np = self.rng.below(3);
                let provs = (0..np)
                    .map(|_| {
                        let na = self.rng.below(3);
                        (self.rng.below(self.n), (0..na).map(|_| self.rng.below(NADDR as u64)).collect())
                    })
                    .collect();
                Msg::GetProviders { haskey: false, provs, peers: self.peers_list(3, true) }
            }
            8 => Msg::PutValue,
            _ => {
                if self.rng.chance(50) {
                    Msg::Invalid
                } else {
                    Msg::AddProvider(self.rng.chance(50))
                }
            }
        }
    }

    /// The completion of a future; in composed mode a request read from an inbound substream is a
    /// request about a record key (label), so that the model computes the reply and the store effect.
    fn completion(&mut self, compose: bool, id: u64, kind: FKind, res: Res, how: u64, rks: &[u64], sender: u64) -> Ev {
        if compose && kind == FKind::InRead {
            if let Res::Read(m) = &res {
                let rk = if !rks.is_empty() && self.rng.chance(65) { self.rng.pick(rks) } else { 300 + self.rng.below(4) };
                // provider keys are few, so that announcements, lookups and the node's own keys meet
                let pk = 500 + self.rng.below(3);
                let rq = match m {
                    Msg::FindNode(_) => Some(Req::FindNode(rk)),
                    Msg::PutValue => Some(Req::PutValue {
                        rk,
                        len: self.rng.pick(&[1u64, 1, 2, 3, 4]),
                        publ: self.rng.pick(&[0u64, 0, 1, 2, 3, 255]),
                        ttl: self.rng.pick(&[0u64, 0, 1, 5, 200]),
                    }),
                    Msg::GetRecord { .. } => Some(Req::GetValue(rk)),
                    Msg::GetProviders { .. } => Some(Req::GetProviders(pk)),
                    Msg::AddProvider(v) => {
                        let na = self.rng.below(4);
                        let provs = if *v {
                            vec![(sender, na, 1)]
                        } else {
                            match self.rng.below(5) {
                                0 => vec![((sender + 1) % self.n, na, 1)],
                                1 => vec![(sender, na, 1), ((sender + 1) % self.n, 1, 1)],
                                2 => vec![],
                                3 => vec![(sender, na, 0)],
                                _ => vec![(sender, na, 2), ((sender + 1) % self.n, 1, 1)],
                            }
                        };
                        Some(Req::AddProvider { rk: pk, provs })
                    }
                    Msg::Invalid => None,
                };
                if let Some(rq) = rq {
                    return Ev::InReq { id, rq };
                }
            }
        }
        fut_ev(id, Some(kind), res, how)
    }

    /// A message fitting the query the future belongs to (tag of the query in the engine).
    fn fitting_reply(&mut self, qtag: Option<u8>) -> Msg {
        match qtag {
            Some(0 | 1 | 5) => Msg::FindNode(self.peers_list(3, true)),
            Some(4) => {
                let flag = if self.rng.chance(60) { 1 } else { 0 };
                Msg::GetRecord { haskey: true, flag, id: self.rng.range(1, 5), peers: self.peers_list(3, true) }
            }
            Some(7) => {
                let np = self.rng.below(3);
                let provs = (0..np)
                    .map(|_| {
                        let na = self.rng.below(3);
                        (self.rng.below(self.n), (0..na).map(|_| self.rng.below(NADDR as u64)).collect())
                    })
                    .collect();
                Msg::GetProviders { haskey: false, provs, peers: self.peers_list(3, true) }
            }
            Some(3) => Msg::PutValue,
            _ => self.reply_for(0),
        }
    }

    fn result_for(&mut self, kind: FKind, qtag: Option<u8>, happy: u64) -> Res {
        let good = self.rng.chance(happy);
        match kind {
            FKind::ReqResp => {
                if good {
                    Res::Read(self.fitting_reply(qtag))
                } else {
                    match self.rng.below(4) {
                        0 => Res::SendFail,
                        1 => Res::ReadFail,
                        2 => Res::Read(self.reply_for(0)),
                        _ => Res::Read(Msg::Invalid),
                    }
                }
            }
            FKind::ReqEat => {
                if good {
                    if self.rng.chance(50) {
                        Res::Read(Msg::PutValue)
                    } else {
                        Res::Assume
                    }
                } else if self.rng.chance(70) {
                    Res::SendFail
                } else {
                    Res::Read(self.reply_for(0))
                }
            }
            FKind::Send | FKind::InSend => {
                if good {
                    Res::SendOk
                } else {
                    Res::SendFail
                }
            }
            FKind::InSendEat => {
                if good {
                    Res::SendOk
                } else {
                    Res::Assume
                }
            }
            FKind::InRead => {
                if good {
                    match self.rng.below(6) {
                        0 => Res::Read(Msg::FindNode(vec![])),
                        1 => Res::Read(Msg::PutValue),
                        2 => Res::Read(Msg::GetRecord { haskey: true, flag: 0, id: 0, peers: vec![] }),
                        3 => Res::Read(Msg::GetProviders { haskey: true, provs: vec![], peers: vec![] }),
                        4 => Res::Read(Msg::AddProvider(self.rng.chance(60))),
                        _ => Res::Read(Msg::Invalid),
                    }
                } else {
                    Res::ReadFail
                }
            }
        }
    }
}

/// One adaptive run: a small network with faults, a few user operations, then (usually) the
/// environment discharges everything it still owes.
fn generate(seed: u64, tier_long: bool, cap: u64, compose: bool, stale: bool) -> Option<(Vec<u64>, Vec<u64>)> {
    let mut rng = Rng::new(seed);
    let n = if stale { rng.range(4, 7) } else { rng.range(2, 7) };
    let k = rng.pick(&[1u64, 2, 3, 20, 20, 20]);
    let mut mgr = Vec::new();
    let mut known = Vec::new();
    for p in 0..n {
        mgr.push((p, rng.pick(&[0u64, 1, 1, 1, 1, 2, 3])));
        if rng.chance(85) {
            known.push(p);
        }
    }
    // composed mode: one history in four with manual routing-table updates, one in four with manual
    // validation of incoming records
    let manual_rt = compose && rng.chance(25);
    let manual_val = compose && rng.chance(25);
    let mode = compose as u64 | (stale as u64) << 1 | (manual_rt as u64) << 2 | (manual_val as u64) << 3;
    let h = Header { k, mgr, known, cap, mode, pool: MAX_POOL };
    let mut g = Gen { rng, n, k, next_q: 0, next_inbound: INBOUND_BASE, answered: Vec::new(), dial_answered: Vec::new() };
    let rt = runtime();
    // unconstrained: tokio's cooperative budget would make channel polls return Pending spuriously
    // in a task that never yields, i.e. delay events of long histories
    rt.block_on(tokio::task::unconstrained(async {
        let mut s = Sys::new(&h)?;
        let mut trace = vec![if h.mode & 1 == 1 { 3u64 } else if h.cap == 0 { 1u64 } else { 2u64 }];
        let mut events: Vec<Vec<u64>> = Vec::new();
        let happy = g.rng.pick(&[30u64, 60, 60, 85, 100]);
        let max_cmds = g.rng.range(1, if tier_long { 5 } else { 3 });
        let steps = g.rng.range(8, if tier_long { 90 } else { 45 });
        // some connections exist before the first operation
        for p in 0..n {
            if g.rng.chance(30) {
                events.extend(s.apply(&Ev::Mgr(p, 2), &mut trace).await);
                events.extend(s.apply(&Ev::Established(p, true), &mut trace).await);
            }
        }
        let mut cmds = 0;
        let mut refreshes = 0;
        let mut rks: Vec<u64> = Vec::new();
        for _ in 0..steps {
            let dials = s.owed_dials();
            let subs: Vec<(u64, u64)> = s.owed_subs().into_iter().filter(|(sid, _)| !g.answered.contains(sid)).collect();
            let futs: Vec<(u64, FKind)> = s.live_futs();
            let live = !s.dump.queries.is_empty();
            let mut choices: Vec<u64> = Vec::new();
            if cmds < max_cmds {
                choices.extend(std::iter::repeat(0).take(if live { 1 } else { 6 }));
            }
            if !dials.is_empty() {
                choices.extend([1, 1, 1]);
            }
            if !subs.is_empty() {
                choices.extend([2, 2, 2, 2]);
            }
            if !futs.is_empty() {
                choices.extend([3, 3, 3, 3]);
            }
            let refresh_possible = if compose { !s.timers.is_empty() } else { s.provided.len() == 1 };
            if refresh_possible && futs.is_empty() && refreshes < if compose { 3 } else { 2 } && !s.parked {
                choices.push(5);
                if compose {
                    choices.push(5);
                }
            }
            choices.push(4);
            if cap > 0 && (s.parked || g.rng.chance(35)) {
                events.extend(s.apply(&Ev::Recv, &mut trace).await);
                continue;
            }
            let choice = g.rng.pick(&choices);
            if cap > 0 && (choice == 0 || choice == 5) {
                // a command is issued with an empty channel (its seeds are read from the snapshot)
                for _ in 0..64 {
                    events.extend(s.apply(&Ev::Recv, &mut trace).await);
                    if s.last_recv_none && !s.parked {
                        break;
                    }
                }
            }
            let ev = match choice {
                0 => {
                    cmds += 1;
                    let q = g.next_q;
                    g.next_q += 1;
                    let qtag = g.rng.below(3);
                    let qn = g.rng.range(1, 4);
                    if compose {
                        // a record key used before gives get_record a local hit
                        let rk = if !rks.is_empty() && g.rng.chance(60) { g.rng.pick(&rks) } else { q };
                        // value lengths: 4 bytes and more are refused by the store; expiry: none given (the
                        // record ttl), at once, soon, late
                        let len = g.rng.pick(&[1u64, 1, 2, 3, 4]);
                        let expc = g.rng.pick(&[0u64, 0, 1, 3, 40, 400]);
                        if g.rng.chance(20) {
                            let given = g.peers_list(4, true);
                            let upd = g.rng.chance(50);
                            if upd {
                                rks.push(q);
                            }
                            let publ = g.rng.pick(&[0u64, 0, 1, 2]);
                            Ev::UPutToPeers { q, qtag, qn, rk: q, len, publ, expc, upd, given }
                        } else {
                            let uc = g.rng.below(5);
                            if uc == 1 {
                                rks.push(q);
                            }
                            // few provider keys: start_providing the same key again arms a second timer
                            let rk = match uc {
                                1 => q,
                                2 | 4 => 500 + g.rng.below(3),
                                _ => rk,
                            };
                            Ev::UCmd { q, uc, qtag, qn, rk, len, expc }
                        }
                    } else if g.rng.chance(25) {
                        let peers = g.peers_list(4, true);
                        Ev::PutToPeers { q, qtag, qn, peers }
                    } else {
                        let ctag = g.rng.below(5);
                        let local = (ctag == 3 && g.rng.chance(30)) as u64;
                        Ev::Cmd { q, ctag, qtag, qn, local, dists: vec![], seeds: vec![] }
                    }
                }
                1 => {
                    let p = g.rng.pick(&dials);
                    if g.rng.chance(happy) {
                        if g.rng.chance(80) {
                            events.extend(s.apply(&Ev::Mgr(p, 2), &mut trace).await);
                        }
                        if s.conns.contains_key(&p) {
                            // the stale connection goes away first
                            events.extend(s.apply(&Ev::Closed(p), &mut trace).await);
                            if s.parked {
                                // the loop blocks on the full event channel: it takes no event now
                                continue;
                            }
                        }
                        Ev::Established(p, g.rng.chance(90))
                    } else {
                        if g.rng.chance(50) {
                            let v = g.rng.pick(&[0u64, 1]);
                            events.extend(s.apply(&Ev::Mgr(p, v), &mut trace).await);
                        }
                        Ev::DialFail(p)
                    }
                }
                2 => {
                    let (sid, p) = g.rng.pick(&subs);
                    g.answered.push(sid);
                    if g.rng.chance(happy.max(50)) {
                        Ev::Opened(p, sid)
                    } else {
                        Ev::OpenFail(sid)
                    }
                }
                5 => {
                    refreshes += 1;
                    let q = g.next_q;
                    g.next_q += 1;
                    if compose {
                        // the earliest timer of the store
                        let rk = s.timers.iter().min_by_key(|t| t.1).map(|t| t.0).unwrap_or(0);
                        Ev::UFire { q, rk, wait: 0 }
                    } else {
                        let (label, _, qtag, qn) = s.provided[0];
                        Ev::Cmd { q, ctag: 5, qtag, qn, local: label + 1, dists: vec![], seeds: vec![] }
                    }
                }
                3 => {
                    let (id, kind) = g.rng.pick(&futs);
                    let qtag = fut_query_tag(&s, id);
                    let res = g.result_for(kind, qtag, happy);
                    let how = if futs.len() == 1 && g.rng.chance(25) { 1 } else { 0 };
                    // composed mode: an ADD_PROVIDER the store would accept arrives as a request only (UInReq)
                    let res = match res {
                        Res::Read(Msg::AddProvider(true)) if compose && kind != FKind::InRead => Res::Read(Msg::AddProvider(false)),
                        r => r,
                    };
                    g.completion(compose, id, kind, res, how, &rks, s.sub_peer.get(&id).copied().unwrap_or(0))
                }
                _ => {
                    // noise: things that happen without being asked for
                    let p = g.rng.below(n);
                    match g.rng.below(12) {
                        0 | 1 => {
                            if s.conns.contains_key(&p) {
                                Ev::Closed(p)
                            } else {
                                Ev::Established(p, g.rng.chance(85))
                            }
                        }
                        2 => Ev::Kill(p),
                        3 | 4 => Ev::Mgr(p, g.rng.below(4)),
                        5 | 6 => {
                            if s.conns.contains_key(&p) {
                                let id = g.next_inbound;
                                g.next_inbound += 1;
                                Ev::Inbound(p, id)
                            } else {
                                Ev::Nop
                            }
                        }
                        7 => Ev::OpenFail(BOGUS_BASE + g.rng.below(50)),
                        8 => Ev::DialFail(p),
                        9 => fut_ev(BOGUS_BASE + g.rng.below(50), None, Res::SendOk, 0),
                        10 => {
                            if s.conns.contains_key(&p) {
                                Ev::Opened(p, BOGUS_BASE + g.rng.below(50))
                            } else {
                                Ev::Nop
                            }
                        }
                        _ => Ev::Nop,
                    }
                }
            };
            let ev = match ev {
                Ev::Nop if compose => match g.rng.below(7) {
                    0 | 1 => {
                        let rk = 200 + g.rng.below(3);
                        rks.push(rk);
                        Ev::UStore {
                            rk,
                            len: g.rng.pick(&[1u64, 1, 2, 4]),
                            publ: g.rng.pick(&[0u64, 0, 1, 3]),
                            expc: g.rng.pick(&[0u64, 0, 1, 3, 40]),
                        }
                    }
                    2 => Ev::UStop(500 + g.rng.below(3)),
                    // time passes (only between the futures' lives: the harness refuses it otherwise)
                    3 | 4 => Ev::UAge(g.rng.pick(&[1u64, 2, 5, 39, 90, 160, 310])),
                    _ => Ev::UAddKnown(g.rng.below(MAX_POOL), g.rng.chance(80)),
                },
                e => e,
            };
            events.extend(s.apply(&ev, &mut trace).await);
        }
        // the environment discharges what it owes: every dial, substream and future, once
        if g.rng.chance(88) {
            for _ in 0..400 {
                let dials = s.owed_dials();
                let subs: Vec<(u64, u64)> = s.owed_subs().into_iter().filter(|(sid, _)| !g.answered.contains(sid)).collect();
                let futs: Vec<(u64, FKind)> = s.live_futs();
                let ev = if s.parked {
                    Ev::Recv
                } else if let Some((id, kind)) = futs.first().copied() {
                    let qtag = fut_query_tag(&s, id);
                    let res = g.result_for(kind, qtag, happy);
                    let res = match res {
                        Res::Read(Msg::AddProvider(true)) if compose && kind != FKind::InRead => Res::Read(Msg::AddProvider(false)),
                        r => r,
                    };
                    g.completion(compose, id, kind, res, 0, &rks, s.sub_peer.get(&id).copied().unwrap_or(0))
                } else if let Some((sid, p)) = subs.first().copied() {
                    g.answered.push(sid);
                    if g.rng.chance(happy.max(40)) {
                        Ev::Opened(p, sid)
                    } else {
                        Ev::OpenFail(sid)
                    }
                } else if let Some(p) = dials.first().copied() {
                    if g.dial_answered.iter().filter(|x| **x == p).count() > 6 {
                        break;
                    }
                    g.dial_answered.push(p);
                    if s.conns.contains_key(&p) {
                        Ev::Closed(p)
                    } else if g.rng.chance(happy) {
                        Ev::Established(p, g.rng.chance(90))
                    } else {
                        Ev::DialFail(p)
                    }
                } else {
                    break;
                };
                events.extend(s.apply(&ev, &mut trace).await);
            }
        }
        if cap > 0 {
            for _ in 0..400 {
                events.extend(s.apply(&Ev::Recv, &mut trace).await);
                if s.last_recv_none && !s.parked {
                    break;
                }
            }
        }
        Some((encode_case(&h, &events), trace))
    }))
}

/// Tag of the query an in-flight future works for (from the snapshot), if it is still live.
fn fut_query_tag(s: &Sys, id: u64) -> Option<u8> {
    let _ = id;
    // the future does not say which query it serves; the substream's pending action did
    s.fut_query.get(&id).and_then(|q| s.dump.queries.iter().find(|x| x.query.0 == *q).map(|x| x.tag))
}

// ------------------------------------------------------------------ witnesses of the repaired defects

fn witnesses() -> Vec<(&'static str, Header, Vec<Ev>)> {
    let cmd = |q, ctag, qtag| Ev::Cmd { q, ctag, qtag, qn: 1, local: 0, dists: vec![], seeds: vec![] };
    vec![
        (
            // F-C16a: put_record_to_peers to a peer that cannot be dialed (no usable address)
            "f_c16a_put_to_peers_undialable",
            Header { k: 20, mgr: vec![(0, 0)], known: vec![0], cap: 0, mode: 0, pool: MAX_POOL },
            vec![Ev::PutToPeers { q: 0, qtag: 1, qn: 1, peers: vec![0] }],
        ),
        (
            // F-C16a, second shape: lookup succeeds, then the only found node cannot be reached again
            "f_c16a_put_record_target_lost",
            Header { k: 20, mgr: vec![(0, 1)], known: vec![0], cap: 0, mode: 0, pool: MAX_POOL },
            vec![
                cmd(0, 1, 0),
                Ev::Established(0, true),
                Ev::Opened(0, 0),
                Ev::Mgr(0, 0),
                Ev::Closed(0),
                fut_ev(0, None, Res::Read(Msg::FindNode(vec![])), 0),
            ],
        ),
        (
            // F-C16b: the connection comes up but its task is already gone when the queued
            // PUT_VALUE wants its substream
            "f_c16b_established_open_fails",
            Header { k: 20, mgr: vec![(0, 1)], known: vec![0], cap: 0, mode: 0, pool: MAX_POOL },
            vec![Ev::PutToPeers { q: 0, qtag: 1, qn: 1, peers: vec![0] }, Ev::Established(0, false)],
        ),
        (
            // F-C16c: the peer answers FIND_NODE with bytes that do not decode
            "f_c16c_undecodable_response",
            Header { k: 20, mgr: vec![(0, 2)], known: vec![0], cap: 0, mode: 0, pool: MAX_POOL },
            vec![
                Ev::Established(0, true),
                cmd(0, 0, 0),
                Ev::Opened(0, 0),
                fut_ev(0, None, Res::Read(Msg::Invalid), 0),
            ],
        ),
        (
            // F-C16c, second shape: ADD_PROVIDER sent back as the "response"
            "f_c16c_add_provider_as_response",
            Header { k: 20, mgr: vec![(0, 2)], known: vec![0], cap: 0, mode: 0, pool: MAX_POOL },
            vec![
                Ev::Established(0, true),
                cmd(0, 4, 0),
                Ev::Opened(0, 0),
                fut_ev(0, None, Res::Read(Msg::AddProvider(true)), 0),
            ],
        ),
        (
            // F-C16d: dial, connection established, the substream opened for the queued action
            // fails to negotiate (peer does not speak the protocol)
            "f_c16d_open_failure_after_dial",
            Header { k: 20, mgr: vec![(0, 1)], known: vec![0], cap: 0, mode: 0, pool: MAX_POOL },
            vec![cmd(0, 0, 0), Ev::Established(0, true), Ev::OpenFail(0)],
        ),
        (
            // the connection closes while the request is outstanding: the future fails, the query ends
            "closed_while_request_outstanding",
            Header { k: 20, mgr: vec![(0, 2)], known: vec![0], cap: 0, mode: 0, pool: MAX_POOL },
            vec![
                Ev::Established(0, true),
                cmd(0, 0, 0),
                Ev::Opened(0, 0),
                Ev::Closed(0),
                fut_ev(0, None, Res::ReadFail, 0),
            ],
        ),
        (
            // the store republishes a local provider: an ADD_PROVIDER operation nobody asked for, with an
            // id from the shared counter, ends with exactly one terminal event
            "provider_refresh",
            Header { k: 20, mgr: vec![(0, 2)], known: vec![0], cap: 0, mode: 0, pool: MAX_POOL },
            vec![
                Ev::Established(0, true),
                cmd(0, 2, 1),
                Ev::Opened(0, 0),
                fut_ev(0, None, Res::Read(Msg::FindNode(vec![])), 0),
                Ev::Opened(0, 1),
                fut_ev(1, None, Res::SendOk, 0),
                Ev::Cmd { q: 1, ctag: 5, qtag: 1, qn: 1, local: 1, dists: vec![], seeds: vec![] },
                Ev::Opened(0, 2),
                fut_ev(2, None, Res::Read(Msg::FindNode(vec![])), 0),
                Ev::Opened(0, 3),
                fut_ev(3, None, Res::SendOk, 0),
            ],
        ),
        (
            // an event channel of one slot: get_record with a local record reports two events, the
            // loop parks on the second until the user receives
            "bounded_channel_parks",
            Header { k: 20, mgr: vec![(0, 2)], known: vec![0], cap: 1, mode: 0, pool: MAX_POOL },
            vec![
                Ev::Cmd { q: 0, ctag: 3, qtag: 1, qn: 1, local: 1, dists: vec![], seeds: vec![] },
                Ev::Recv,
                Ev::Recv,
                Ev::Recv,
            ],
        ),
        (
            // a silent peer: the 15 s executor timeout ends the wait
            "silent_peer_times_out",
            Header { k: 20, mgr: vec![(0, 2)], known: vec![0], cap: 0, mode: 0, pool: MAX_POOL },
            vec![
                Ev::Established(0, true),
                cmd(0, 3, 1),
                Ev::Opened(0, 0),
                fut_ev(0, None, Res::ReadFail, 1),
            ],
        ),
        full_bucket_witness(),
        (
            // the peer never takes the PUT_VALUE frame: the executor's write timeout ends the send phase
            "write_timeout_put_value",
            Header { k: 20, mgr: vec![(0, 2)], known: vec![0], cap: 0, mode: 0, pool: MAX_POOL },
            vec![
                Ev::Established(0, true),
                Ev::PutToPeers { q: 0, qtag: 1, qn: 1, peers: vec![0] },
                Ev::Opened(0, 0),
                fut_ev(0, Some(FKind::ReqEat), Res::SendFail, 1),
            ],
        ),
        (
            // requests of a remote peer are served while a user operation is in flight: the replies come
            // from the routing table and the store, the operation still ends with exactly one event
            "inbound_served_during_operation",
            Header { k: 20, mgr: vec![(0, 2), (1, 2)], known: vec![0], cap: 0, mode: 1, pool: MAX_POOL },
            vec![
                Ev::Established(0, true),
                Ev::Established(1, true),
                Ev::UCmd { q: 0, uc: 0, qtag: 1, qn: 1, rk: 0, len: 1, expc: 0 },
                Ev::Inbound(1, INBOUND_BASE),
                Ev::InReq { id: INBOUND_BASE, rq: Req::FindNode(7) },
                Ev::UCmd { q: 1, uc: 1, qtag: 1, qn: 1, rk: 9, len: 1, expc: 0 },
                Ev::Inbound(1, INBOUND_BASE + 1),
                Ev::InReq { id: INBOUND_BASE + 1, rq: Req::GetValue(9) },
                fut_ev(INBOUND_BASE, Some(FKind::InSend), Res::SendOk, 0),
                fut_ev(INBOUND_BASE + 1, Some(FKind::InSend), Res::SendFail, 0),
                Ev::Opened(0, 0),
                fut_ev(0, Some(FKind::ReqResp), Res::Read(Msg::FindNode(vec![])), 0),
                Ev::Opened(0, 1),
                fut_ev(1, Some(FKind::ReqResp), Res::Read(Msg::FindNode(vec![])), 0),
                Ev::Opened(0, 2),
                fut_ev(2, Some(FKind::ReqEat), Res::Read(Msg::PutValue), 0),
            ],
        ),
        (
            // IncomingRecordValidationMode::Manual: an inbound PUT_VALUE is acknowledged and reported but not
            // stored; a GET_VALUE finds nothing until the user calls store_record
            "manual_validation_store_record",
            Header { k: 20, mgr: vec![(1, 2)], known: vec![1], cap: 0, mode: 1 | 8, pool: MAX_POOL },
            vec![
                Ev::Established(1, true),
                Ev::Inbound(1, INBOUND_BASE),
                Ev::InReq { id: INBOUND_BASE, rq: Req::PutValue { rk: 5, len: 1, publ: 0, ttl: 0 } },
                fut_ev(INBOUND_BASE, Some(FKind::InSendEat), Res::SendOk, 0),
                Ev::Inbound(1, INBOUND_BASE + 1),
                Ev::InReq { id: INBOUND_BASE + 1, rq: Req::GetValue(5) },
                fut_ev(INBOUND_BASE + 1, Some(FKind::InSend), Res::SendOk, 0),
                Ev::UStore { rk: 5, len: 1, publ: 0, expc: 0 },
                Ev::Inbound(1, INBOUND_BASE + 2),
                Ev::InReq { id: INBOUND_BASE + 2, rq: Req::GetValue(5) },
                fut_ev(INBOUND_BASE + 2, Some(FKind::InSend), Res::SendOk, 0),
            ],
        ),
        (
            // RoutingTableUpdateMode::Manual: the peers of a reply are reported, the lookup uses them, the
            // routing table does not change until the user calls add_known_peer
            "manual_routing_table_update",
            Header { k: 20, mgr: vec![(0, 2), (1, 0), (2, 0)], known: vec![0], cap: 0, mode: 1 | 4, pool: MAX_POOL },
            vec![
                Ev::Established(0, true),
                Ev::UCmd { q: 0, uc: 0, qtag: 1, qn: 1, rk: 0, len: 1, expc: 0 },
                Ev::Opened(0, 0),
                fut_ev(0, Some(FKind::ReqResp), Res::Read(Msg::FindNode(vec![1, 2])), 0),
                Ev::UAddKnown(1, true),
            ],
        ),
        (
            // the store's refresh timers: start_providing the same key twice arms two timers; the first
            // that fires republishes, after stop_providing the others fire without effect
            "refresh_timers_stop_providing",
            Header { k: 20, mgr: vec![(0, 2)], known: vec![0], cap: 0, mode: 1, pool: MAX_POOL },
            vec![
                Ev::Established(0, true),
                Ev::UCmd { q: 0, uc: 2, qtag: 1, qn: 1, rk: 500, len: 1, expc: 0 },
                Ev::Opened(0, 0),
                fut_ev(0, Some(FKind::ReqResp), Res::Read(Msg::FindNode(vec![])), 0),
                Ev::Opened(0, 1),
                fut_ev(1, Some(FKind::Send), Res::SendOk, 0),
                Ev::UAge(5),
                Ev::UCmd { q: 1, uc: 2, qtag: 1, qn: 1, rk: 500, len: 1, expc: 0 },
                Ev::Opened(0, 2),
                fut_ev(2, Some(FKind::ReqResp), Res::Read(Msg::FindNode(vec![])), 0),
                Ev::Opened(0, 3),
                fut_ev(3, Some(FKind::Send), Res::SendOk, 0),
                Ev::UFire { q: 2, rk: 500, wait: 0 },
                Ev::Opened(0, 4),
                fut_ev(4, Some(FKind::ReqResp), Res::Read(Msg::FindNode(vec![])), 0),
                Ev::Opened(0, 5),
                fut_ev(5, Some(FKind::Send), Res::SendOk, 0),
                Ev::UStop(500),
                Ev::UFire { q: 3, rk: 500, wait: 0 },
                Ev::UFire { q: 4, rk: 500, wait: 0 },
            ],
        ),
        (
            // record expiry: a stored record answers get_record(One) at once and a remote GET_VALUE until its
            // expiry has passed; afterwards both miss
            "record_expiry_local_and_remote",
            Header { k: 20, mgr: vec![(1, 2)], known: vec![], cap: 0, mode: 1, pool: MAX_POOL },
            vec![
                Ev::Established(1, true),
                Ev::UStore { rk: 5, len: 2, publ: 3, expc: 4 },
                Ev::UCmd { q: 0, uc: 3, qtag: 1, qn: 1, rk: 5, len: 1, expc: 0 },
                Ev::UAge(2),
                Ev::Inbound(1, INBOUND_BASE),
                Ev::InReq { id: INBOUND_BASE, rq: Req::GetValue(5) },
                fut_ev(INBOUND_BASE, Some(FKind::InSend), Res::SendOk, 0),
                Ev::UAge(1),
                Ev::UCmd { q: 1, uc: 3, qtag: 1, qn: 1, rk: 5, len: 1, expc: 0 },
                Ev::Inbound(1, INBOUND_BASE + 1),
                Ev::InReq { id: INBOUND_BASE + 1, rq: Req::GetValue(5) },
                fut_ev(INBOUND_BASE + 1, Some(FKind::InSend), Res::SendOk, 0),
            ],
        ),
        (
            // provider records of the store: an inbound ADD_PROVIDER of the sender is stored, served to a
            // remote GET_PROVIDERS and handed to the node's own get_providers as a known provider; an
            // announcement for a third party is ignored; after the provider ttl the record is gone
            "provider_records_announce_serve_expire",
            Header { k: 20, mgr: vec![(1, 2), (2, 2)], known: vec![], cap: 0, mode: 1, pool: MAX_POOL },
            vec![
                Ev::Established(1, true),
                Ev::Established(2, true),
                Ev::Inbound(1, INBOUND_BASE),
                Ev::InReq { id: INBOUND_BASE, rq: Req::AddProvider { rk: 500, provs: vec![(1, 2, 1)] } },
                Ev::Inbound(2, INBOUND_BASE + 1),
                Ev::InReq { id: INBOUND_BASE + 1, rq: Req::AddProvider { rk: 500, provs: vec![(1, 3, 1)] } },
                Ev::UCmd { q: 0, uc: 2, qtag: 2, qn: 2, rk: 500, len: 1, expc: 0 },
                Ev::Inbound(2, INBOUND_BASE + 2),
                Ev::InReq { id: INBOUND_BASE + 2, rq: Req::GetProviders(500) },
                fut_ev(INBOUND_BASE + 2, Some(FKind::InSend), Res::SendOk, 0),
                Ev::UCmd { q: 1, uc: 4, qtag: 1, qn: 1, rk: 500, len: 1, expc: 0 },
                Ev::UStop(500),
                Ev::UAge(90),
                Ev::UFire { q: 2, rk: 500, wait: 0 },
                Ev::UAge(160),
                Ev::Inbound(2, INBOUND_BASE + 3),
                Ev::InReq { id: INBOUND_BASE + 3, rq: Req::GetProviders(500) },
                fut_ev(INBOUND_BASE + 3, Some(FKind::InSend), Res::SendOk, 0),
                Ev::UCmd { q: 3, uc: 4, qtag: 1, qn: 1, rk: 500, len: 1, expc: 0 },
            ],
        ),
        (
            // put_record_to_peers with and without update_local_store: only the first leaves the record in
            // the local store; a record of 4 bytes is refused by the store but the operation runs
            "put_to_peers_update_local_store",
            Header { k: 20, mgr: vec![(0, 2)], known: vec![0], cap: 0, mode: 1, pool: MAX_POOL },
            vec![
                Ev::Established(0, true),
                Ev::UPutToPeers { q: 0, qtag: 0, qn: 1, rk: 5, len: 1, publ: 1, expc: 0, upd: true, given: vec![0] },
                Ev::Opened(0, 0),
                fut_ev(0, Some(FKind::ReqEat), Res::Read(Msg::PutValue), 0),
                Ev::UPutToPeers { q: 1, qtag: 2, qn: 3, rk: 6, len: 1, publ: 0, expc: 0, upd: false, given: vec![0] },
                Ev::Opened(0, 1),
                fut_ev(1, Some(FKind::ReqEat), Res::Assume, 0),
                Ev::UPutToPeers { q: 2, qtag: 1, qn: 1, rk: 7, len: 4, publ: 0, expc: 0, upd: true, given: vec![0] },
                Ev::Opened(0, 2),
                fut_ev(2, Some(FKind::ReqEat), Res::SendFail, 0),
                Ev::UCmd { q: 3, uc: 3, qtag: 1, qn: 1, rk: 5, len: 1, expc: 0 },
                Ev::UCmd { q: 4, uc: 3, qtag: 1, qn: 1, rk: 6, len: 1, expc: 0 },
                Ev::UCmd { q: 5, uc: 3, qtag: 1, qn: 1, rk: 7, len: 1, expc: 0 },
            ],
        ),
        (
            // peer timeout staleness: with a zero peer timeout a pending peer stops counting towards
            // the parallelism factor at once, so one drain sends FIND_NODE to all five seeds (alpha = 3);
            // every one of them stays owed until it answers
            "stale_pending_peers_free_slots",
            Header { k: 20, mgr: (0..5).map(|p| (p, 2)).collect(), known: (0..5).collect(), cap: 0, mode: 2, pool: MAX_POOL },
            vec![
                Ev::Established(0, true),
                Ev::Established(1, true),
                Ev::Established(2, true),
                Ev::Established(3, true),
                Ev::Established(4, true),
                cmd(0, 0, 1),
                Ev::Opened(0, 0),
                Ev::Opened(4, 4),
                fut_ev(0, None, Res::Read(Msg::FindNode(vec![])), 0),
                fut_ev(4, None, Res::ReadFail, 0),
            ],
        ),
    ]
}

/// F-C16e: put_record_to_peers([X]) where X is not in the routing table and its bucket is full of
/// disconnected peers. `routing_table.entry(X)` is then `Vacant(slot of the first replaceable
/// node Y)`, whose address store is Y's: the record went to Y, a peer the user never named.
fn full_bucket_witness() -> (&'static str, Header, Vec<Ev>) {
    const POOL: u64 = 80;
    let local = Key::from(mk_peer(500)).verif_raw();
    let bucket = |l: u64| -> usize {
        let k = Key::from(mk_peer(l)).verif_raw();
        for i in 0..32 {
            let x = local[i] ^ k[i];
            if x != 0 {
                return 255 - (i * 8 + x.leading_zeros() as usize);
            }
        }
        0
    };
    let members: Vec<u64> = (0..POOL).filter(|l| bucket(*l) == 255).collect();
    assert!(members.len() >= 21, "not enough peers in the furthest bucket");
    let known: Vec<u64> = members[..20].to_vec();
    let x = members[20];
    let y = members[0];
    (
        "f_c16e_put_to_peers_full_bucket",
        Header { k: 20, mgr: vec![(y, 1), (x, 1)], known, cap: 0, mode: 1, pool: POOL },
        vec![
            Ev::UPutToPeers { q: 0, qtag: 1, qn: 1, rk: 5, len: 1, publ: 0, expc: 0, upd: false, given: vec![x] },
            Ev::Established(y, true),
            Ev::Established(x, true),
        ],
    )
}


// ------------------------------------------------------------------ end-to-end stream (real nodes, loopback TCP)

/// Three put_record_to_peers operations on a real `Litep2p` node over loopback TCP: the target has
/// only an address no enabled transport can dial (F-C16a), the target refuses the connection, the
/// target is a healthy second node. Each must produce a terminal event with its query id before
/// the deadline. Returns the names of the scenarios that did not.
fn end_to_end() -> Vec<&'static str> {
    use futures::StreamExt;
    use litep2p::{
        config::ConfigBuilder as NodeConfig, crypto::ed25519::Keypair, transport::tcp::config::Config as TcpConfig,
        Litep2p,
    };
    let rt = tokio::runtime::Builder::new_multi_thread().worker_threads(2).enable_all().build().unwrap();
    rt.block_on(async {
        let node = || {
            let (kad, handle) = ConfigBuilder::new().build();
            let cfg = NodeConfig::new()
                .with_keypair(Keypair::generate())
                .with_tcp(TcpConfig { listen_addresses: vec!["/ip4/127.0.0.1/tcp/0".parse().unwrap()], ..Default::default() })
                .with_libp2p_kademlia(kad)
                .build();
            (Litep2p::new(cfg).unwrap(), handle)
        };
        let (mut a, mut ha) = node();
        let (mut c, _hc) = node();
        let c_peer = *c.local_peer_id();
        let c_addr: Vec<Multiaddr> = c.listen_addresses().cloned().collect();
        tokio::spawn(async move { while a.next_event().await.is_some() {} });
        tokio::spawn(async move { while c.next_event().await.is_some() {} });
        let ghost = PeerId::random();
        let refuser = PeerId::random();
        ha.add_known_peer(ghost, vec!["/ip4/127.0.0.1/udp/9/quic-v1".parse().unwrap()]).await;
        ha.add_known_peer(refuser, vec!["/ip4/127.0.0.1/tcp/1".parse().unwrap()]).await;
        ha.add_known_peer(c_peer, c_addr).await;
        let mut failed = Vec::new();
        for (name, target, secs) in [("undialable", ghost, 8u64), ("refused", refuser, 25), ("healthy", c_peer, 25)] {
            let record = Record { key: RecordKey::from(vec![1u8, 6, 1]), value: vec![1], publisher: None, expires: None };
            let q = ha.put_record_to_peers(record, vec![target], false, Quorum::One).await;
            let deadline = tokio::time::sleep(Duration::from_secs(secs));
            tokio::pin!(deadline);
            let mut done = false;
            loop {
                tokio::select! {
                    _ = &mut deadline => break,
                    ev = ha.next() => match ev {
                        Some(KademliaEvent::QueryFailed { query_id }) if query_id == q => { done = true; break }
                        Some(KademliaEvent::PutRecordSuccess { query_id, .. }) if query_id == q => { done = true; break }
                        Some(_) => {}
                        None => break,
                    }
                }
            }
            if !done {
                failed.push(name);
            }
        }
        failed
    })
}

fn run_one(f: impl FnOnce() -> Option<(Vec<u64>, Vec<u64>)>, fallback_case: &[u64], out: &mut Outputs) {
    match catch_unwind(AssertUnwindSafe(f)) {
        Ok(Some((case, trace))) => out.emit(&case, &trace),
        Ok(None) => out.emit(fallback_case, &[0]),
        Err(_) => out.emit(fallback_case, &[PANIC_MARK]),
    }
}

pub fn main(args: &Args) {
    let mut out = Outputs::open(args);
    if let Some(dir) = args.str("witness") {
        // (re)generate the corpus witnesses with the oracle fields of the current implementation
        std::fs::create_dir_all(dir).unwrap();
        for (name, h, evs) in witnesses() {
            let c = encode_case(&h, &evs.iter().map(|e| e.encode()).collect::<Vec<_>>());
            if let Some((case, _)) = run_stored(&c) {
                std::fs::write(Path::new(dir).join(format!("{name}.case")), format!("# {name}\ncase: {}\n", line(&case))).unwrap();
            }
        }
        for (name, c) in handle_stream::witnesses() {
            if let Some((case, _)) = run_stored(&c) {
                std::fs::write(Path::new(dir).join(format!("{name}.case")), format!("# {name}\ncase: {}\n", line(&case))).unwrap();
            }
        }
    }
    let stored: Vec<Vec<u64>> = match args.str("replay") {
        Some(f) => read_cases(Path::new(f)),
        None => args.str("corpus").map(|d| read_cases(Path::new(d))).unwrap_or_default(),
    };
    for c in &stored {
        run_one(|| run_stored(c), c, &mut out);
    }
    if args.str("replay").is_some() {
        return;
    }
    // end-to-end: a missing terminal event is reported as the history "put_record_to_peers, then
    // nothing owed and nothing reported"
    match catch_unwind(end_to_end) {
        Ok(failed) if failed.is_empty() => eprintln!("c16: end-to-end stream ok (3 operations over loopback TCP)"),
        other => {
            eprintln!("c16: end-to-end stream FAILED: {:?}", other.ok());
            let h = Header { k: 20, mgr: vec![(0, 0)], known: vec![0], cap: 0, mode: 0, pool: MAX_POOL };
            let e = Ev::PutToPeers { q: 0, qtag: 1, qn: 1, peers: vec![0] };
            out.emit(&encode_case(&h, &[e.encode()]), &[1, 1, 0, 0, 0, 0, 0, 0]);
        }
    }
    let n = args.u64("cases", 100);
    let seed = args.u64("seed", 1);
    let long = args.str("tier") == Some("thorough");
    // the KademliaHandle in front of the loop (c16_handle.rs): one case for every eight histories
    for i in 0..(n / 8).max(1) {
        run_one(|| handle_stream::generate(seed.wrapping_mul(1_000_003).wrapping_add(i)), &[handle_stream::HANDLE_TAG], &mut out);
    }
    for i in 0..n {
        // every fifth history runs on an event channel of 1-3 slots
        let cap = if i % 5 == 4 { 1 + (i / 5) % 3 } else { 0 };
        // two of five run against the composed model (routing table and store computed)
        let compose = i % 5 == 1 || i % 5 == 3;
        // one of five with a zero peer timeout: every pending peer of a FIND_NODE-type lookup is stale
        let stale = i % 10 == 0 || i % 10 == 3;
        run_one(|| generate(seed.wrapping_mul(1_000_003).wrapping_add(i), long, cap, compose, stale), &[0], &mut out);
    }
}
