//! C11: NotificationProtocol correspondence. The real `NotificationProtocol` (real
//! `TransportService`, real `HandshakeService`, real `Connection` tasks, real `NotificationHandle`)
//! is driven one event at a time; substreams run over scripted byte carriers so that handshake
//! progress, failures and close latencies are dictated by the case.
//! Case / trace format: see coq/C11/Glue.v.
use crate::util::*;
use futures::{FutureExt, StreamExt};
use litep2p::{
    protocol::notification::{
        verif::{verif_open_log, VerifBounded, VerifPoll, VerifServiceCall},
        NotificationError, NotificationEvent, NotificationHandle, NotificationSink, ValidationResult,
    },
    PeerId,
};
use std::{
    collections::VecDeque,
    io,
    panic::{catch_unwind, AssertUnwindSafe},
    path::Path,
    pin::Pin,
    sync::{Arc, Mutex},
    task::{Context, Poll},
};
use tokio::io::{AsyncRead, AsyncWrite, ReadBuf};

#[path = "c11_hs.rs"]
mod hs;

pub(crate) const NP: usize = 3;
pub(crate) const HANDSHAKE: [u8; 4] = [1, 2, 3, 4];

// ---------------------------------------------------------------- scripted byte carrier

#[derive(Default)]
pub(crate) struct IoState {
    pub(crate) read_buf: VecDeque<u8>,
    pub(crate) read_eof: bool,
    pub(crate) write_err: bool,
    pub(crate) flush_open: bool,
    shutdown_gated: bool,
    hs_pushed: bool,
    dropped: bool,
    written: Vec<u8>,
}

#[derive(Clone, Default)]
pub(crate) struct IoCtl(pub(crate) Arc<Mutex<IoState>>);

pub(crate) struct ScriptedIo(pub(crate) IoCtl);

impl Drop for ScriptedIo {
    fn drop(&mut self) {
        self.0 .0.lock().unwrap().dropped = true;
    }
}

impl AsyncRead for ScriptedIo {
    fn poll_read(self: Pin<&mut Self>, _: &mut Context<'_>, buf: &mut ReadBuf<'_>) -> Poll<io::Result<()>> {
        let mut s = self.0 .0.lock().unwrap();
        if !s.read_buf.is_empty() {
            while buf.remaining() > 0 {
                match s.read_buf.pop_front() {
                    Some(b) => buf.put_slice(&[b]),
                    None => break,
                }
            }
            return Poll::Ready(Ok(()));
        }
        if s.read_eof {
            return Poll::Ready(Ok(()));
        }
        Poll::Pending
    }
}

impl AsyncWrite for ScriptedIo {
    fn poll_write(self: Pin<&mut Self>, _: &mut Context<'_>, buf: &[u8]) -> Poll<io::Result<usize>> {
        let mut s = self.0 .0.lock().unwrap();
        if s.write_err {
            return Poll::Ready(Err(io::ErrorKind::BrokenPipe.into()));
        }
        s.written.extend_from_slice(buf);
        Poll::Ready(Ok(buf.len()))
    }
    fn poll_flush(self: Pin<&mut Self>, _: &mut Context<'_>) -> Poll<io::Result<()>> {
        let s = self.0 .0.lock().unwrap();
        if s.write_err {
            return Poll::Ready(Err(io::ErrorKind::BrokenPipe.into()));
        }
        if s.flush_open {
            Poll::Ready(Ok(()))
        } else {
            Poll::Pending
        }
    }
    fn poll_shutdown(self: Pin<&mut Self>, _: &mut Context<'_>) -> Poll<io::Result<()>> {
        let s = self.0 .0.lock().unwrap();
        if s.shutdown_gated {
            Poll::Pending
        } else {
            Poll::Ready(Ok(()))
        }
    }
}

impl IoCtl {
    fn live(&self) -> bool {
        !self.0.lock().unwrap().dropped
    }
    pub(crate) fn push_handshake(&self) {
        let mut s = self.0.lock().unwrap();
        s.read_buf.push_back(HANDSHAKE.len() as u8);
        s.read_buf.extend(HANDSHAKE.iter());
        s.hs_pushed = true;
    }
    /// the remote sends a notification; the payload names the stream (ordinal of the Connection task)
    fn push_notification(&self, gid: usize) {
        let mut s = self.0.lock().unwrap();
        s.read_buf.extend([3u8, 7, (gid >> 8) as u8, (gid & 255) as u8]);
    }
    fn fail(&self) {
        let mut s = self.0.lock().unwrap();
        s.read_eof = true;
        s.write_err = true;
    }
    /// the remote sends a frame whose length prefix exceeds the maximum: the codec reports an error
    fn push_bad_frame(&self) {
        let mut s = self.0.lock().unwrap();
        s.read_buf.extend([0xd0u8, 0x0f]);
    }
}

// ---------------------------------------------------------------- one run

struct Run {
    peers: Vec<PeerId>,
    notif: VerifBounded,
    /// lazy-user mode: the user only polls on kind 25, the event channel has `cap` slots
    lazy: bool,
    /// peer of the last scheduled event
    last_peer: usize,
    handle: NotificationHandle,
    connected: [Option<usize>; NP],
    next_conn: usize,
    /// substream ids requested through `open_substream` and not answered yet (per peer, oldest first)
    pending_sids: [VecDeque<usize>; NP],
    inbound: [Vec<IoCtl>; NP],
    outbound: [Vec<IoCtl>; NP],
    /// carriers handed to `Connection` tasks (pair per opened stream) and the ordinal of the task
    task_ios: [Vec<(IoCtl, IoCtl, usize)>; NP],
    /// outbound carriers of all stream periods in the order of the Opened events: (peer, carrier, bytes read so far)
    periods: Vec<(usize, IoCtl, usize)>,
    usink: [Option<NotificationSink>; NP],
    /// return codes of send calls and frames seen on the wire in this step
    rets: Vec<[u64; 3]>,
    events: Vec<[u64; 3]>,
    /// real 5 s timers that expired (SleepAll)
    real_fired: usize,
    /// the case contains a SleepAll: hook-fired Timer events are skipped
    no_hook_timers: bool,
    /// service calls already taken from the driver in this step (batch commands look at them early)
    stash_calls: Vec<VerifServiceCall>,
    /// the order in which the protocol worked through the peers of the batch command of this step
    batch_order: Option<u64>,
    /// events and calls of this step are printed by peer (several peers handled in an order nobody controls)
    by_peer_step: bool,
}

fn newest_live(v: &[IoCtl]) -> Option<IoCtl> {
    v.iter().rev().find(|io| io.live()).cloned()
}

fn err_code(e: &NotificationError) -> u64 {
    match e {
        NotificationError::Rejected => 0,
        NotificationError::NoConnection => 1,
        NotificationError::ValidationPending => 2,
        NotificationError::DialFailure => 3,
        _ => 9,
    }
}

impl Run {
    fn pidx(&self, p: &PeerId) -> usize {
        self.peers.iter().position(|x| x == p).unwrap_or(99)
    }

    /// Drain the user-side event stream (updates the handle's `peers` gate and its pending
    /// validations exactly as a user polling the handle would).
    fn drain_user(&mut self) -> usize {
        self.poll_user(usize::MAX)
    }

    /// the user calls `handle.next()` until `max` events were returned or nothing is ready
    fn poll_user(&mut self, max: usize) -> usize {
        let mut n = 0;
        while n < max {
            let ev = match self.handle.next().now_or_never() {
                Some(Some(ev)) => ev,
                _ => break,
            };
            n += 1;
            match ev {
                NotificationEvent::ValidateSubstream { peer, .. } => {
                    let i = self.pidx(&peer);
                    self.events.push([0, i as u64, 0]);
                }
                NotificationEvent::NotificationStreamOpened { peer, direction, .. } => {
                    let i = self.pidx(&peer);
                    let d = format!("{direction:?}").starts_with("Outbound") as u64;
                    self.events.push([1, i as u64, d]);
                }
                NotificationEvent::NotificationStreamClosed { peer } => {
                    let i = self.pidx(&peer);
                    self.events.push([2, i as u64, 0]);
                }
                NotificationEvent::NotificationStreamOpenFailure { peer, error } => {
                    let i = self.pidx(&peer);
                    self.events.push([3, i as u64, err_code(&error)]);
                }
                NotificationEvent::NotificationReceived { peer, notification } => {
                    let i = self.pidx(&peer);
                    // the stream the notification was sent on, as written into the payload
                    let tag = match notification.as_ref() {
                        [7, hi, lo] => ((*hi as u64) << 8 | *lo as u64) + 1,
                        _ => 0,
                    };
                    self.events.push([4, i as u64, tag]);
                }
            }
        }
        n
    }

    /// Let everything that became ready run: Connection tasks, the user draining events, and
    /// `next_event` until no branch is ready.
    fn settle(&mut self) {
        for _ in 0..64 {
            let done = self.notif.driver().poll_tasks();
            let drained = self.drain_user();
            let stepped = self.notif.poll_event() == VerifPoll::Handled;
            if done == 0 && drained == 0 && !stepped {
                self.register_new_tasks();
                return;
            }
        }
        panic!("settle did not converge");
    }

    /// A Connection task was spawned (by the event for `last_peer`, possibly after the loop was parked):
    /// its substreams are the newest live carriers of that peer.
    fn register_new_tasks(&mut self) {
        let spawned = self.notif.driver().tasks().0;
        while self.periods.len() < spawned {
            let i = self.last_peer;
            let a = newest_live(&self.inbound[i]).unwrap_or_default();
            let b = newest_live(&self.outbound[i]).unwrap_or_default();
            let off = b.0.lock().unwrap().written.len();
            let gid = self.periods.len();
            self.periods.push((i, b.clone(), off));
            self.task_ios[i].push((a, b, gid));
        }
    }

    /// lazy mode: tasks and the loop run until nothing moves; the user does not poll
    fn settle_lazy(&mut self) {
        for _ in 0..64 {
            let done = self.notif.driver().poll_tasks();
            let stepped = self.notif.poll_event() == VerifPoll::Handled;
            if done == 0 && !stepped {
                self.register_new_tasks();
                return;
            }
        }
        panic!("settle did not converge");
    }

    fn apply_lazy(&mut self, kind: u64, p: usize, arg: u64) {
        if kind == 25 {
            self.poll_user(1);
            self.settle_lazy();
            return;
        }
        // nothing else is scheduled while the loop is parked; sends belong to the eager mode; events that
        // touch a Connection task wait until the user has seen every NotificationStreamOpened
        if self.notif.is_parked() || (20..=24).contains(&kind) || kind == 19 {
            return;
        }
        self.apply(kind, p, arg);
    }

    fn observe_lazy(&mut self, cap: usize, out: &mut Vec<u64>) {
        out.push(self.events.len() as u64);
        for e in self.events.drain(..) {
            out.extend(e);
        }
        let calls = self.notif.driver().take_service_calls();
        out.push(calls.len() as u64);
        for c in calls {
            match c {
                VerifServiceCall::Dial(peer) => out.extend([0, self.pidx(&peer) as u64, 0]),
                VerifServiceCall::OpenSubstream(peer, sid) => {
                    let i = self.pidx(&peer);
                    if i < NP {
                        self.pending_sids[i].push_back(sid);
                    }
                    out.extend([1, i as u64, sid as u64]);
                }
                VerifServiceCall::ForceClose(peer) => out.extend([2, self.pidx(&peer) as u64, 0]),
            }
        }
        for p in 0..NP {
            let peer = self.peers[p];
            out.push(self.handle.verif_is_open(&peer) as u64);
            out.push(self.handle.verif_validation_pending(&peer) as u64);
        }
        out.push(self.handle.verif_event_queue_len().min(cap) as u64);
        out.push(self.notif.is_parked() as u64);
    }

    fn apply(&mut self, kind: u64, p: usize, arg: u64) {
        let peer = self.peers[p];
        self.last_peer = p;
        match kind {
            0 => {
                if self.connected[p].is_none() {
                    let c = self.next_conn;
                    self.next_conn += 1;
                    self.connected[p] = Some(c);
                    self.notif.driver().inject_connection_established(peer, c);
                }
            }
            1 => {
                if let Some(c) = self.connected[p].take() {
                    self.pending_sids[p].clear();
                    self.notif.driver().inject_connection_closed(peer, c);
                }
            }
            2 => {
                if let Some(c) = self.connected[p] {
                    let ctl = IoCtl::default();
                    self.inbound[p].push(ctl.clone());
                    self.notif.driver().inject_substream(peer, c, None, Box::new(ScriptedIo(ctl)));
                }
            }
            3 => {
                if let (Some(c), Some(sid)) = (self.connected[p], self.pending_sids[p].pop_front()) {
                    let ctl = IoCtl::default();
                    self.outbound[p].push(ctl.clone());
                    self.notif.driver().inject_substream(peer, c, Some(sid), Box::new(ScriptedIo(ctl)));
                }
            }
            4 => {
                if let (Some(_), Some(sid)) = (self.connected[p], self.pending_sids[p].pop_front()) {
                    // every SubstreamError variant (the handler only logs it)
                    self.notif.driver().inject_substream_open_failure_kind(sid, arg as usize, peer);
                }
            }
            5 => self.notif.driver().inject_dial_failure(peer),
            6 => {
                if self.notif.driver().negotiating(&peer).0 {
                    if let Some(io) = newest_live(&self.inbound[p]) {
                        if arg == 0 {
                            io.fail();
                        } else {
                            let pushed = io.0.lock().unwrap().hs_pushed;
                            if !pushed {
                                io.push_handshake();
                            } else {
                                io.0.lock().unwrap().flush_open = true;
                            }
                        }
                    }
                }
            }
            7 => {
                if self.notif.driver().negotiating(&peer).1 {
                    if let Some(io) = newest_live(&self.outbound[p]) {
                        if arg == 0 {
                            io.fail();
                        } else {
                            io.0.lock().unwrap().flush_open = true;
                            io.push_handshake();
                        }
                    }
                }
            }
            8 => {
                let r = if arg == 0 { ValidationResult::Reject } else { ValidationResult::Accept };
                self.handle.send_validation_result(peer, r);
            }
            9 => {
                if !self.no_hook_timers {
                    self.notif.driver().fire_timer(peer)
                }
            }
            20 => {
                if self.usink[p].is_none() {
                    self.usink[p] = self.handle.notification_sink(peer);
                }
            }
            21 | 22 | 23 | 24 => {
                let payload = vec![(arg >> 8) as u8, (arg & 255) as u8];
                let code: Option<u64> = match kind {
                    21 => Some(match self.handle.send_sync_notification(peer, payload) {
                        Ok(()) => 0,
                        Err(NotificationError::NoConnection) => 1,
                        Err(NotificationError::ChannelClogged) => 2,
                        Err(_) => 9,
                    }),
                    22 => Some(match self.handle.send_async_notification(peer, payload).now_or_never() {
                        Some(Ok(())) => 0,
                        Some(Err(litep2p::Error::PeerDoesntExist(_))) => 3,
                        Some(Err(_)) => 9,
                        None => 8,
                    }),
                    23 => self.usink[p].as_ref().map(|sink| match sink.send_sync_notification(payload) {
                        Ok(()) => 0,
                        Err(NotificationError::NoConnection) => 1,
                        Err(NotificationError::ChannelClogged) => 2,
                        Err(_) => 9,
                    }),
                    _ => self.usink[p].as_ref().map(|sink| match sink.send_async_notification(payload).now_or_never() {
                        Some(Ok(())) => 0,
                        Some(Err(litep2p::Error::PeerDoesntExist(_))) => 3,
                        Some(Err(_)) => 9,
                        None => 8,
                    }),
                };
                if let Some(code) = code {
                    self.rets.push([3, p as u64, code]);
                }
            }
            19 => {
                // every armed 5 s timer really expires
                let before = self.notif.driver().timers_len();
                std::thread::sleep(std::time::Duration::from_millis(5300));
                self.settle();
                self.real_fired += before - self.notif.driver().timers_len();
            }
            28 => {
                // NEGOTIATION_TIMEOUT (10 s) of every substream in the HandshakeService really expires, and with
                // it every 5 s timer armed so far
                let before = self.notif.driver().timers_len();
                std::thread::sleep(std::time::Duration::from_millis(10300));
                self.by_peer_step = true;
                self.settle();
                self.real_fired += before;
            }
            10 => {
                let _ = self.handle.open_substream(peer).now_or_never();
            }
            11 => {
                let _ = self.handle.close_substream(peer).now_or_never();
            }
            12 => self.handle.verif_force_close(peer),
            13 | 16 | 17 | 18 => {
                if let Some((a, b, gid)) = self.task_ios[p].last().cloned() {
                    if a.live() || b.live() {
                        if kind == 17 || kind == 18 {
                            // the remote sends a notification on the open stream
                            a.push_notification(gid);
                        }
                        if (arg & 1 != 0 && kind != 17) || kind == 16 {
                            a.0.lock().unwrap().shutdown_gated = true;
                            b.0.lock().unwrap().shutdown_gated = true;
                        }
                        if kind == 13 || kind == 18 {
                            // what ends the stream: the remote closes its side, sends a frame the codec
                            // rejects, or the outbound substream reports a write error (not after a last
                            // notification: the write error would be noticed before the notification is read)
                            match (arg >> 1) % (if kind == 18 { 2 } else { 3 }) {
                                0 => a.0.lock().unwrap().read_eof = true,
                                1 => a.push_bad_frame(),
                                _ => b.0.lock().unwrap().write_err = true,
                            }
                        }
                    }
                }
            }
            14 => {
                // held-back substream closes complete: all of them, or (arg != 0) all but those of the newest task
                let n = self.task_ios[p].len();
                for (i, (a, b, _)) in self.task_ios[p].iter().enumerate() {
                    if arg != 0 && i + 1 == n {
                        continue;
                    }
                    a.0.lock().unwrap().shutdown_gated = false;
                    b.0.lock().unwrap().shutdown_gated = false;
                }
            }
            15 => {
                if self.connected[p].is_some() {
                    if arg == 0 {
                        self.notif.driver().kill_connection_channel(peer);
                    } else {
                        self.notif.driver().clog_connection_channel(peer);
                    }
                }
            }
            26 | 27 => {
                // one command for several peers
                let members: Vec<usize> = batch_peers(arg);
                let ids: Vec<PeerId> = members.iter().map(|i| self.peers[*i]).collect();
                verif_open_log::enable(true);
                if kind == 26 {
                    let _ = self.handle.open_substream_batch(ids.into_iter()).now_or_never();
                } else {
                    let _ = self.handle.close_substream_batch(ids.into_iter()).now_or_never();
                }
                self.settle();
                // the order the protocol took the peers in: the order of its open_substream calls (a call
                // consumes a substream id even when it fails); the other peers' turns leave no trace
                let calls = self.notif.driver().take_service_calls();
                let asked: Vec<usize> = verif_open_log::take().iter().map(|q| self.pidx(q)).collect();
                verif_open_log::enable(false);
                let mut order: Vec<usize> = Vec::new();
                for i in asked {
                    if members.contains(&i) && !order.contains(&i) {
                        order.push(i);
                    }
                }
                for i in members.iter() {
                    if !order.contains(i) {
                        order.push(*i);
                    }
                }
                self.batch_order = Some(batch_code(&order));
                self.stash_calls.extend(calls);
                return;
            }
            _ => {}
        }
        if self.lazy {
            self.settle_lazy();
        } else {
            self.settle();
        }
    }

    fn observe(&mut self, out: &mut Vec<u64>) {
        if self.batch_order.is_some() || self.by_peer_step {
            self.events.sort_by_key(|e| e[1]);
        }
        out.push(self.events.len() as u64);
        for e in self.events.drain(..) {
            out.extend(e);
        }
        // frames written to the outbound substreams of the stream periods since the last step
        for (gid, (pi, io, off)) in self.periods.iter_mut().enumerate() {
            let st = io.0.lock().unwrap();
            while *off + 3 <= st.written.len() && st.written[*off] == 2 {
                let m = ((st.written[*off + 1] as u64) << 8) | st.written[*off + 2] as u64;
                self.rets.push([4, *pi as u64, gid as u64 * 1_000_000 + m]);
                *off += 3;
            }
        }
        let mut calls: Vec<VerifServiceCall> = self.stash_calls.drain(..).collect();
        calls.extend(self.notif.driver().take_service_calls());
        let mut call_rows: Vec<[u64; 3]> = Vec::new();
        for c in calls {
            match c {
                VerifServiceCall::Dial(peer) => call_rows.push([0, self.pidx(&peer) as u64, 0]),
                VerifServiceCall::OpenSubstream(peer, sid) => {
                    let i = self.pidx(&peer);
                    if i < NP {
                        self.pending_sids[i].push_back(sid);
                    }
                    call_rows.push([1, i as u64, sid as u64]);
                }
                VerifServiceCall::ForceClose(peer) => call_rows.push([2, self.pidx(&peer) as u64, 0]),
            }
        }
        if self.batch_order.is_some() || self.by_peer_step {
            // a batch command / timeouts of several peers: events and calls of the step are printed by peer
            call_rows.sort_by_key(|r| r[1]);
        }
        out.push((call_rows.len() + self.rets.len()) as u64);
        for r in self.rets.drain(..) {
            out.extend(r);
        }
        for r in call_rows {
            out.extend(r);
        }
        for p in 0..NP {
            let peer = self.peers[p];
            let mut st: Vec<u64> = self.notif.driver().peer_state(&peer).into_iter().map(|x| x as u64).collect();
            st.resize(5, 0);
            out.extend(st);
            let (hi, ho) = self.notif.driver().negotiating(&peer);
            out.extend([hi as u64, ho as u64]);
            out.push(self.handle.verif_is_open(&peer) as u64);
            out.push(self.handle.verif_validation_pending(&peer) as u64);
        }
        let po = self.notif.driver().pending_outbound();
        out.push(po.len() as u64);
        for (sid, peer) in po {
            out.extend([sid as u64, self.pidx(&peer) as u64]);
        }
        out.push(self.notif.driver().tasks().1 as u64);
        out.push((self.notif.driver().timers_len() + self.real_fired) as u64);
    }
}

/// peers of a batch command: base-4 digits of the argument, least significant first, digit = peer + 1
fn batch_peers(arg: u64) -> Vec<usize> {
    let mut v = Vec::new();
    let mut a = arg;
    while a % 4 != 0 && v.len() < NP {
        let p = (a % 4 - 1) as usize;
        if !v.contains(&p) {
            v.push(p);
        }
        a /= 4;
    }
    v
}

fn batch_code(order: &[usize]) -> u64 {
    order.iter().rev().fold(0u64, |acc, p| acc * 4 + *p as u64 + 1)
}

/// Runs the case; returns the trace and the case as it was run (the argument of a batch command is
/// rewritten to the order in which the implementation worked through its peers).
fn run_case(c: &[u64]) -> Option<(Vec<u64>, Vec<u64>)> {
    if c.first() == Some(&hs::TAG) {
        return hs::run_case(c);
    }
    if c.len() < 4 {
        return None;
    }
    let (auto_accept, should_dial, mask, nops) = (c[0] != 0, c[1] != 0, c[2], c[3] as usize);
    if c.len() != 4 + 3 * nops {
        return None;
    }
    for i in 0..nops {
        if c[4 + 3 * i] > 28 || c[5 + 3 * i] >= NP as u64 {
            return None;
        }
    }
    let peers: Vec<PeerId> = (0..NP).map(|_| PeerId::random()).collect();
    let dialable: Vec<PeerId> = (0..NP).filter(|i| mask >> i & 1 == 1).map(|i| peers[i]).collect();
    let cap = (mask >> 3) as usize;
    let lazy = cap > 0;
    if lazy && (0..nops).any(|i| matches!(c[4 + 3 * i], 19 | 26 | 27 | 28)) || !lazy && (0..nops).any(|i| c[4 + 3 * i] == 25) {
        return None;
    }
    let (notif, handle) = VerifBounded::new(
        auto_accept,
        should_dial,
        HANDSHAKE.to_vec(),
        &dialable,
        if lazy { cap } else { 4096 },
    );
    let mut run = Run {
        peers,
        notif,
        lazy,
        last_peer: 0,
        handle,
        connected: [None; NP],
        next_conn: 0,
        pending_sids: Default::default(),
        inbound: Default::default(),
        outbound: Default::default(),
        task_ios: Default::default(),
        periods: Vec::new(),
        usink: Default::default(),
        rets: Vec::new(),
        events: Vec::new(),
        real_fired: 0,
        no_hook_timers: (0..nops).any(|i| matches!(c[4 + 3 * i], 19 | 28)),
        stash_calls: Vec::new(),
        batch_order: None,
        by_peer_step: false,
    };
    let mut ran: Vec<u64> = c.to_vec();
    let mut out = vec![1u64];
    for i in 0..nops {
        let (kind, p, arg) = (c[4 + 3 * i], c[5 + 3 * i] as usize, c[6 + 3 * i]);
        let ok = catch_unwind(AssertUnwindSafe(|| if lazy { run.apply_lazy(kind, p, arg) } else { run.apply(kind, p, arg) })).is_ok();
        if !ok {
            // debug_assert!(false) / Poisoned survivor: the protocol is stuck
            out.push(2);
            return Some((out, ran));
        }
        out.push(1);
        if lazy {
            run.observe_lazy(cap, &mut out);
        } else {
            run.observe(&mut out);
        }
        if let Some(code) = run.batch_order.take() {
            ran[6 + 3 * i] = code;
        }
        run.by_peer_step = false;
    }
    Some((out, ran))
}

// ---------------------------------------------------------------- generator

fn random_op(rng: &mut Rng, slow: bool) -> (u64, u64) {
    let arg = rng.chance(75) as u64;
    let kind = match rng.below(100) {
        0..=5 => 0,
        6..=11 => 1,
        12..=22 => 2,
        23..=33 => 3,
        34..=38 => 4,
        39..=41 => 5,
        42..=54 => 6,
        55..=66 => 7,
        67..=76 => 8,
        77..=79 => 9,
        80..=87 => 10,
        88..=91 => 11,
        92 => 12,
        93..=95 => 13,
        96 => if slow { 16 } else { 13 },
        97 => 14,
        98 => if rng.chance(60) { 17 } else { 18 },
        99 => rng.pick(&[15u64, 20, 21, 22, 23, 24]),
        _ => 15,
    };
    let arg = match kind {
        // bit 0: the substream closes are held back; above: what ends the stream (EOF, error frame, write error)
        13 | 18 => (slow && rng.chance(50)) as u64 + 2 * rng.pick(&[0u64, 0, 0, 1, 2]),
        4 => rng.below(8),
        15 => rng.chance(30) as u64,
        _ => arg,
    };
    // now and then one command for several peers
    if rng.chance(3) {
        let set: Vec<usize> = (0..NP).filter(|_| rng.chance(60)).collect();
        if !set.is_empty() {
            return (if rng.chance(70) { 26 } else { 27 }, batch_code(&set));
        }
    }
    (kind, arg)
}

/// A per-peer script that (undisturbed) opens a notification stream and ends it, several rounds.
fn peer_script(rng: &mut Rng, auto_accept: bool, slow: bool) -> Vec<(u64, u64)> {
    let mut s: Vec<(u64, u64)> = Vec::new();
    let rounds = rng.range(1, 3);
    let mut connected = false;
    for _ in 0..rounds {
        if !connected {
            if rng.chance(25) {
                s.push((10, 0)); // open while not connected: dial
                if rng.chance(30) {
                    s.push((5, 0));
                }
            }
            s.push((0, 0));
            connected = true;
        }
        match rng.below(3) {
            0 => {
                // user initiated
                s.extend([(10, 0), (3, 0), (7, 1), (2, 0), (6, 1)]);
                if !auto_accept {
                    s.push((8, 1));
                }
                s.push((6, 1));
            }
            1 => {
                // remote initiated
                s.extend([(2, 0), (6, 1), (8, 1), (6, 1), (3, 0), (7, 1)]);
            }
            _ => {
                // simultaneous
                s.extend([(10, 0), (2, 0), (6, 1), (3, 0)]);
                if !auto_accept {
                    s.push((8, 1));
                }
                s.extend([(6, 1), (7, 1)]);
            }
        }
        for _ in 0..rng.below(3) {
            s.push((17, 0));
        }
        if rng.chance(40) {
            s.push((20, 0));
        }
        for _ in 0..rng.below(3) {
            s.push((rng.pick(&[21u64, 22, 23, 24]), 0));
        }
        // how the stream ends
        if rng.chance(25) {
            s.push((18, (slow && rng.chance(40)) as u64));
            if rng.chance(50) {
                s.push((14, 0));
            }
            continue;
        }
        match rng.below(7) {
            0 => s.push((11, 0)),
            1 => s.push((13, 0)),
            2 => {
                s.push((1, 0));
                connected = false;
            }
            3 if slow => s.extend([(13, 1), (1, 0), (0, 0), (2, 0), (14, 0), (6, 1)]),
            4 if slow => {
                s.extend([(16, 0), (11, 0), (2, 0), (6, 1), (8, 1), (6, 1), (3, 0), (7, 1)]);
                // the user may keep a clone of the new stream's sink while the old task finishes, and ask again
                let keep = rng.chance(50);
                if keep {
                    s.push((20, 0));
                }
                s.push((14, 0));
                if keep {
                    s.push((rng.pick(&[10u64, 1, 21, 17]), 0));
                }
            }
            // the remote closes slowly, the user closes, a new stream is set up and closed slowly by the remote too;
            // then only the OLD task finishes: its shutdown notice meets the new stream whose task is shutting down
            5 if slow => s.extend([
                (13, 1), (11, 0), (2, 0), (6, 1), (8, 1), (6, 1), (3, 0), (7, 1), (13, 1), (14, 1), (2, 0), (6, 1), (8, 1),
                (6, 1), (3, 0), (7, 1), (14, 0),
            ]),
            _ => s.extend([(13, 0), (2, 0)]),
        }
    }
    s
}

fn gen_case(rng: &mut Rng, thorough: bool) -> Vec<u64> {
    let auto_accept = rng.chance(50);
    let should_dial = rng.chance(75) as u64;
    let mask = rng.below(8);
    let np = rng.range(1, NP as u64) as usize;
    // slow = closes of Connection tasks may be delayed across protocol events
    let slow = rng.chance(25);
    let noise = rng.pick(&[0u64, 5, 15, 30, 60, 100]);
    let mut scripts: Vec<VecDeque<(u64, u64)>> =
        (0..np).map(|_| peer_script(rng, auto_accept, slow).into()).collect();
    let limit = if thorough { 150 } else { 70 };
    let mut ops: Vec<[u64; 3]> = Vec::new();
    while ops.len() < limit && scripts.iter().any(|s| !s.is_empty()) {
        let p = rng.below(np as u64) as usize;
        if rng.chance(noise) {
            let (k, a) = random_op(rng, slow);
            let a = if (21..=24).contains(&k) { ops.len() as u64 + 1 } else { a };
            ops.push([k, p as u64, a]);
            continue;
        }
        if rng.chance(4) {
            scripts[p].pop_front(); // lose a step
            continue;
        }
        if scripts[p].len() >= 2 && rng.chance(8) {
            scripts[p].swap(0, 1);
        }
        if let Some((k, a)) = scripts[p].pop_front() {
            let a = if (21..=24).contains(&k) { ops.len() as u64 + 1 } else { a };
            ops.push([k, p as u64, a]);
        }
    }
    if noise == 100 {
        let n = rng.range(5, limit as u64) as usize;
        ops.truncate(n);
    }
    let mut c = vec![auto_accept as u64, should_dial, mask, ops.len() as u64];
    for o in ops {
        c.extend(o);
    }
    c
}

/// lazy-user case built around leftovers: a stream is opened and seen by the user, the remote sends
/// notifications that the user does not collect, the stream ends and a new one is set up before the user
/// polls again: the leftovers must not be handed out in the new stream period.
fn gen_lstale(rng: &mut Rng) -> Vec<u64> {
    let auto_accept = rng.chance(50);
    let cap = rng.pick(&[3u64, 5, 5, 7]);
    let p = rng.below(NP as u64);
    let mut ops: Vec<[u64; 3]> = vec![[0, p, 0]];
    let open_seq = |rng: &mut Rng, ops: &mut Vec<[u64; 3]>| {
        let seq: Vec<(u64, u64)> = match rng.below(3) {
            0 => {
                let mut v = vec![(10, 0), (3, 0), (7, 1), (2, 0), (6, 1)];
                if !auto_accept {
                    v.extend([(25, 0), (8, 1)]);
                }
                v.push((6, 1));
                v
            }
            1 => vec![(2, 0), (6, 1), (25, 0), (8, 1), (6, 1), (3, 0), (7, 1)],
            _ => {
                let mut v = vec![(10, 0), (2, 0), (6, 1), (3, 0)];
                if !auto_accept {
                    v.extend([(25, 0), (8, 1)]);
                }
                v.extend([(6, 1), (7, 1)]);
                v
            }
        };
        for (k, a) in seq {
            ops.push([k, if k == 25 { 0 } else { p }, a]);
        }
    };
    let rounds = rng.range(2, 3);
    for r in 0..rounds {
        open_seq(rng, &mut ops);
        // the user collects everything queued so far: Closed of the previous round, Validate, Opened
        for _ in 0..rng.range(0, 4) {
            ops.push([25, 0, 0]);
        }
        for _ in 0..rng.range(1, 3) {
            ops.push([17, p, 0]);
            if rng.chance(15) {
                ops.push([25, 0, 0]);
            }
        }
        if r + 1 == rounds {
            break;
        }
        match rng.below(4) {
            0 => ops.push([11, p, 0]),
            1 => ops.push([13, p, 0]),
            2 => ops.push([18, p, 0]),
            _ => ops.extend([[1, p, 0], [0, p, 0]]),
        }
    }
    for _ in 0..rng.range(4, 10) {
        ops.push([25, 0, 0]);
    }
    let mut c = vec![auto_accept as u64, 1, cap << 3, ops.len() as u64];
    for o in ops {
        c.extend(o);
    }
    c
}

/// lazy-user case: a small user event channel, the user polls the handle only now and then
fn gen_lcase(rng: &mut Rng, thorough: bool) -> Vec<u64> {
    let base = gen_case(rng, thorough);
    let cap = rng.pick(&[1u64, 1, 2, 3, 5]);
    let poll = rng.pick(&[10u64, 25, 40, 70]);
    let nops = base[3] as usize;
    let mut ops: Vec<[u64; 3]> = Vec::new();
    for i in 0..nops {
        let o = [base[4 + 3 * i], base[5 + 3 * i], base[6 + 3 * i]];
        if (19..=24).contains(&o[0]) || o[0] == 26 || o[0] == 27 {
            continue;
        }
        ops.push(o);
        while rng.chance(poll) {
            ops.push([25, 0, 0]);
        }
        if rng.chance(5) {
            for _ in 0..rng.range(3, 12) {
                ops.push([25, 0, 0]);
            }
        }
    }
    for _ in 0..rng.range(0, 10) {
        ops.push([25, 0, 0]);
    }
    let mut c = vec![base[0], base[1], (base[2] & 7) | (cap << 3), ops.len() as u64];
    for o in ops {
        c.extend(o);
    }
    c
}

pub fn main(args: &Args) {
    let seed = args.u64("seed", 1);
    let ncases = args.u64("cases", 100);
    let thorough = args.str("tier") == Some("thorough");
    let mut out = Outputs::open(args);
    let rt = tokio::runtime::Builder::new_current_thread().enable_all().build().unwrap();
    let _g = rt.enter();
    let mut rng = Rng::new(seed);

    let mut stored: Vec<Vec<u64>> = Vec::new();
    if let Some(r) = args.str("replay") {
        stored = read_cases(Path::new(r));
    } else if let Some(d) = args.str("corpus") {
        stored = read_cases(Path::new(d));
    }
    let run = |c: &[u64]| -> (Vec<u64>, Vec<u64>) {
        catch_unwind(AssertUnwindSafe(|| run_case(c)))
            .unwrap_or(Some((vec![PANIC_MARK], c.to_vec())))
            .unwrap_or((vec![0], c.to_vec()))
    };
    for c in stored.iter() {
        let sleeps = c.len() >= 4 && c[0] != hs::TAG && (0..c[3] as usize).any(|i| matches!(c.get(4 + 3 * i), Some(&19) | Some(&28)));
        if sleeps && !thorough && args.str("replay").is_none() {
            continue; // real 5 s sleeps: thorough tier only
        }
        let (t, ran) = run(c);
        out.emit(&ran, &t);
    }
    if args.str("replay").is_some() {
        return;
    }
    for _ in 0..ncases {
        let mut r = rng.fork();
        let c = if r.chance(8) {
            hs::gen_case(&mut r)
        } else if r.chance(25) {
            if r.chance(12) {
                gen_lstale(&mut r)
            } else {
                gen_lcase(&mut r, thorough)
            }
        } else {
            gen_case(&mut r, thorough)
        };
        let (t, ran) = run(&c);
        out.emit(&ran, &t);
    }
}
