//! C20: Bitswap block paths. Case and trace formats: see coq/C20/Glue.v.
//!
//! kind 1: `block_to_response` on received (prefix, data) entries, digests supplied as an oracle
//!         computed here with `Code::digest` (independently of `block_to_response`);
//! kind 2: `extract_next_batch` / `blocks_message` through the verif wrappers with arbitrary
//!         limits, every produced message decoded again with the crate's prost schema;
//! kind 3: the real `send_response` and `on_message_received`, end to end: two litep2p nodes
//!         over TCP loopback, one `BitswapEvent::Response` per message written.
//! kind 8: the same two nodes: a `send_request` and a mixed `send_response` (presences and blocks),
//!         every `BitswapEvent` the remote user sees.
#[path = "c20_node.rs"]
mod node;

use crate::util::*;
use futures::StreamExt;
use litep2p::{
    config::ConfigBuilder,
    protocol::libp2p::bitswap::{
        verif as bs, BitswapEvent, BitswapHandle, BlockPresenceType, Config as BitswapConfig,
        ResponseType, WantType,
    },
    transport::tcp::config::Config as TcpConfig,
    types::{
        cid::{Cid, Multihash, Version},
        multihash::{Code, MultihashDigest},
    },
    Litep2p, PeerId,
};
use std::{
    collections::VecDeque,
    panic::{catch_unwind, AssertUnwindSafe},
    path::Path,
    time::Duration,
};

const SUPPORTED: [u64; 12] =
    [0x12, 0x13, 0x14, 0x15, 0x16, 0x17, 0x1a, 0x1b, 0x1c, 0x1d, 0xb220, 0xb240];
const UNSUPPORTED: [u64; 8] = [0x00, 0x11, 0x1e, 0xb250, 0xb260, 0x1053, 0x0fff_ffff, u64::MAX];

/// Deterministic payload bytes of (id, length).
pub(crate) fn payload(did: u64, dlen: u64) -> Vec<u8> {
    let mut x = did.wrapping_mul(0x9E37_79B9_7F4A_7C15) ^ 0x5851_F42D_4C95_7F2D;
    let mut v = Vec::with_capacity(dlen as usize);
    while (v.len() as u64) < dlen {
        x ^= x << 13;
        x ^= x >> 7;
        x ^= x << 17;
        let b = x.to_le_bytes();
        let take = std::cmp::min(8, dlen as usize - v.len());
        v.extend_from_slice(&b[..take]);
    }
    v
}

/// The harness's own LEB128 writer (not the crate's).
pub(crate) fn put_varint(mut n: u64, out: &mut Vec<u64>) {
    loop {
        let b = n & 0x7f;
        n >>= 7;
        if n == 0 {
            out.push(b);
            return;
        }
        out.push(b | 0x80);
    }
}

/// Lenient LEB128 reader: value (wrapping) and rest; used only to decide which oracle entries
/// a case needs.
pub(crate) fn get_varint(b: &[u64]) -> Option<(u64, &[u64])> {
    let mut n: u64 = 0;
    for (i, x) in b.iter().enumerate() {
        if i < 10 {
            n |= (x & 0x7f).checked_shl(7 * i as u32).unwrap_or(0);
        }
        if x & 0x80 == 0 {
            return Some((n, &b[i + 1..]));
        }
        if i > 12 {
            return None;
        }
    }
    None
}

fn third_varint(prefix: &[u64]) -> Option<u64> {
    let (_, r) = get_varint(prefix)?;
    let (_, r) = get_varint(r)?;
    let (t, _) = get_varint(r)?;
    Some(t)
}

/// 64-bit values travel as two 32-bit limbs (the wire carries numbers below 2^62).
pub(crate) fn limbs(x: u64) -> [u64; 2] {
    [x >> 32, x & 0xffff_ffff]
}

fn oracle_entry(code: u64, data: &[u8], out: &mut Vec<u64>) {
    out.extend(limbs(code));
    match Code::try_from(code) {
        Ok(c) => {
            let mh = c.digest(data);
            out.push(1);
            out.push(mh.digest().len() as u64);
            out.extend(mh.digest().iter().map(|b| *b as u64));
        }
        Err(_) => out.extend([0, 0]),
    }
}

// ------------------------------------------------------------------ kind 1

fn gen_recv(rng: &mut Rng, thorough: bool) -> Vec<u64> {
    let n = rng.range(1, if thorough { 12 } else { 6 });
    let mut c = vec![1, n];
    for _ in 0..n {
        gen_rblock(rng, thorough, &mut c);
    }
    c
}

/// One received payload entry: `<prefix bytes> did dlen <oracle entries>` appended to `c`.
pub(crate) fn gen_rblock(rng: &mut Rng, thorough: bool, c: &mut Vec<u64>) {
    {
        let version = rng.pick(&[1u64, 1, 1, 1, 1, 1, 1, 1, 1, 1, 0, 0, 0, 2, 3, 127, 128, u64::MAX]);
        let code = if rng.chance(85) { rng.pick(&SUPPORTED) } else { rng.pick(&UNSUPPORTED) };
        let codec = if version == 0 && rng.chance(85) {
            0x70
        } else {
            let r = rng.next();
            rng.pick(&[0x55u64, 0x55, 0x70, 0x71, 0x0129, 1 << 40, u64::MAX, r])
        };
        let code = if version == 0 && rng.chance(80) { 0x12 } else { code };
        let mhlen = rng.pick(&[32u64, 32, 32, 32, 64, 20, 0, 127, 128, 255, 255, 256, 300, 1 << 33]);
        let mut p = Vec::new();
        put_varint(version, &mut p);
        put_varint(codec, &mut p);
        put_varint(code, &mut p);
        put_varint(mhlen, &mut p);
        // byte-level mutations of the prefix
        match rng.below(100) {
            0..=77 => {}
            78..=79 => {
                let k = rng.below(p.len() as u64 + 1) as usize;
                p.truncate(k);
            }
            80 => p.push(rng.below(256)),
            81..=83 => {
                // non-minimal last varint: continuation + 0x00
                let l = p.len();
                p[l - 1] |= 0x80;
                p.push(0);
            }
            84..=87 => {
                // a ten-byte varint in second position: 9 continuation bytes + last byte k
                let k = rng.pick(&[1u64, 2, 3, 0x7f, 0x00, 0x80]);
                let mut q = Vec::new();
                put_varint(version, &mut q);
                q.extend(std::iter::repeat(0x80 | rng.below(128)).take(9));
                q.push(k);
                if k == 0x80 {
                    q.push(1);
                }
                put_varint(code, &mut q);
                put_varint(mhlen, &mut q);
                p = q;
            }
            88..=91 => {
                let i = rng.below(p.len() as u64) as usize;
                p[i] = rng.below(256);
            }
            92..=94 => p.clear(),
            95..=97 => {
                let i = rng.below(p.len() as u64) as usize;
                p[i] ^= 0x80;
            }
            _ => p.extend(std::iter::repeat(0xff).take(rng.range(1, 12) as usize)),
        }
        let did = rng.below(40);
        let dlen = rng.pick(&[0u64, 1, 5, 32, 100, 100, 4096, if thorough { 1 << 20 } else { 70_000 }]);
        let data = payload(did, dlen);
        c.push(p.len() as u64);
        c.extend(p.iter());
        c.extend([did, dlen]);
        let mut codes = vec![code];
        if let Some(t) = third_varint(&p) {
            if !codes.contains(&t) {
                codes.push(t);
            }
        }
        c.push(codes.len() as u64);
        for k in codes {
            oracle_entry(k, &data, c);
        }
    }
}

fn run_recv(c: &[u64]) -> Option<Vec<u64>> {
    let peer = PeerId::random();
    let n = *c.get(1)? as usize;
    let mut i = 2;
    let mut out = vec![1, n as u64];
    for _ in 0..n {
        let plen = *c.get(i)? as usize;
        let prefix: Vec<u8> = c.get(i + 1..i + 1 + plen)?.iter().map(|b| *b as u8).collect();
        if c.get(i + 1..i + 1 + plen)?.iter().any(|b| *b > 255) {
            return None;
        }
        i += 1 + plen;
        let (did, dlen) = (*c.get(i)?, *c.get(i + 1)?);
        i += 2;
        let ntab = *c.get(i)? as usize;
        i += 1;
        for _ in 0..ntab {
            let dl = *c.get(i + 3)? as usize;
            if c.get(i + 4..i + 4 + dl)?.iter().any(|b| *b > 255) {
                return None;
            }
            i += 4 + dl;
        }
        if dlen > (8 << 20) {
            return None;
        }
        let data = payload(did, dlen);
        match bs::block_to_response(&peer, prefix, data.clone()) {
            None => out.push(0),
            Some(ResponseType::Block { cid, block }) => {
                out.extend([1, u64::from(cid.version())]);
                out.extend(limbs(cid.codec()));
                out.extend(limbs(cid.hash().code()));
                out.push(cid.hash().digest().len() as u64);
                out.extend(cid.hash().digest().iter().map(|b| *b as u64));
                if block == data {
                    out.extend([did, dlen]);
                } else {
                    out.extend([did + 1_000_000, block.len() as u64]);
                }
            }
            Some(ResponseType::Presence { .. }) => out.push(9),
        }
    }
    if i != c.len() {
        return None;
    }
    Some(out)
}

// ------------------------------------------------------------------ kinds 2 and 3: blocks to send

/// (version, codec, code, digest_len, dlen) of a queued block.
type Spec = [u64; 5];

fn parse_specs(c: &[u64]) -> Option<Vec<Spec>> {
    let n = *c.first()? as usize;
    if c.len() != 1 + 7 * n {
        return None;
    }
    if c[1..].chunks(7).any(|s| s[1] >> 32 != 0 || s[2] >> 32 != 0 || s[3] >> 32 != 0 || s[4] >> 32 != 0) {
        return None;
    }
    let v: Vec<Spec> = c[1..]
        .chunks(7)
        .map(|s| [s[0], (s[1] << 32) | s[2], (s[3] << 32) | s[4], s[5], s[6]])
        .collect();
    if v.iter().any(|s| s[0] > 1 || s[3] > 64 || s[4] > (8 << 20)) {
        return None;
    }
    Some(v)
}

/// A queued block whose CID has the given shape (the digest is not the hash of the data: the
/// sending side never looks at it).
fn shaped_block(ix: usize, s: &Spec) -> Option<(Cid, Vec<u8>)> {
    let dg: Vec<u8> = (0..s[3]).map(|k| (ix as u64 * 131 + k) as u8).collect();
    let mh = Multihash::wrap(s[2], &dg).ok()?;
    let version = Version::try_from(s[0]).ok()?;
    let cid = Cid::new(version, s[1], mh).ok()?;
    Some((cid, payload(ix as u64, s[4])))
}

/// A queued block under its true CID (needed end to end: the receiver re-hashes).
fn true_block(ix: usize, s: &Spec) -> Option<(Cid, Vec<u8>)> {
    let data = payload(ix as u64, s[4]);
    let code = Code::try_from(s[2]).ok()?;
    let d = code.digest(&data);
    if d.digest().len() as u64 != s[3] {
        return None;
    }
    let mh = Multihash::wrap(d.code(), d.digest()).ok()?;
    let cid = Cid::new(Version::try_from(s[0]).ok()?, s[1], mh).ok()?;
    Some((cid, data))
}

fn put_spec(s: Spec, c: &mut Vec<u64>) {
    c.push(s[0]);
    c.extend(limbs(s[1]));
    c.extend(limbs(s[2]));
    c.extend([s[3], s[4]]);
}

fn gen_spec(rng: &mut Rng, dlen: u64, honest: bool) -> Spec {
    if rng.chance(15) {
        return [0, 0x70, 0x12, 32, dlen];
    }
    if honest {
        let (code, dgl) = rng.pick(&[(0x12u64, 32u64), (0x12, 32), (0x1b, 32), (0xb220, 32), (0x13, 64), (0x17, 28)]);
        let codec = rng.pick(&[0x55u64, 0x55, 0x70, 0x0129, 1 << 40, u64::MAX]);
        return [1, codec, code, dgl, dlen];
    }
    let codec = rng.pick(&[0x55u64, 0x55, 0x70, 1 << 20, (1 << 40) + 5, u64::MAX]);
    let code = rng.pick(&[0x12u64, 0x12, 0xb220, 0x1b, 0x00, 1 << 35, u64::MAX]);
    let dgl = rng.pick(&[32u64, 32, 0, 20, 64]);
    [1, codec, code, dgl, dlen]
}

fn gen_send(rng: &mut Rng, thorough: bool) -> Vec<u64> {
    let full_scale = rng.chance(4);
    let (mb, mm, n) = if full_scale {
        (bs::MAX_BATCH_SIZE as u64, bs::MAX_MESSAGE_SIZE as u64, rng.range(0, 6))
    } else {
        let mb = rng.pick(&[0u64, 1, 10, 20, 100, 127, 128, 1000, 20_000, 1 << 40]);
        let mm = rng.pick(&[0u64, 2, 9, 10, 11, 13, 20, 40, 40, 64, 64, 100, 100, 256, 256, 1100, 1100, 30_000, 30_000, 1 << 40, 1 << 40]);
        (mb, mm, rng.range(0, if thorough { 300 } else { 60 }))
    };
    let style = rng.below(5);
    let mut c = vec![2, mb, mm, n];
    for _ in 0..n {
        let dlen = if full_scale {
            rng.pick(&[0u64, 1, 1000, 1 << 20, mb / 2, mb - 1, mb, mb + 1, (1 << 20) + 77])
        } else {
            match style {
                0 => rng.pick(&[0u64, 0, 0, 1]),
                1 => rng.pick(&[0u64, 1, 2, 3, 5, 9, 10, 11]),
                2 => rng.pick(&[mb.min(70_000), mb.saturating_sub(1).min(70_000), (mb + 1).min(70_000), mb.min(70_000) / 2, 0, 1]),
                3 => rng.pick(&[126u64, 127, 128, 129, 16_383, 16_384, 100, 7]),
                _ => rng.below(mb.min(3000) + 3),
            }
        };
        put_spec(gen_spec(rng, dlen, false), &mut c);
    }
    c
}

fn gen_e2e(rng: &mut Rng, thorough: bool) -> Vec<u64> {
    let big = rng.chance(25);
    let medium = !big && rng.chance(25);
    let n = if big {
        rng.range(1, 5)
    } else if medium {
        rng.range(20, 120)
    } else {
        rng.range(0, if thorough { 200 } else { 40 })
    };
    let mb = bs::MAX_BATCH_SIZE as u64;
    let mut c = vec![3, n];
    for _ in 0..n {
        let dlen = if big {
            rng.pick(&[mb, mb + 1, mb - 1, mb / 2, (1 << 20) + 3, 700_000, 0, 1])
        } else if medium {
            rng.pick(&[70_000u64, 65_536, 40_000, 16_384, 100_000, 0, 1])
        } else {
            let r = rng.below(3000);
            rng.pick(&[0u64, 0, 1, 2, 100, 127, 128, 5000, 20_000, r])
        };
        put_spec(gen_spec(rng, dlen, true), &mut c);
    }
    c
}

/// Identity of a drained/received block: the first original at or after `cursor` that equals it.
fn identify(orig: &[(Cid, Vec<u8>)], cursor: &mut usize, b: &(Cid, Vec<u8>)) -> u64 {
    for j in *cursor..orig.len() {
        if orig[j].0 == b.0 && orig[j].1 == b.1 {
            *cursor = j + 1;
            return j as u64;
        }
    }
    777_777_777
}

fn run_send(c: &[u64]) -> Option<Vec<u64>> {
    let (mb, mm) = (*c.get(1)? as usize, *c.get(2)? as usize);
    let specs = parse_specs(c.get(3..)?)?;
    let orig: Vec<(Cid, Vec<u8>)> =
        specs.iter().enumerate().map(|(i, s)| shaped_block(i, s)).collect::<Option<_>>()?;
    let mut queue: VecDeque<(Cid, Vec<u8>)> = orig.iter().cloned().collect();
    let mut out = vec![2u64, 0];
    let mut nb = 0u64;
    let mut cursor = 0usize;
    loop {
        // the path send_response takes when the message limit is the shipped one
        let batch = if mm == bs::MAX_MESSAGE_SIZE {
            bs::extract_next_batch_default(&mut queue, mb)
        } else {
            bs::extract_next_batch(&mut queue, mb, mm)
        };
        let Some(batch) = batch else { break };
        nb += 1;
        if nb > orig.len() as u64 + 2 {
            // the real loop would spin forever
            out.push(888_888_888);
            break;
        }
        out.push(batch.len() as u64);
        for b in batch.iter() {
            out.push(identify(&orig, &mut cursor, b));
        }
        match bs::blocks_message(batch.clone()) {
            None => out.extend([0, 0]),
            Some((msg, count)) => {
                out.push(msg.len() as u64);
                let dec = bs::decode_payload(&msg)?;
                if count != dec.len() {
                    out.push(666_666_666);
                }
                out.push(dec.len() as u64);
                for (k, (prefix, data)) in dec.iter().enumerate() {
                    out.push(prefix.len() as u64);
                    out.extend(prefix.iter().map(|b| *b as u64));
                    out.push(data.len() as u64);
                    out.push(batch.get(k).map(|b| &b.1 == data).unwrap_or(false) as u64);
                }
            }
        }
    }
    out[1] = nb;
    Some(out)
}

// ------------------------------------------------------------------ kind 3: end to end

struct Net {
    a: Litep2p,
    ha: BitswapHandle,
    b: Litep2p,
    hb: BitswapHandle,
    peer_b: PeerId,
    counter: u64,
}

fn make_node() -> (Litep2p, BitswapHandle) {
    let (config, handle) = BitswapConfig::new();
    let litep2p = Litep2p::new(
        ConfigBuilder::new()
            .with_tcp(TcpConfig {
                listen_addresses: vec!["/ip4/127.0.0.1/tcp/0".parse().unwrap()],
                nodelay: true,
                ..Default::default()
            })
            .with_libp2p_bitswap(config)
            .build(),
    )
    .unwrap();
    (litep2p, handle)
}

impl Net {
    fn new() -> Net {
        let (mut a, ha) = make_node();
        let (b, hb) = make_node();
        let peer_b = *b.local_peer_id();
        a.add_known_address(peer_b, b.listen_addresses().cloned());
        Net { a, ha, b, hb, peer_b, counter: 0 }
    }

    /// Sends the request (if any) with the real `send_request` and the entries (if any) with the
    /// real `send_response`, then a sentinel presence; returns every event the receiver's user
    /// sees before the sentinel.
    async fn exchange(&mut self, job: Job) -> Option<Vec<Ev>> {
        self.counter += 1;
        let tag = format!("sentinel-{}-{}", self.counter, std::process::id());
        let d = Code::Sha2_256.digest(tag.as_bytes());
        let sentinel = Cid::new_v1(0x55, Multihash::wrap(d.code(), d.digest()).unwrap());
        if let Some(cids) = job.request {
            self.ha.send_request(self.peer_b, cids).await;
        }
        if !job.entries.is_empty() {
            self.ha.send_response(self.peer_b, job.entries).await;
        }
        self.ha
            .send_response(
                self.peer_b,
                vec![ResponseType::Presence { cid: sentinel, presence: BlockPresenceType::Have }],
            )
            .await;
        let mut events = Vec::new();
        let deadline = tokio::time::sleep(Duration::from_secs(40));
        tokio::pin!(deadline);
        loop {
            tokio::select! {
                () = &mut deadline => return None,
                _ = self.a.next_event() => {},
                _ = self.b.next_event() => {},
                _ = self.ha.next() => {},
                ev = self.hb.next() => match ev {
                    Some(BitswapEvent::Response { responses, .. }) => {
                        let mut rest = Vec::new();
                        let mut done = false;
                        for r in responses {
                            match r {
                                ResponseType::Presence { cid, .. } if cid == sentinel => done = true,
                                other => rest.push(other),
                            }
                        }
                        if !rest.is_empty() {
                            events.push(Ev::Resp(rest));
                        }
                        if done {
                            return Some(events);
                        }
                    }
                    Some(BitswapEvent::Request { cids, .. }) => events.push(Ev::Req(cids)),
                    None => return None,
                },
            }
        }
    }
}

/// One end-to-end exchange: what node A is asked to send to node B.
#[derive(Clone)]
struct Job {
    request: Option<Vec<(Cid, WantType)>>,
    entries: Vec<ResponseType>,
}

/// What B's user saw.
enum Ev {
    Req(Vec<(Cid, WantType)>),
    Resp(Vec<ResponseType>),
}

/// The end-to-end exchanges run on their own thread and runtime: a defect that makes the
/// implementation spin (e.g. a batching loop that stops making progress) blocks the tokio
/// workers, timers included, so the caller waits with a wall-clock limit and abandons a hung
/// worker (the process exits at the end of the run).
struct E2e {
    tx: std::sync::mpsc::Sender<Job>,
    rx: std::sync::mpsc::Receiver<Option<Vec<Ev>>>,
}

impl E2e {
    fn spawn() -> E2e {
        let (tx, job_rx) = std::sync::mpsc::channel::<Job>();
        let (res_tx, rx) = std::sync::mpsc::channel();
        std::thread::spawn(move || {
            let rt = tokio::runtime::Builder::new_multi_thread()
                .worker_threads(2)
                .enable_all()
                .build()
                .unwrap();
            let mut net: Option<Net> = None;
            while let Ok(job) = job_rx.recv() {
                // a lost connection (keep-alive, scheduling) is not a property of the code
                // under test: retry on fresh nodes before giving up
                let mut result = None;
                for _attempt in 0..3 {
                    if net.is_none() {
                        net = Some(rt.block_on(async { Net::new() }));
                    }
                    let r = catch_unwind(AssertUnwindSafe(|| {
                        rt.block_on(net.as_mut().unwrap().exchange(job.clone()))
                    }));
                    match r {
                        Ok(Some(events)) => {
                            result = Some(events);
                            break;
                        }
                        _ => net = None,
                    }
                }
                if res_tx.send(result).is_err() {
                    return;
                }
            }
        });
        E2e { tx, rx }
    }
}

const E2E_TIMEOUT: u64 = 555_555_555;
const E2E_HUNG: u64 = 444_444_444;

struct E2eState {
    worker: Option<E2e>,
    hung: u32,
}

fn run_e2e(st: &mut E2eState, c: &[u64]) -> Option<Vec<u64>> {
    let specs = parse_specs(c.get(1..)?)?;
    let orig: Vec<(Cid, Vec<u8>)> =
        specs.iter().enumerate().map(|(i, s)| true_block(i, s)).collect::<Option<_>>()?;
    if st.hung >= 2 {
        return Some(vec![3, E2E_HUNG]);
    }
    if st.worker.is_none() {
        st.worker = Some(E2e::spawn());
    }
    let w = st.worker.as_ref().unwrap();
    let job = Job {
        request: None,
        entries: orig.iter().cloned().map(|(cid, block)| ResponseType::Block { cid, block }).collect(),
    };
    if w.tx.send(job).is_err() {
        st.worker = None;
        return Some(vec![3, E2E_TIMEOUT]);
    }
    match w.rx.recv_timeout(Duration::from_secs(100)) {
        Ok(Some(events)) => {
            // the Block entries of every Response event
            let events: Vec<Vec<(Cid, Vec<u8>)>> = events
                .into_iter()
                .filter_map(|e| match e {
                    Ev::Resp(rs) => {
                        let bl: Vec<(Cid, Vec<u8>)> = rs
                            .into_iter()
                            .filter_map(|r| match r {
                                ResponseType::Block { cid, block } => Some((cid, block)),
                                _ => None,
                            })
                            .collect();
                        (!bl.is_empty()).then_some(bl)
                    }
                    Ev::Req(_) => None,
                })
                .collect();
            let mut out = vec![3u64, events.len() as u64];
            let mut cursor = 0usize;
            for ev in events {
                out.push(ev.len() as u64);
                for b in ev.iter() {
                    out.push(identify(&orig, &mut cursor, b));
                }
            }
            Some(out)
        }
        Ok(None) => Some(vec![3, E2E_TIMEOUT]),
        Err(_) => {
            st.worker = None;
            st.hung += 1;
            Some(vec![3, E2E_HUNG])
        }
    }
}

// ------------------------------------------------------------------ kind 8: request + mixed response, end to end

fn gen_mixed(rng: &mut Rng) -> Vec<u64> {
    let mut c = vec![8];
    let nw = rng.pick(&[0u64, 0, 1, 2, 5, 9]);
    c.push(nw);
    for _ in 0..nw {
        node::gen_want(rng, &mut c);
    }
    let np = rng.pick(&[0u64, 0, 1, 3, 6]);
    c.push(np);
    for _ in 0..np {
        node::gen_want(rng, &mut c);
    }
    let nb = rng.pick(&[0u64, 0, 1, 2, 4, 10]);
    c.push(nb);
    let mb = bs::MAX_BATCH_SIZE as u64;
    for _ in 0..nb {
        let dlen = rng.pick(&[0u64, 1, 100, 5000, 70_000, mb / 2 + 1, mb, mb + 1]);
        put_spec(gen_spec(rng, dlen, true), &mut c);
    }
    c
}

fn run_mixed(st: &mut E2eState, c: &[u64]) -> Option<Vec<u64>> {
    let (wants, used) = node::read_wants(c, 1)?;
    let (pres, used2) = node::read_wants(c, used)?;
    let specs = parse_specs(c.get(used2..)?)?;
    let blocks: Vec<(Cid, Vec<u8>)> =
        specs.iter().enumerate().map(|(i, s)| true_block(i, s)).collect::<Option<_>>()?;
    let wants: Vec<(Cid, WantType)> =
        wants.into_iter().map(|(c, t)| (c, if t == 0 { WantType::Block } else { WantType::Have })).collect();
    let pres: Vec<(Cid, BlockPresenceType)> = pres
        .into_iter()
        .map(|(c, t)| (c, if t == 0 { BlockPresenceType::Have } else { BlockPresenceType::DontHave }))
        .collect();
    if st.hung >= 2 {
        return Some(vec![8, E2E_HUNG]);
    }
    if st.worker.is_none() {
        st.worker = Some(E2e::spawn());
    }
    let w = st.worker.as_ref().unwrap();
    let mut entries: Vec<ResponseType> =
        pres.iter().map(|(cid, presence)| ResponseType::Presence { cid: *cid, presence: *presence }).collect();
    entries.extend(blocks.iter().cloned().map(|(cid, block)| ResponseType::Block { cid, block }));
    if w.tx.send(Job { request: Some(wants.clone()), entries }).is_err() {
        st.worker = None;
        return Some(vec![8, E2E_TIMEOUT]);
    }
    match w.rx.recv_timeout(Duration::from_secs(100)) {
        Ok(Some(events)) => {
            let mut out = vec![8u64, events.len() as u64];
            let (mut cw, mut cp, mut cb) = (0usize, 0usize, 0usize);
            for ev in events {
                match ev {
                    Ev::Req(cids) => {
                        out.extend([1, cids.len() as u64]);
                        for x in cids.iter() {
                            let mut id = 777_777_777u64;
                            for j in cw..wants.len() {
                                if wants[j].0 == x.0 && wants[j].1 == x.1 {
                                    cw = j + 1;
                                    id = j as u64;
                                    break;
                                }
                            }
                            out.push(id);
                        }
                    }
                    Ev::Resp(rs) => {
                        let all_p = rs.iter().all(|r| matches!(r, ResponseType::Presence { .. }));
                        let all_b = rs.iter().all(|r| matches!(r, ResponseType::Block { .. }));
                        if all_p {
                            out.extend([2, rs.len() as u64]);
                            for r in rs.iter() {
                                let mut id = 777_777_777u64;
                                if let ResponseType::Presence { cid, presence } = r {
                                    for j in cp..pres.len() {
                                        if &pres[j].0 == cid && pres[j].1 == *presence {
                                            cp = j + 1;
                                            id = j as u64;
                                            break;
                                        }
                                    }
                                }
                                out.push(id);
                            }
                        } else if all_b {
                            out.extend([3, rs.len() as u64]);
                            for r in rs {
                                if let ResponseType::Block { cid, block } = r {
                                    out.push(identify(&blocks, &mut cb, &(cid, block)));
                                }
                            }
                        } else {
                            out.extend([9, 0]);
                        }
                    }
                }
            }
            Some(out)
        }
        Ok(None) => Some(vec![8, E2E_TIMEOUT]),
        Err(_) => {
            st.worker = None;
            st.hung += 1;
            Some(vec![8, E2E_HUNG])
        }
    }
}

// ------------------------------------------------------------------ driver

pub fn main(args: &Args) {
    let seed = args.u64("seed", 1);
    let ncases = args.u64("cases", 100);
    let thorough = args.str("tier") == Some("thorough");
    let mut out = Outputs::open(args);
    let mut net = E2eState { worker: None, hung: 0 };
    let mut rng = Rng::new(seed);

    let run = |c: &[u64], net: &mut E2eState| -> Vec<u64> {
        let r = catch_unwind(AssertUnwindSafe(|| match c.first() {
            Some(1) => run_recv(c),
            Some(2) => run_send(c),
            Some(3) => run_e2e(net, c),
            Some(4) => node::run_node(c),
            Some(5) => node::run_pres(c),
            Some(6) => node::run_wants(c),
            Some(7) => node::run_blocks_msg(c),
            Some(8) => run_mixed(net, c),
            _ => None,
        }));
        match r {
            Ok(Some(t)) => t,
            Ok(None) => vec![0],
            Err(_) => vec![PANIC_MARK],
        }
    };

    let mut stored: Vec<Vec<u64>> = Vec::new();
    if let Some(r) = args.str("replay") {
        stored = read_cases(Path::new(r));
    } else if let Some(d) = args.str("corpus") {
        stored = read_cases(Path::new(d));
    }
    for c in stored.iter() {
        let t = run(c, &mut net);
        out.emit(c, &t);
    }
    if args.str("replay").is_some() {
        drop(out);
        std::process::exit(0);
    }
    for _ in 0..ncases {
        let mut r = rng.fork();
        let c = match r.below(100) {
            0..=29 => gen_recv(&mut r, thorough),
            30..=54 => gen_send(&mut r, thorough),
            55..=58 => gen_e2e(&mut r, thorough),
            59..=87 => node::gen_node(&mut r, thorough),
            88..=92 => node::gen_pres(&mut r, thorough),
            93..=96 => node::gen_wants(&mut r, thorough),
            97 => gen_mixed(&mut r),
            _ => node::gen_blocks_msg(&mut r),
        };
        let t = run(&c, &mut net);
        out.emit(&c, &t);
    }
    // abandoned end-to-end workers may still be spinning
    drop(out);
    std::process::exit(0);
}
