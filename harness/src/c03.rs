//! C03: multistream-select negotiation correspondence. Case / trace formats: coq/C03/Glue.v.
//!
//! Mode 0 runs the real `dialer_select_proto` / `listener_select_proto` futures and the
//! `Negotiated` stream they return over a scripted in-memory duplex (per-call chunk limits and
//! injected `Pending`s taken from the case) under a scheduler script; modes 1 and 2 call the
//! message-based `webrtc_listener_negotiate` / `WebRtcDialerState` on byte vectors.
use crate::util::*;
use futures::{
    io::{AsyncRead, AsyncWrite},
    task::noop_waker,
    Future,
};
use litep2p::{
    verif_multistream_select::{
        dialer_select_proto, listener_select_proto, webrtc_listener_negotiate, HandshakeResult,
        ListenerSelectResult, Negotiated, NegotiationError, ProtocolError, Version,
        WebRtcDialerState,
    },
    ProtocolName,
};
use std::{
    cell::RefCell,
    collections::VecDeque,
    io,
    panic::{catch_unwind, AssertUnwindSafe},
    path::Path,
    pin::Pin,
    rc::Rc,
    task::{Context, Poll},
};

// ------------------------------------------------------------------ scripted duplex

#[derive(Default)]
struct PipeState {
    buf: VecDeque<u8>,
    closed: bool,
    rscript: VecDeque<u64>,
    wscript: VecDeque<u64>,
    total: Vec<u8>,
}

impl PipeState {
    fn sig(&self) -> [u64; 5] {
        [
            self.buf.len() as u64,
            self.closed as u64,
            self.rscript.len() as u64,
            self.wscript.len() as u64,
            self.total.len() as u64,
        ]
    }
}

type Pipe = Rc<RefCell<PipeState>>;

/// One end of the duplex: reads from `rx`, writes to `tx`. Dropping it closes `tx`.
struct End {
    rx: Pipe,
    tx: Pipe,
}

impl Drop for End {
    fn drop(&mut self) {
        self.tx.borrow_mut().closed = true;
    }
}

impl AsyncRead for End {
    fn poll_read(
        self: Pin<&mut Self>,
        _cx: &mut Context<'_>,
        out: &mut [u8],
    ) -> Poll<io::Result<usize>> {
        let mut p = self.rx.borrow_mut();
        if p.buf.is_empty() {
            return if p.closed { Poll::Ready(Ok(0)) } else { Poll::Pending };
        }
        let mut n = out.len().min(p.buf.len());
        if let Some(c) = p.rscript.pop_front() {
            if c == 0 {
                return Poll::Pending;
            }
            n = n.min(c as usize);
        }
        for slot in out.iter_mut().take(n) {
            *slot = p.buf.pop_front().unwrap();
        }
        Poll::Ready(Ok(n))
    }
}

impl AsyncWrite for End {
    fn poll_write(
        self: Pin<&mut Self>,
        _cx: &mut Context<'_>,
        data: &[u8],
    ) -> Poll<io::Result<usize>> {
        let mut p = self.tx.borrow_mut();
        let mut n = data.len();
        if let Some(c) = p.wscript.pop_front() {
            if c == 0 {
                return Poll::Pending;
            }
            n = n.min(c as usize);
        }
        p.buf.extend(&data[..n]);
        p.total.extend_from_slice(&data[..n]);
        Poll::Ready(Ok(n))
    }
    fn poll_flush(self: Pin<&mut Self>, _cx: &mut Context<'_>) -> Poll<io::Result<()>> {
        Poll::Ready(Ok(()))
    }
    fn poll_close(self: Pin<&mut Self>, _cx: &mut Context<'_>) -> Poll<io::Result<()>> {
        self.tx.borrow_mut().closed = true;
        Poll::Ready(Ok(()))
    }
}

// ------------------------------------------------------------------ the task run on each end

#[derive(Clone)]
struct Item(u64, Vec<u8>);
impl AsRef<[u8]> for Item {
    fn as_ref(&self) -> &[u8] {
        &self.1
    }
}

type NegFut = Pin<Box<dyn Future<Output = Result<(Item, Negotiated<End>), NegotiationError>>>>;

enum Phase {
    Neg(NegFut),
    Write(Negotiated<End>, usize),
    Close(Negotiated<End>),
    Read(Negotiated<End>, Vec<u8>),
    Done,
}

struct Task {
    phase: Phase,
    payload: Vec<u8>,
    res: (u64, u64),
    got: Vec<u8>,
    end: u64,
}

fn neg_code(e: &NegotiationError) -> u64 {
    match e {
        NegotiationError::Failed => 1,
        NegotiationError::ProtocolError(p) => match p {
            ProtocolError::InvalidMessage => 2,
            ProtocolError::InvalidProtocol => 3,
            ProtocolError::TooManyProtocols => 4,
            ProtocolError::IoError(e) => match e.kind() {
                io::ErrorKind::InvalidData => 5,
                io::ErrorKind::UnexpectedEof => 6,
                _ => 7,
            },
            ProtocolError::ProtocolNotSupported => 8,
        },
    }
}

fn io_code(e: &io::Error) -> u64 {
    match e.kind() {
        io::ErrorKind::Other => 1,
        io::ErrorKind::UnexpectedEof => 6,
        io::ErrorKind::InvalidData => 5,
        _ => 7,
    }
}

impl Task {
    fn new(fut: NegFut, payload: Vec<u8>) -> Self {
        Task { phase: Phase::Neg(fut), payload, res: (99, 0), got: vec![], end: 98 }
    }
    fn done(&self) -> bool {
        matches!(self.phase, Phase::Done)
    }
    fn poll(&mut self, cx: &mut Context<'_>) {
        loop {
            match std::mem::replace(&mut self.phase, Phase::Done) {
                Phase::Done => return,
                Phase::Neg(mut fut) => match fut.as_mut().poll(cx) {
                    Poll::Pending => {
                        self.phase = Phase::Neg(fut);
                        return;
                    }
                    Poll::Ready(Err(e)) => {
                        self.res = (neg_code(&e), 0);
                        return;
                    }
                    Poll::Ready(Ok((item, neg))) => {
                        self.res = (0, item.0);
                        self.phase = Phase::Write(neg, 0);
                    }
                },
                Phase::Write(mut neg, off) => {
                    if off == self.payload.len() {
                        self.phase = Phase::Close(neg);
                        continue;
                    }
                    match Pin::new(&mut neg).poll_write(cx, &self.payload[off..]) {
                        Poll::Pending => {
                            self.phase = Phase::Write(neg, off);
                            return;
                        }
                        Poll::Ready(Ok(n)) => self.phase = Phase::Write(neg, off + n),
                        Poll::Ready(Err(e)) => {
                            self.end = 100 + io_code(&e);
                            return;
                        }
                    }
                }
                Phase::Close(mut neg) => match Pin::new(&mut neg).poll_close(cx) {
                    Poll::Pending => {
                        self.phase = Phase::Close(neg);
                        return;
                    }
                    Poll::Ready(Ok(())) => self.phase = Phase::Read(neg, vec![]),
                    Poll::Ready(Err(e)) => {
                        self.end = 200 + io_code(&e);
                        return;
                    }
                },
                Phase::Read(mut neg, mut acc) => {
                    let mut buf = [0u8; 64];
                    match Pin::new(&mut neg).poll_read(cx, &mut buf) {
                        Poll::Pending => {
                            self.phase = Phase::Read(neg, acc);
                            return;
                        }
                        Poll::Ready(Ok(0)) => {
                            self.got = acc;
                            self.end = 0;
                            return;
                        }
                        Poll::Ready(Ok(n)) => {
                            acc.extend_from_slice(&buf[..n]);
                            self.phase = Phase::Read(neg, acc);
                        }
                        Poll::Ready(Err(e)) => {
                            self.got = acc;
                            self.end = io_code(&e);
                            return;
                        }
                    }
                }
            }
        }
    }
}

// ------------------------------------------------------------------ case decoding

struct Cur<'a> {
    c: &'a [u64],
    i: usize,
}
impl<'a> Cur<'a> {
    fn n(&mut self) -> Option<u64> {
        let v = *self.c.get(self.i)?;
        self.i += 1;
        Some(v)
    }
    fn list(&mut self) -> Option<Vec<u64>> {
        let k = self.n()? as usize;
        if k > self.c.len() - self.i {
            return None;
        }
        let v = self.c[self.i..self.i + k].to_vec();
        self.i += k;
        Some(v)
    }
    fn bytes(&mut self) -> Option<Vec<u8>> {
        Some(self.list()?.into_iter().map(|x| x as u8).collect())
    }
    fn name(&mut self) -> Option<Vec<u8>> {
        let runs = self.n()? as usize;
        if runs > self.c.len() - self.i {
            return None;
        }
        let mut out = vec![];
        for _ in 0..runs {
            let c = self.n()?;
            let b = self.n()?;
            if c > 20000 {
                return None;
            }
            out.extend(std::iter::repeat(b as u8).take(c as usize));
        }
        Some(out)
    }
    fn pool(&mut self) -> Option<Vec<Vec<u8>>> {
        let k = self.n()? as usize;
        if k > self.c.len() - self.i {
            return None;
        }
        (0..k).map(|_| self.name()).collect()
    }
    fn end(&self) -> bool {
        self.i == self.c.len()
    }
}

fn pick(pool: &[Vec<u8>], idx: &[u64]) -> Option<Vec<Vec<u8>>> {
    idx.iter().map(|i| pool.get(*i as usize).cloned()).collect()
}

fn enc_bytes(out: &mut Vec<u64>, b: &[u8]) {
    out.push(b.len() as u64);
    out.extend(b.iter().map(|x| *x as u64));
}

fn run_mode0(c: &[u64]) -> Option<Vec<u64>> {
    let mut cur = Cur { c, i: 1 };
    let lazy = cur.n()? != 0;
    let pool = cur.pool()?;
    let di = cur.list()?;
    let li = cur.list()?;
    let sched = cur.list()?;
    let dl_r = cur.list()?;
    let dl_w = cur.list()?;
    let ld_r = cur.list()?;
    let ld_w = cur.list()?;
    let dpay = cur.bytes()?;
    let lpay = cur.bytes()?;
    if !cur.end() {
        return None;
    }
    let ds = pick(&pool, &di)?;
    let ls = pick(&pool, &li)?;

    let dl: Pipe = Rc::new(RefCell::new(PipeState {
        rscript: dl_r.into(),
        wscript: dl_w.into(),
        ..Default::default()
    }));
    let ld: Pipe = Rc::new(RefCell::new(PipeState {
        rscript: ld_r.into(),
        wscript: ld_w.into(),
        ..Default::default()
    }));
    let d_end = End { rx: ld.clone(), tx: dl.clone() };
    let l_end = End { rx: dl.clone(), tx: ld.clone() };
    let d_items: Vec<Item> = ds.into_iter().enumerate().map(|(i, n)| Item(i as u64, n)).collect();
    let l_items: Vec<Item> = ls.into_iter().enumerate().map(|(i, n)| Item(i as u64, n)).collect();
    let version = if lazy { Version::V1Lazy } else { Version::V1 };
    let dt = Task::new(Box::pin(dialer_select_proto(d_end, d_items, version)), dpay);
    let lt = Task::new(Box::pin(listener_select_proto(l_end, l_items)), lpay);

    Some(drive(c.len(), dt, lt, &dl, &ld, sched, false))
}

fn drive(
    clen: usize,
    mut dt: Task,
    mut lt: Task,
    dl: &Pipe,
    ld: &Pipe,
    sched: Vec<u64>,
    next0: bool,
) -> Vec<u64> {
    let waker = noop_waker();
    let mut cx = Context::from_waker(&waker);
    let mut sched: VecDeque<u64> = sched.into();
    let mut next = next0;
    let mut idle = 0u64;
    let mut fuel = 2000 + 8 * clen;
    let status;
    loop {
        if fuel == 0 {
            status = 2;
            break;
        }
        fuel -= 1;
        if dt.done() && lt.done() {
            status = 0;
            break;
        }
        if idle >= 4 {
            status = 1;
            break;
        }
        let scripted = !sched.is_empty();
        let who = match sched.pop_front() {
            Some(x) => x != 0,
            None => next,
        };
        let sig = |dt: &Task, lt: &Task| {
            let mut v = dl.borrow().sig().to_vec();
            v.extend(ld.borrow().sig());
            v.push(dt.done() as u64);
            v.push(lt.done() as u64);
            v
        };
        let before = sig(&dt, &lt);
        if who {
            lt.poll(&mut cx);
        } else {
            dt.poll(&mut cx);
        }
        let after = sig(&dt, &lt);
        idle = if scripted {
            0
        } else if before == after {
            idle + 1
        } else {
            0
        };
        next = !who;
    }
    let mut out = vec![1, status, dt.res.0, dt.res.1, lt.res.0, lt.res.1, dt.end, lt.end];
    enc_bytes(&mut out, &dt.got);
    enc_bytes(&mut out, &lt.got);
    enc_bytes(&mut out, &dl.borrow().total);
    enc_bytes(&mut out, &ld.borrow().total);
    let left_dl: Vec<u8> = dl.borrow().buf.iter().copied().collect();
    let left_ld: Vec<u8> = ld.borrow().buf.iter().copied().collect();
    enc_bytes(&mut out, &left_dl);
    enc_bytes(&mut out, &left_ld);
    out
}


fn run_mode3(c: &[u64]) -> Option<Vec<u64>> {
    let mut cur = Cur { c, i: 1 };
    let side = cur.n()? != 0;
    let lazy = cur.n()? != 0;
    let pool = cur.pool()?;
    let ni = cur.list()?;
    let rs = cur.list()?;
    let input = cur.bytes()?;
    let pay = cur.bytes()?;
    if !cur.end() {
        return None;
    }
    let ns = pick(&pool, &ni)?;
    let items: Vec<Item> = ns.into_iter().enumerate().map(|(i, n)| Item(i as u64, n)).collect();
    let inp: Pipe = Rc::new(RefCell::new(PipeState {
        buf: input.into(),
        closed: true,
        rscript: rs.into(),
        ..Default::default()
    }));
    let outp: Pipe = Rc::new(RefCell::new(PipeState::default()));
    let end = End { rx: inp.clone(), tx: outp.clone() };
    let absent = Task { phase: Phase::Done, payload: vec![], res: (99, 0), got: vec![], end: 98 };
    if side {
        let version = if lazy { Version::V1Lazy } else { Version::V1 };
        let dt = Task::new(Box::pin(dialer_select_proto(end, items, version)), pay);
        Some(drive(c.len(), dt, absent, &outp, &inp, vec![], false))
    } else {
        let lt = Task::new(Box::pin(listener_select_proto(end, items)), pay);
        Some(drive(c.len(), absent, lt, &inp, &outp, vec![], true))
    }
}

// ------------------------------------------------------------------ message-based variant

fn pname(b: &[u8]) -> Option<ProtocolName> {
    String::from_utf8(b.to_vec()).ok().map(ProtocolName::from)
}

fn run_mode1(c: &[u64]) -> Option<Vec<u64>> {
    let mut cur = Cur { c, i: 1 };
    let hdr = cur.n()? != 0;
    let pool = cur.pool()?;
    let li = cur.list()?;
    let payload = cur.bytes()?;
    if !cur.end() {
        return None;
    }
    let ls = pick(&pool, &li)?;
    let names: Vec<ProtocolName> = ls.iter().map(|n| pname(n)).collect::<Option<_>>()?;
    let mut out = vec![1];
    match webrtc_listener_negotiate(names, payload.into(), hdr) {
        Ok(ListenerSelectResult::Accepted { protocol, message }) => {
            let i = ls.iter().position(|n| n.as_slice() == protocol.as_bytes())?;
            out.extend([0, i as u64]);
            enc_bytes(&mut out, &message);
        }
        Ok(ListenerSelectResult::Rejected { message }) => {
            out.push(1);
            enc_bytes(&mut out, &message);
        }
        Ok(ListenerSelectResult::PendingProtocol { message }) => {
            out.push(2);
            enc_bytes(&mut out, &message);
        }
        Err(e) => {
            use litep2p::error::{Error, NegotiationError as NE};
            let code = match e {
                Error::NegotiationError(NE::ParseError(_)) => 1,
                Error::NegotiationError(NE::MultistreamSelectError(_)) => 2,
                Error::InvalidData => 3,
                _ => 9,
            };
            out.extend([3, code]);
        }
    }
    Some(out)
}

fn run_mode2(c: &[u64]) -> Option<Vec<u64>> {
    use litep2p::error::NegotiationError as NE;
    let mut cur = Cur { c, i: 1 };
    let pool = cur.pool()?;
    let pi = cur.n()?;
    let fi = cur.list()?;
    let nops = cur.n()? as usize;
    if nops > c.len() {
        return None;
    }
    let mut ops = vec![];
    for _ in 0..nops {
        if cur.n()? == 0 {
            ops.push(Some(cur.bytes()?));
        } else {
            ops.push(None);
        }
    }
    if !cur.end() {
        return None;
    }
    let proto = pname(pool.get(pi as usize)?)?;
    let fbs: Vec<ProtocolName> =
        pick(&pool, &fi)?.iter().map(|n| pname(n)).collect::<Option<_>>()?;
    let mut out = vec![1];
    let mut st = match WebRtcDialerState::propose(proto, fbs) {
        Ok((st, msg)) => {
            out.push(0);
            enc_bytes(&mut out, &msg);
            st
        }
        Err(_) => {
            out.push(1);
            return Some(out);
        }
    };
    for op in ops {
        match op {
            Some(payload) => {
                let code = match st.register_response(payload) {
                    Ok(HandshakeResult::NotReady) => 0,
                    Ok(HandshakeResult::Succeeded(_)) => 1,
                    Ok(HandshakeResult::Rejected) => 2,
                    Err(NE::ParseError(_)) => 11,
                    Err(NE::MultistreamSelectError(NegotiationError::Failed)) => 12,
                    Err(NE::StateMismatch) => 13,
                    Err(NE::MultistreamSelectError(NegotiationError::ProtocolError(_))) => 14,
                    Err(_) => 19,
                };
                out.extend([0, code]);
            }
            None => match st.propose_next_fallback() {
                Ok(None) => out.extend([1, 0]),
                Ok(Some(m)) => {
                    out.extend([1, 1]);
                    enc_bytes(&mut out, &m);
                }
                Err(_) => out.extend([1, 2]),
            },
        }
    }
    Some(out)
}

// ---- mode 4: a whole message-based session, the listener's replies regrouped into messages

/// mirror of `uvi_dec` (unsigned_varint::decode::u64: at most 10 bytes, minimal encodings)
fn uvi_dec(b: &[u8]) -> Option<(u64, usize)> {
    let mut acc: u128 = 0;
    for (i, x) in b.iter().enumerate() {
        acc += ((*x & 0x7f) as u128) << (7 * i as u32);
        if *x < 128 {
            if *x == 0 && i > 0 {
                return None;
            }
            return Some((acc as u64, i + 1));
        }
        if i == 9 {
            return None;
        }
    }
    None
}

/// the varint-length-prefixed frames of a payload (what does not parse stays as one last piece)
fn split_frames(mut b: &[u8]) -> Vec<Vec<u8>> {
    let mut out = vec![];
    while !b.is_empty() {
        match uvi_dec(b) {
            Some((l, n)) if (b.len() - n) as u64 >= l => {
                let k = n + l as usize;
                out.push(b[..k].to_vec());
                b = &b[k..];
            }
            _ => {
                out.push(b.to_vec());
                break;
            }
        }
    }
    out
}

/// messages made of the frames (coq/C03/WGroup.v `group`)
fn group(gs: &[u64], frames: &[Vec<u8>]) -> Vec<Vec<u8>> {
    let mut out = vec![];
    let mut i = 0;
    let mut g = gs.iter();
    while i < frames.len() {
        match g.next() {
            None => {
                out.push(frames[i..].concat());
                i = frames.len();
            }
            Some(0) => out.push(vec![]),
            Some(&k) => {
                let j = (i as u64).saturating_add(k).min(frames.len() as u64) as usize;
                out.push(frames[i..j].concat());
                i = j;
            }
        }
    }
    out
}

fn register_code(st: &mut WebRtcDialerState, payload: Vec<u8>) -> u64 {
    use litep2p::error::NegotiationError as NE;
    match st.register_response(payload) {
        Ok(HandshakeResult::NotReady) => 0,
        Ok(HandshakeResult::Succeeded(_)) => 1,
        Ok(HandshakeResult::Rejected) => 2,
        Err(NE::ParseError(_)) => 11,
        Err(NE::MultistreamSelectError(NegotiationError::Failed)) => 12,
        Err(NE::StateMismatch) => 13,
        Err(NE::MultistreamSelectError(NegotiationError::ProtocolError(_))) => 14,
        Err(_) => 19,
    }
}

fn run_mode4(c: &[u64]) -> Option<Vec<u64>> {
    let mut cur = Cur { c, i: 1 };
    let pool = cur.pool()?;
    let pi = cur.n()?;
    let fi = cur.list()?;
    let li = cur.list()?;
    let ng = cur.n()? as usize;
    if ng > c.len() {
        return None;
    }
    let mut gss = vec![];
    for _ in 0..ng {
        gss.push(cur.list()?);
    }
    if !cur.end() {
        return None;
    }
    let proto = pname(pool.get(pi as usize)?)?;
    let fbs: Vec<ProtocolName> =
        pick(&pool, &fi)?.iter().map(|n| pname(n)).collect::<Option<_>>()?;
    let ls = pick(&pool, &li)?;
    let names: Vec<ProtocolName> = ls.iter().map(|n| pname(n)).collect::<Option<_>>()?;
    let mut out = vec![1];
    let (mut st, mut proposal) = match WebRtcDialerState::propose(proto, fbs) {
        Ok((st, msg)) => {
            out.push(0);
            enc_bytes(&mut out, &msg);
            (st, msg)
        }
        Err(_) => {
            out.push(1);
            return Some(out);
        }
    };
    let mut header_received = false;
    let mut round = 0usize;
    loop {
        // the listener's channel: on_inbound_opening_channel_data
        let (accepted, reply) =
            match webrtc_listener_negotiate(names.clone(), proposal.clone().into(), header_received) {
                Ok(ListenerSelectResult::Accepted { protocol, message }) => {
                    let i = ls.iter().position(|n| n.as_slice() == protocol.as_bytes())?;
                    out.extend([0, i as u64]);
                    enc_bytes(&mut out, &message);
                    (true, message.to_vec())
                }
                Ok(ListenerSelectResult::Rejected { message }) => {
                    out.push(1);
                    enc_bytes(&mut out, &message);
                    (false, message.to_vec())
                }
                Ok(ListenerSelectResult::PendingProtocol { message }) => {
                    out.push(2);
                    enc_bytes(&mut out, &message);
                    (false, message.to_vec())
                }
                Err(e) => {
                    use litep2p::error::{Error, NegotiationError as NE};
                    let code = match e {
                        Error::NegotiationError(NE::ParseError(_)) => 1,
                        Error::NegotiationError(NE::MultistreamSelectError(_)) => 2,
                        Error::InvalidData => 3,
                        _ => 9,
                    };
                    out.extend([3, code]);
                    return Some(out);
                }
            };
        header_received = true;
        // the dialer's channel: on_outbound_opening_channel_data, one call per message
        let empty = vec![];
        let msgs = group(gss.get(round).unwrap_or(&empty), &split_frames(&reply));
        let mut codes = vec![];
        for m in msgs {
            let code = register_code(&mut st, m);
            codes.push(code);
            if code != 0 {
                break;
            }
        }
        out.push(codes.len() as u64);
        out.extend(codes.iter().copied());
        if accepted || codes.last() != Some(&2) {
            return Some(out);
        }
        match st.propose_next_fallback() {
            Ok(None) => {
                out.extend([1, 0]);
                return Some(out);
            }
            Ok(Some(m)) => {
                out.extend([1, 1]);
                enc_bytes(&mut out, &m);
                proposal = m;
            }
            Err(_) => {
                out.extend([1, 2]);
                return Some(out);
            }
        }
        round += 1;
    }
}

fn run_case(c: &[u64]) -> Option<Vec<u64>> {
    match c.first()? {
        0 => run_mode0(c),
        1 => run_mode1(c),
        2 => run_mode2(c),
        3 => run_mode3(c),
        4 => run_mode4(c),
        5 => fallback::run(c),
        6 => run_mode6(c),
        7 => run_mode7(c),
        8 => sub_e2e::run(c),
        9 => run_mode9(c),
        _ => None,
    }
}

// ------------------------------------------------------------------ mode 6: the transports'
// `negotiate_protocol` (multistream-select under `tokio::time::timeout`) on both ends of the
// scripted duplex, polled by hand under a paused tokio clock that the schedule script advances.

type GFut<S> = Pin<Box<dyn Future<Output = Result<(u64, S), u64>>>>;

enum GPhase<S> {
    Neg(GFut<S>),
    Write(S, usize),
    Close(S),
    Read(S, Vec<u8>),
    Done,
}

struct GTask<S> {
    phase: GPhase<S>,
    payload: Vec<u8>,
    res: (u64, u64),
    got: Vec<u8>,
    end: u64,
}

impl<S: AsyncRead + AsyncWrite + Unpin> GTask<S> {
    fn new(fut: GFut<S>, payload: Vec<u8>) -> Self {
        GTask { phase: GPhase::Neg(fut), payload, res: (99, 0), got: vec![], end: 98 }
    }
    fn done(&self) -> bool {
        matches!(self.phase, GPhase::Done)
    }
    fn poll(&mut self, cx: &mut Context<'_>) {
        loop {
            match std::mem::replace(&mut self.phase, GPhase::Done) {
                GPhase::Done => return,
                GPhase::Neg(mut fut) => match fut.as_mut().poll(cx) {
                    Poll::Pending => {
                        self.phase = GPhase::Neg(fut);
                        return;
                    }
                    Poll::Ready(Err(code)) => {
                        self.res = (code, 0);
                        return;
                    }
                    Poll::Ready(Ok((idx, io))) => {
                        self.res = (0, idx);
                        self.phase = GPhase::Write(io, 0);
                    }
                },
                GPhase::Write(mut io, off) => {
                    if off == self.payload.len() {
                        self.phase = GPhase::Close(io);
                        continue;
                    }
                    match Pin::new(&mut io).poll_write(cx, &self.payload[off..]) {
                        Poll::Pending => {
                            self.phase = GPhase::Write(io, off);
                            return;
                        }
                        Poll::Ready(Ok(n)) => self.phase = GPhase::Write(io, off + n),
                        Poll::Ready(Err(e)) => {
                            self.end = 100 + io_code(&e);
                            return;
                        }
                    }
                }
                GPhase::Close(mut io) => match Pin::new(&mut io).poll_close(cx) {
                    Poll::Pending => {
                        self.phase = GPhase::Close(io);
                        return;
                    }
                    Poll::Ready(Ok(())) => self.phase = GPhase::Read(io, vec![]),
                    Poll::Ready(Err(e)) => {
                        self.end = 200 + io_code(&e);
                        return;
                    }
                },
                GPhase::Read(mut io, mut acc) => {
                    let mut buf = [0u8; 64];
                    match Pin::new(&mut io).poll_read(cx, &mut buf) {
                        Poll::Pending => {
                            self.phase = GPhase::Read(io, acc);
                            return;
                        }
                        Poll::Ready(Ok(0)) => {
                            self.got = acc;
                            self.end = 0;
                            return;
                        }
                        Poll::Ready(Ok(n)) => {
                            acc.extend_from_slice(&buf[..n]);
                            self.phase = GPhase::Read(io, acc);
                        }
                        Poll::Ready(Err(e)) => {
                            self.got = acc;
                            self.end = io_code(&e);
                            return;
                        }
                    }
                }
            }
        }
    }
}

fn transport_code(e: &litep2p::error::NegotiationError) -> u64 {
    use litep2p::error::NegotiationError as NE;
    match e {
        NE::Timeout => 9,
        NE::MultistreamSelectError(e) => neg_code(e),
        _ => 77,
    }
}

/// the real `negotiate_protocol` of the chosen transport; the negotiated NAME is mapped back to its
/// first position in `names`, and `Negotiated::inner()` is taken as `open_substream` /
/// `accept_substream` do
fn negotiate_fut(
    transport: u64,
    end: End,
    dialer: bool,
    names: Vec<Vec<u8>>,
    timeout_ms: u64,
) -> Option<GFut<End>> {
    let strings: Vec<String> =
        names.iter().map(|n| String::from_utf8(n.clone()).ok()).collect::<Option<_>>()?;
    let timeout = std::time::Duration::from_millis(timeout_ms);
    Some(Box::pin(async move {
        let res = if transport == 0 {
            litep2p::transport::tcp::verif::TcpConnection::verif_negotiate_protocol(
                end, dialer, strings, timeout,
            )
            .await
        } else {
            litep2p::transport::websocket::verif::negotiate_protocol(end, dialer, strings, timeout)
                .await
        };
        match res {
            Ok((io, protocol)) => {
                let idx = names.iter().position(|n| n.as_slice() == protocol.as_bytes());
                Ok((idx.map(|i| i as u64).unwrap_or(888), io.inner()))
            }
            Err(e) => Err(transport_code(&e)),
        }
    }))
}

fn run_mode6(c: &[u64]) -> Option<Vec<u64>> {
    let mut cur = Cur { c, i: 1 };
    let transport = cur.n()?;
    let to_d = cur.n()?;
    let to_l = cur.n()?;
    let lazy = cur.n()? != 0;
    let pool = cur.pool()?;
    let di = cur.list()?;
    let li = cur.list()?;
    let sched = cur.list()?;
    let dl_r = cur.list()?;
    let dl_w = cur.list()?;
    let ld_r = cur.list()?;
    let ld_w = cur.list()?;
    let dpay = cur.bytes()?;
    let lpay = cur.bytes()?;
    if !cur.end() || lazy {
        return None;
    }
    let ds = pick(&pool, &di)?;
    let ls = pick(&pool, &li)?;
    if ds.iter().chain(ls.iter()).any(|n| n.iter().any(|b| *b >= 128)) {
        return None;
    }
    // durations beyond any schedule never fire; keep them representable
    let cap = |t: u64| t.min(1 << 40);

    let dl: Pipe = Rc::new(RefCell::new(PipeState {
        rscript: dl_r.into(),
        wscript: dl_w.into(),
        ..Default::default()
    }));
    let ld: Pipe = Rc::new(RefCell::new(PipeState {
        rscript: ld_r.into(),
        wscript: ld_w.into(),
        ..Default::default()
    }));
    let d_end = End { rx: ld.clone(), tx: dl.clone() };
    let l_end = End { rx: dl.clone(), tx: ld.clone() };

    let rt = tokio::runtime::Builder::new_current_thread()
        .enable_time()
        .start_paused(true)
        .build()
        .ok()?;
    let clen = c.len();
    let out = rt.block_on(async move {
        let mut dt = GTask::new(negotiate_fut(transport, d_end, true, ds, cap(to_d))?, dpay);
        let mut lt = GTask::new(negotiate_fut(transport, l_end, false, ls, cap(to_l))?, lpay);
        let waker = noop_waker();
        let mut cx = Context::from_waker(&waker);
        let mut sched: VecDeque<u64> = sched.into();
        let mut next = false;
        let mut idle = 0u64;
        let mut fuel = 2000 + 8 * clen;
        let status;
        loop {
            if fuel == 0 {
                status = 2;
                break;
            }
            fuel -= 1;
            if dt.done() && lt.done() {
                status = 0;
                break;
            }
            if idle >= 4 {
                status = 1;
                break;
            }
            let sig = |dt: &GTask<End>, lt: &GTask<End>| {
                let mut v = dl.borrow().sig().to_vec();
                v.extend(ld.borrow().sig());
                v.push(dt.done() as u64);
                v.push(lt.done() as u64);
                v
            };
            match sched.pop_front() {
                Some(x) if x >= 2 => {
                    tokio::time::advance(std::time::Duration::from_millis(1)).await;
                    idle = 0;
                }
                Some(x) => {
                    let who = x != 0;
                    if who {
                        lt.poll(&mut cx);
                    } else {
                        dt.poll(&mut cx);
                    }
                    idle = 0;
                    next = !who;
                }
                None => {
                    let before = sig(&dt, &lt);
                    if next {
                        lt.poll(&mut cx);
                    } else {
                        dt.poll(&mut cx);
                    }
                    let after = sig(&dt, &lt);
                    idle = if before == after { idle + 1 } else { 0 };
                    next = !next;
                }
            }
        }
        let mut out = vec![1, status, dt.res.0, dt.res.1, lt.res.0, lt.res.1, dt.end, lt.end];
        enc_bytes(&mut out, &dt.got);
        enc_bytes(&mut out, &lt.got);
        enc_bytes(&mut out, &dl.borrow().total);
        enc_bytes(&mut out, &ld.borrow().total);
        let left_dl: Vec<u8> = dl.borrow().buf.iter().copied().collect();
        let left_ld: Vec<u8> = ld.borrow().buf.iter().copied().collect();
        enc_bytes(&mut out, &left_dl);
        enc_bytes(&mut out, &left_ld);
        Some(out)
    });
    out
}

// ------------------------------------------------------------------ mode 7: the `Negotiated`
// stream returned by the dialer as an I/O object: a script of read / write / flush / close
// operations, each polled until Ready (the Pendings are counted), against a scripted closed input.

fn run_mode7(c: &[u64]) -> Option<Vec<u64>> {
    let mut cur = Cur { c, i: 1 };
    let lazy = cur.n()? != 0;
    let pool = cur.pool()?;
    let ni = cur.list()?;
    let rs = cur.list()?;
    let ws = cur.list()?;
    let input = cur.bytes()?;
    let nops = cur.n()? as usize;
    if nops > c.len() {
        return None;
    }
    enum Op {
        Read(usize),
        Write(Vec<u8>),
        Flush,
        Close,
    }
    let mut ops = vec![];
    for _ in 0..nops {
        ops.push(match cur.n()? {
            0 => {
                let k = cur.n()?;
                if k == 0 {
                    return None;
                }
                Op::Read(k.min(1 << 20) as usize)
            }
            1 => {
                let b = cur.bytes()?;
                if b.is_empty() {
                    return None;
                }
                Op::Write(b)
            }
            2 => Op::Flush,
            3 => Op::Close,
            _ => return None,
        });
    }
    if !cur.end() {
        return None;
    }
    let ns = pick(&pool, &ni)?;
    let items: Vec<Item> = ns.into_iter().enumerate().map(|(i, n)| Item(i as u64, n)).collect();
    let fuel = 4 + rs.len() + ws.len();
    let inp: Pipe = Rc::new(RefCell::new(PipeState {
        buf: input.into(),
        closed: true,
        rscript: rs.into(),
        ..Default::default()
    }));
    let outp: Pipe = Rc::new(RefCell::new(PipeState { wscript: ws.into(), ..Default::default() }));
    let end = End { rx: inp.clone(), tx: outp.clone() };
    let version = if lazy { Version::V1Lazy } else { Version::V1 };
    let waker = noop_waker();
    let mut cx = Context::from_waker(&waker);

    let mut fut: NegFut = Box::pin(dialer_select_proto(end, items, version));
    let mut np = 0u64;
    let mut res = None;
    for _ in 0..fuel {
        match fut.as_mut().poll(&mut cx) {
            Poll::Pending => np += 1,
            Poll::Ready(r) => {
                res = Some(r);
                break;
            }
        }
    }
    drop(fut);
    let dump = |out: &mut Vec<u64>, state: u64| {
        out.push(state);
        out.push(outp.borrow().closed as u64);
        enc_bytes(out, &outp.borrow().total);
        let left: Vec<u8> = inp.borrow().buf.iter().copied().collect();
        enc_bytes(out, &left);
    };
    let mut out = vec![1];
    let mut neg = match res {
        None => {
            out.extend([99, 0, np]);
            dump(&mut out, 2);
            return Some(out);
        }
        Some(Err(e)) => {
            out.extend([neg_code(&e), 0, np]);
            dump(&mut out, 2);
            return Some(out);
        }
        Some(Ok((item, neg))) => {
            out.extend([0, item.0, np]);
            neg
        }
    };
    for op in ops {
        let mut np = 0u64;
        let mut result: Vec<u64> = vec![0];
        for _ in 0..fuel {
            let r: Poll<Vec<u64>> = match &op {
                Op::Read(k) => {
                    let mut buf = vec![0u8; *k];
                    match Pin::new(&mut neg).poll_read(&mut cx, &mut buf) {
                        Poll::Pending => Poll::Pending,
                        Poll::Ready(Ok(n)) => {
                            let mut v = vec![1];
                            enc_bytes(&mut v, &buf[..n]);
                            Poll::Ready(v)
                        }
                        Poll::Ready(Err(e)) => Poll::Ready(vec![3, io_code(&e)]),
                    }
                }
                Op::Write(data) => match Pin::new(&mut neg).poll_write(&mut cx, data) {
                    Poll::Pending => Poll::Pending,
                    Poll::Ready(Ok(n)) => Poll::Ready(vec![2, n as u64]),
                    Poll::Ready(Err(e)) => Poll::Ready(vec![3, io_code(&e)]),
                },
                Op::Flush => match Pin::new(&mut neg).poll_flush(&mut cx) {
                    Poll::Pending => Poll::Pending,
                    Poll::Ready(Ok(())) => Poll::Ready(vec![2, 0]),
                    Poll::Ready(Err(e)) => Poll::Ready(vec![3, io_code(&e)]),
                },
                Op::Close => match Pin::new(&mut neg).poll_close(&mut cx) {
                    Poll::Pending => Poll::Pending,
                    Poll::Ready(Ok(())) => Poll::Ready(vec![2, 0]),
                    Poll::Ready(Err(e)) => Poll::Ready(vec![3, io_code(&e)]),
                },
            };
            match r {
                Poll::Pending => np += 1,
                Poll::Ready(v) => {
                    result = v;
                    break;
                }
            }
        }
        out.push(match op {
            Op::Read(_) => 0,
            Op::Write(_) => 1,
            Op::Flush => 2,
            Op::Close => 3,
        });
        out.push(np);
        out.extend(result);
    }
    let state = neg.verif_state() as u64;
    dump(&mut out, state);
    Some(out)
}

// ------------------------------------------------------------------ mode 9: differential
// against the REFERENCE implementation, rust-libp2p's `multistream-select` 0.13.0, over the same
// scripted duplex. Each end is one of
//   0 litep2p's select future (dialer_select_proto / listener_select_proto),
//   1 the reference's select future,
//   2 / 3 the TCP / WebSocket transport's `negotiate_protocol` of litep2p (V1 only; the timeout
//     wrapper is there but never fires: the clock is paused and not advanced),
// followed by the same task as in mode 0 on the stream each returns: write the payload, close,
// read to EOF. The reference takes names as `&str`: all names must be valid UTF-8.

use multistream_select as refms;

enum AnyIo {
    Lit(Negotiated<End>),
    Ref(refms::Negotiated<End>),
    Raw(End),
}

impl AsyncRead for AnyIo {
    fn poll_read(
        self: Pin<&mut Self>,
        cx: &mut Context<'_>,
        out: &mut [u8],
    ) -> Poll<io::Result<usize>> {
        match self.get_mut() {
            AnyIo::Lit(s) => Pin::new(s).poll_read(cx, out),
            AnyIo::Ref(s) => Pin::new(s).poll_read(cx, out),
            AnyIo::Raw(s) => Pin::new(s).poll_read(cx, out),
        }
    }
}

impl AsyncWrite for AnyIo {
    fn poll_write(
        self: Pin<&mut Self>,
        cx: &mut Context<'_>,
        data: &[u8],
    ) -> Poll<io::Result<usize>> {
        match self.get_mut() {
            AnyIo::Lit(s) => Pin::new(s).poll_write(cx, data),
            AnyIo::Ref(s) => Pin::new(s).poll_write(cx, data),
            AnyIo::Raw(s) => Pin::new(s).poll_write(cx, data),
        }
    }
    fn poll_flush(self: Pin<&mut Self>, cx: &mut Context<'_>) -> Poll<io::Result<()>> {
        match self.get_mut() {
            AnyIo::Lit(s) => Pin::new(s).poll_flush(cx),
            AnyIo::Ref(s) => Pin::new(s).poll_flush(cx),
            AnyIo::Raw(s) => Pin::new(s).poll_flush(cx),
        }
    }
    fn poll_close(self: Pin<&mut Self>, cx: &mut Context<'_>) -> Poll<io::Result<()>> {
        match self.get_mut() {
            AnyIo::Lit(s) => Pin::new(s).poll_close(cx),
            AnyIo::Ref(s) => Pin::new(s).poll_close(cx),
            AnyIo::Raw(s) => Pin::new(s).poll_close(cx),
        }
    }
}

fn ref_code(e: &refms::NegotiationError) -> u64 {
    match e {
        refms::NegotiationError::Failed => 1,
        refms::NegotiationError::ProtocolError(p) => match p {
            refms::ProtocolError::InvalidMessage => 2,
            refms::ProtocolError::InvalidProtocol => 3,
            refms::ProtocolError::TooManyProtocols => 4,
            refms::ProtocolError::IoError(e) => match e.kind() {
                io::ErrorKind::InvalidData => 5,
                io::ErrorKind::UnexpectedEof => 6,
                _ => 7,
            },
        },
    }
}

#[derive(Clone)]
struct SItem(u64, String);
impl AsRef<str> for SItem {
    fn as_ref(&self) -> &str {
        &self.1
    }
}

/// the negotiation future of one end: `kind` as above
fn any_fut(kind: u64, end: End, dialer: bool, lazy: bool, names: Vec<Vec<u8>>) -> Option<GFut<AnyIo>> {
    match kind {
        0 => {
            let items: Vec<Item> =
                names.into_iter().enumerate().map(|(i, n)| Item(i as u64, n)).collect();
            let version = if lazy { Version::V1Lazy } else { Version::V1 };
            Some(Box::pin(async move {
                let r = if dialer {
                    dialer_select_proto(end, items, version).await
                } else {
                    listener_select_proto(end, items).await
                };
                match r {
                    Ok((item, io)) => Ok((item.0, AnyIo::Lit(io))),
                    Err(e) => Err(neg_code(&e)),
                }
            }))
        }
        1 => {
            let items: Vec<SItem> = names
                .into_iter()
                .enumerate()
                .map(|(i, n)| String::from_utf8(n).ok().map(|s| SItem(i as u64, s)))
                .collect::<Option<_>>()?;
            let version = if lazy { refms::Version::V1Lazy } else { refms::Version::V1 };
            Some(Box::pin(async move {
                let r = if dialer {
                    refms::dialer_select_proto(end, items, version).await
                } else {
                    refms::listener_select_proto(end, items).await
                };
                match r {
                    Ok((item, io)) => Ok((item.0, AnyIo::Ref(io))),
                    Err(e) => Err(ref_code(&e)),
                }
            }))
        }
        2 | 3 => {
            if lazy && dialer {
                return None;
            }
            let fut = negotiate_fut(kind - 2, end, dialer, names, 1 << 40)?;
            Some(Box::pin(async move { fut.await.map(|(i, io)| (i, AnyIo::Raw(io))) }))
        }
        _ => None,
    }
}

fn run_mode9(c: &[u64]) -> Option<Vec<u64>> {
    let mut cur = Cur { c, i: 1 };
    let dkind = cur.n()?;
    let lkind = cur.n()?;
    let lazy = cur.n()? != 0;
    let pool = cur.pool()?;
    let di = cur.list()?;
    let li = cur.list()?;
    let sched = cur.list()?;
    let dl_r = cur.list()?;
    let dl_w = cur.list()?;
    let ld_r = cur.list()?;
    let ld_w = cur.list()?;
    let dpay = cur.bytes()?;
    let lpay = cur.bytes()?;
    if !cur.end() || dkind > 3 || lkind > 3 {
        return None;
    }
    let ds = pick(&pool, &di)?;
    let ls = pick(&pool, &li)?;
    // the domain of this mode: names are text (the reference's API takes `&str`); an optimistic
    // dialer's payload may be parsed as negotiation frames by the listener (the documented
    // pitfall), where the reference demands text again: ASCII payloads only
    if ds.iter().chain(ls.iter()).any(|n| std::str::from_utf8(n).is_err()) {
        return None;
    }
    if lazy && (dkind >= 2 || dpay.iter().any(|b| *b >= 128)) {
        return None;
    }

    let dl: Pipe = Rc::new(RefCell::new(PipeState {
        rscript: dl_r.into(),
        wscript: dl_w.into(),
        ..Default::default()
    }));
    let ld: Pipe = Rc::new(RefCell::new(PipeState {
        rscript: ld_r.into(),
        wscript: ld_w.into(),
        ..Default::default()
    }));
    let d_end = End { rx: ld.clone(), tx: dl.clone() };
    let l_end = End { rx: dl.clone(), tx: ld.clone() };

    // the transports' wrapper creates a tokio timer: run everything inside a paused runtime
    let rt = tokio::runtime::Builder::new_current_thread()
        .enable_time()
        .start_paused(true)
        .build()
        .ok()?;
    let clen = c.len();
    rt.block_on(async move {
        let mut dt = GTask::new(any_fut(dkind, d_end, true, lazy, ds)?, dpay);
        let mut lt = GTask::new(any_fut(lkind, l_end, false, false, ls)?, lpay);
        let waker = noop_waker();
        let mut cx = Context::from_waker(&waker);
        let mut sched: VecDeque<u64> = sched.into();
        let mut next = false;
        let mut idle = 0u64;
        let mut fuel = 2000 + 8 * clen;
        let status;
        loop {
            if fuel == 0 {
                status = 2;
                break;
            }
            fuel -= 1;
            if dt.done() && lt.done() {
                status = 0;
                break;
            }
            if idle >= 4 {
                status = 1;
                break;
            }
            let scripted = !sched.is_empty();
            let who = match sched.pop_front() {
                Some(x) => x != 0,
                None => next,
            };
            let sig = |dt: &GTask<AnyIo>, lt: &GTask<AnyIo>| {
                let mut v = dl.borrow().sig().to_vec();
                v.extend(ld.borrow().sig());
                v.push(dt.done() as u64);
                v.push(lt.done() as u64);
                v
            };
            let before = sig(&dt, &lt);
            if who {
                lt.poll(&mut cx);
            } else {
                dt.poll(&mut cx);
            }
            let after = sig(&dt, &lt);
            idle = if scripted {
                0
            } else if before == after {
                idle + 1
            } else {
                0
            };
            next = !who;
        }
        let mut out = vec![1, status, dt.res.0, dt.res.1, lt.res.0, lt.res.1, dt.end, lt.end];
        enc_bytes(&mut out, &dt.got);
        enc_bytes(&mut out, &lt.got);
        enc_bytes(&mut out, &dl.borrow().total);
        enc_bytes(&mut out, &ld.borrow().total);
        let left_dl: Vec<u8> = dl.borrow().buf.iter().copied().collect();
        let left_ld: Vec<u8> = ld.borrow().buf.iter().copied().collect();
        enc_bytes(&mut out, &left_dl);
        enc_bytes(&mut out, &left_ld);
        Some(out)
    })
}

// ------------------------------------------------------------------ generators

fn rle(b: &[u8]) -> Vec<u64> {
    let mut runs: Vec<(u64, u8)> = vec![];
    for x in b {
        match runs.last_mut() {
            Some((c, y)) if y == x => *c += 1,
            _ => runs.push((1, *x)),
        }
    }
    let mut out = vec![runs.len() as u64];
    for (c, b) in runs {
        out.extend([c, b as u64]);
    }
    out
}

fn long_name(len: usize, fill: u8) -> Vec<u8> {
    let mut v = vec![b'/'];
    v.extend(std::iter::repeat(fill).take(len - 1));
    v
}

const HEADER: &[u8] = b"/multistream/1.0.0";

fn frame_of(body: &[u8]) -> Vec<u8> {
    let mut out = vec![];
    let mut n = body.len();
    loop {
        if n < 128 {
            out.push(n as u8);
            break;
        }
        out.push((n & 0x7f) as u8 | 0x80);
        n >>= 7;
    }
    out.extend_from_slice(body);
    out
}

fn catalog(rng: &mut Rng, allow_long: bool, ascii_only: bool) -> Vec<Vec<u8>> {
    let good: Vec<&[u8]> = vec![
        b"/a", b"/b", b"/c", b"/a/b", b"/a/b/c", b"/ab", b"/proto/1", b"/proto/1/fallback",
        b"/dot/sync/2", b"/aaaaaaaaaaaaaaaa/sync/2", b"/ipfs/kad/1.0.0", b"/", b"//", b"/na", b"/ls",
        b"/multistream/1.0.1", b"/multistream/1.0.00", b"/x y", b"/\x00", b"/\xff\xfe",
    ];
    let bad: Vec<&[u8]> =
        vec![b"no-slash", b"/a\nb", HEADER, b"", b"na", b"ls", b"/x\n", b"\n", b"a/b"];
    let k = rng.range(2, 7) as usize;
    let mut pool: Vec<Vec<u8>> = vec![];
    for _ in 0..k {
        let r = rng.below(100);
        let n: Vec<u8> = if r < 78 {
            rng.pick(&good).to_vec()
        } else if r < 90 {
            rng.pick(&bad).to_vec()
        } else if allow_long {
            let l = rng.pick(&[126usize, 127, 128, 129, 300, 16381, 16382, 16383, 16384]);
            long_name(l, rng.pick(&[b'x', b'y']))
        } else {
            long_name(rng.pick(&[126usize, 127, 128, 129, 300]), b'x')
        };
        if ascii_only && (n.iter().any(|b| *b >= 128) || n.len() > 400) {
            pool.push(b"/q".to_vec());
        } else {
            pool.push(n);
        }
    }
    pool
}

fn script(rng: &mut Rng, max: u64) -> Vec<u64> {
    let k = if rng.chance(25) { 0 } else { rng.below(max + 1) };
    let mut v = vec![k];
    for _ in 0..k {
        v.push(rng.pick(&[0u64, 0, 1, 1, 1, 2, 3, 5, 18, 19, 20, 21, 64, 127, 128, 200, 20000]));
    }
    v
}

fn push_pool(c: &mut Vec<u64>, pool: &[Vec<u8>]) {
    c.push(pool.len() as u64);
    for n in pool {
        c.extend(rle(n));
    }
}

fn push_list(c: &mut Vec<u64>, l: &[u64]) {
    c.push(l.len() as u64);
    c.extend_from_slice(l);
}

fn push_bytes(c: &mut Vec<u64>, b: &[u8]) {
    c.push(b.len() as u64);
    c.extend(b.iter().map(|x| *x as u64));
}

fn gen_payload(rng: &mut Rng, pool: &[Vec<u8>]) -> Vec<u8> {
    match rng.below(10) {
        0 => vec![],
        1 => {
            // looks like a negotiation frame
            let mut b = rng.pick(&[&pool[0], &pool[pool.len() - 1]]).clone();
            b.truncate(200);
            b.push(b'\n');
            frame_of(&b)
        }
        2 => {
            let mut h = HEADER.to_vec();
            h.push(b'\n');
            frame_of(&h)
        }
        3 => frame_of(b"na\n"),
        _ => (0..rng.range(1, 150)).map(|_| rng.next() as u8).collect(),
    }
}

fn gen_mode0(rng: &mut Rng, thorough: bool) -> Vec<u64> {
    let lazy = rng.chance(20);
    let allow_long = rng.chance(if thorough { 12 } else { 6 });
    let pool = catalog(rng, allow_long, false);
    let mut c = vec![0, lazy as u64];
    push_pool(&mut c, &pool);
    let nd = if lazy && rng.chance(60) { 1 } else { rng.below(7) };
    let nl = rng.below(7);
    let di: Vec<u64> = (0..nd).map(|_| rng.below(pool.len() as u64)).collect();
    let li: Vec<u64> = (0..nl).map(|_| rng.below(pool.len() as u64)).collect();
    push_list(&mut c, &di);
    push_list(&mut c, &li);
    let ns = rng.below(40);
    let sched: Vec<u64> = (0..ns).map(|_| rng.below(2)).collect();
    push_list(&mut c, &sched);
    for _ in 0..4 {
        c.extend(script(rng, 30));
    }
    let dp = gen_payload(rng, &pool);
    let lp = gen_payload(rng, &pool);
    push_bytes(&mut c, &dp);
    push_bytes(&mut c, &lp);
    c
}

/// exhaustive small scope: all pairs of lists over a 3-name pool up to length `maxlen`,
/// under `nchunk` fixed chunkings
fn small_scope(maxlen: usize, nchunk: usize) -> Vec<Vec<u64>> {
    fn lists(maxlen: usize) -> Vec<Vec<u64>> {
        let mut all = vec![vec![]];
        let mut frontier = vec![vec![]];
        for _ in 0..maxlen {
            let mut next = vec![];
            for l in &frontier {
                for x in 0..3u64 {
                    let mut m: Vec<u64> = l.clone();
                    m.push(x);
                    next.push(m);
                }
            }
            all.extend(next.iter().cloned());
            frontier = next;
        }
        all
    }
    let pool: Vec<Vec<u8>> = vec![b"/a".to_vec(), b"/a/b".to_vec(), b"/c".to_vec()];
    let chunkings: [(&[u64], &[u64]); 4] = [
        (&[], &[]),
        (&[1, 1, 1, 1, 1, 1, 1, 1, 1, 1, 1, 1, 1, 1, 1, 1, 1, 1, 1, 1, 1, 1, 1, 1, 1, 1, 1, 1, 1, 1], &[1, 1, 1, 1, 1, 1, 1, 1, 1, 1, 1, 1]),
        (&[0, 3, 0, 3, 0, 3, 0, 3, 0, 3, 0, 3], &[2, 0, 2, 0, 2, 0, 2, 0, 2, 0]),
        (&[20, 0, 0, 1, 19, 2], &[21, 0, 1, 0, 5]),
    ];
    let mut out = vec![];
    let ls = lists(maxlen);
    for d in &ls {
        for l in &ls {
            for (k, (r, w)) in chunkings.iter().take(nchunk).enumerate() {
                let mut c = vec![0, 0];
                push_pool(&mut c, &pool);
                push_list(&mut c, d);
                push_list(&mut c, l);
                let sched: Vec<u64> = match k {
                    0 => vec![],
                    1 => vec![1, 1, 0, 1, 1, 0, 0, 0, 1],
                    2 => vec![0, 0, 0, 0, 1, 0, 1, 1, 1, 1, 0],
                    _ => vec![1, 0, 0, 1],
                };
                push_list(&mut c, &sched);
                push_list(&mut c, r);
                push_list(&mut c, w);
                push_list(&mut c, w);
                push_list(&mut c, r);
                push_bytes(&mut c, b"\x13/multistream/1.0.0\nhello");
                push_bytes(&mut c, b"\x03/c\nworld");
                out.push(c);
            }
        }
    }
    out
}

fn uvi(mut n: usize) -> Vec<u8> {
    let mut out = vec![];
    loop {
        if n < 128 {
            out.push(n as u8);
            return out;
        }
        out.push((n & 0x7f) as u8 | 0x80);
        n >>= 7;
    }
}

fn wmsg(body: &[u8]) -> Vec<u8> {
    let mut v = uvi(body.len());
    v.extend_from_slice(body);
    v
}

fn mutate(rng: &mut Rng, mut b: Vec<u8>) -> Vec<u8> {
    match rng.below(8) {
        0 if !b.is_empty() => {
            let k = rng.below(b.len() as u64) as usize;
            b.truncate(k);
        }
        1 if !b.is_empty() => {
            let k = rng.below(b.len() as u64) as usize;
            b[k] = rng.next() as u8;
        }
        2 => b.push(rng.next() as u8),
        3 => {
            let extra = wmsg(b"/a\n");
            b.extend(extra);
        }
        4 if !b.is_empty() => {
            let k = rng.below(b.len() as u64) as usize;
            b.insert(k, rng.pick(&[0x80u8, 0xff, 0x00, 0x0a]));
        }
        _ => {}
    }
    b
}

fn gen_wpayload(rng: &mut Rng, pool: &[Vec<u8>], with_header: bool) -> Vec<u8> {
    let mut h = HEADER.to_vec();
    h.push(b'\n');
    let name = rng.pick(&[&pool[0], &pool[pool.len() / 2], &pool[pool.len() - 1]]).clone();
    let mut line = name;
    line.push(b'\n');
    let body: Vec<u8> = match rng.below(12) {
        0 => b"na\n".to_vec(),
        1 => b"ls\n".to_vec(),
        2 => h.clone(),
        3 => {
            // an ls response
            let mut v = wmsg(&line);
            v.extend(wmsg(b"/zz\n"));
            v.push(b'\n');
            v
        }
        _ => line,
    };
    let mut out = vec![];
    if with_header {
        out.extend(wmsg(&h));
        if rng.chance(15) {
            return out;
        }
    }
    out.extend(wmsg(&body));
    if rng.chance(30) {
        out = mutate(rng, out);
    }
    out
}

fn gen_mode1(rng: &mut Rng) -> Vec<u64> {
    let pool = catalog(rng, false, true);
    let hdr = rng.chance(40);
    let mut c = vec![1, hdr as u64];
    push_pool(&mut c, &pool);
    let nl = rng.below(6);
    let li: Vec<u64> = (0..nl).map(|_| rng.below(pool.len() as u64)).collect();
    push_list(&mut c, &li);
    let with_header = if rng.chance(85) { !hdr } else { hdr };
    let pl = gen_wpayload(rng, &pool, with_header);
    push_bytes(&mut c, &pl);
    c
}

fn gen_mode2(rng: &mut Rng) -> Vec<u64> {
    let pool = catalog(rng, false, true);
    let mut c = vec![2];
    push_pool(&mut c, &pool);
    c.push(rng.below(pool.len() as u64));
    let nf = rng.below(4);
    let fi: Vec<u64> = (0..nf).map(|_| rng.below(pool.len() as u64)).collect();
    push_list(&mut c, &fi);
    let nops = rng.range(1, 6);
    c.push(nops);
    for k in 0..nops {
        if rng.chance(70) {
            c.push(0);
            let wh = k == 0 && rng.chance(80);
            let pl = gen_wpayload(rng, &pool, wh);
            push_bytes(&mut c, &pl);
        } else {
            c.push(1);
        }
    }
    c
}


// ---- message-based sessions under every grouping of the listener's reply into messages

/// grouping scripts for a reply of `n` frames (n = 2: header echo + verdict, n = 1: verdict):
/// every split of the frames into messages, with and without empty messages in between
fn groupings(n: usize) -> Vec<Vec<u64>> {
    if n == 2 {
        vec![vec![], vec![2], vec![1], vec![1, 1], vec![1, 0, 1], vec![1, 0, 0, 1]]
    } else {
        vec![vec![], vec![1], vec![0, 1]]
    }
}

fn name_lists(maxlen: usize) -> Vec<Vec<u64>> {
    let mut all: Vec<Vec<u64>> = vec![vec![]];
    let mut frontier: Vec<Vec<u64>> = vec![vec![]];
    for _ in 0..maxlen {
        let mut next = vec![];
        for l in &frontier {
            for x in 0..3u64 {
                let mut m = l.clone();
                m.push(x);
                next.push(m);
            }
        }
        all.extend(next.iter().cloned());
        frontier = next;
    }
    all
}

/// EXHAUSTIVE small scope for the message-based variant: every dialer list (main :: fallbacks,
/// 1..=dmax names) x every listener list (0..=lmax names) over {/a, /a/b, /c} x every grouping of
/// the first reply (2 frames) x every grouping of the later replies (1 frame).
/// Mode 4: the real WebRtcDialerState against the real webrtc_listener_negotiate.
/// Mode 2: the real WebRtcDialerState against a SCRIPTED legal listener (the frames of the legal
/// answers, computed here, delivered under the grouping; propose_next_fallback after every na).
fn small_scope_webrtc(dmax: usize, lmax: usize, lmax2: usize) -> Vec<Vec<u64>> {
    let pool: Vec<Vec<u8>> = vec![b"/a".to_vec(), b"/a/b".to_vec(), b"/c".to_vec()];
    let mut h = HEADER.to_vec();
    h.push(b'\n');
    let mut out = vec![];
    for d in name_lists(dmax).iter().filter(|d| !d.is_empty()) {
        for l in name_lists(lmax) {
            for g0 in groupings(2) {
                for (k1, g1) in groupings(1).into_iter().enumerate() {
                    if d.len() == 1 && k1 > 0 {
                        continue;
                    }
                    // mode 4
                    let mut c = vec![4];
                    push_pool(&mut c, &pool);
                    c.push(d[0]);
                    push_list(&mut c, &d[1..]);
                    push_list(&mut c, &l);
                    c.push(d.len() as u64);
                    push_list(&mut c, &g0);
                    for _ in 1..d.len() {
                        push_list(&mut c, &g1);
                    }
                    out.push(c);
                    if l.len() > lmax2 {
                        continue;
                    }
                    // mode 2: the legal listener for the set `l`, scripted
                    let mut ops: Vec<Option<Vec<u8>>> = vec![];
                    for (round, x) in d.iter().enumerate() {
                        let mut frames = vec![];
                        if round == 0 {
                            frames.push(wmsg(&h));
                        }
                        let supported = l.contains(x);
                        if supported {
                            let mut line = pool[*x as usize].clone();
                            line.push(b'\n');
                            frames.push(wmsg(&line));
                        } else {
                            frames.push(wmsg(b"na\n"));
                        }
                        for m in group(if round == 0 { &g0 } else { &g1 }, &frames) {
                            ops.push(Some(m));
                        }
                        if supported {
                            break;
                        }
                        ops.push(None);
                    }
                    let mut c = vec![2];
                    push_pool(&mut c, &pool);
                    c.push(d[0]);
                    push_list(&mut c, &d[1..]);
                    c.push(ops.len() as u64);
                    for op in ops {
                        match op {
                            Some(m) => {
                                c.push(0);
                                push_bytes(&mut c, &m);
                            }
                            None => c.push(1),
                        }
                    }
                    out.push(c);
                }
            }
        }
    }
    out
}

fn gen_mode4(rng: &mut Rng) -> Vec<u64> {
    let pool = catalog(rng, false, true);
    let mut c = vec![4];
    push_pool(&mut c, &pool);
    c.push(rng.below(pool.len() as u64));
    let nf = rng.below(4);
    // fallbacks mostly distinct from each other so that several rounds happen
    let fi: Vec<u64> = (0..nf).map(|_| rng.below(pool.len() as u64)).collect();
    push_list(&mut c, &fi);
    let nl = rng.below(5);
    let li: Vec<u64> = (0..nl).map(|_| rng.below(pool.len() as u64)).collect();
    push_list(&mut c, &li);
    let ng = rng.below(6);
    c.push(ng);
    for _ in 0..ng {
        let k = rng.below(4);
        let gs: Vec<u64> = (0..k).map(|_| rng.pick(&[0u64, 1, 1, 1, 2, 3])).collect();
        push_list(&mut c, &gs);
    }
    c
}


fn gen_mode3(rng: &mut Rng) -> Vec<u64> {
    let side = rng.chance(50);
    let lazy = side && rng.chance(15);
    let pool = catalog(rng, false, false);
    let mut c = vec![3, side as u64, lazy as u64];
    push_pool(&mut c, &pool);
    let n = rng.below(5);
    let ni: Vec<u64> = (0..n).map(|_| rng.below(pool.len() as u64)).collect();
    push_list(&mut c, &ni);
    c.extend(script(rng, 30));
    // the scripted peer: a sequence of frames, mostly sensible, sometimes mutated
    let mut h = HEADER.to_vec();
    h.push(b'\n');
    let mut input = vec![];
    if rng.chance(85) {
        input.extend(frame_of(&h));
    }
    let k = rng.below(5);
    for _ in 0..k {
        let mut line = pool[rng.below(pool.len() as u64) as usize].clone();
        line.truncate(300);
        line.push(b'\n');
        let body: Vec<u8> = match rng.below(14) {
            0 | 1 | 2 => b"na\n".to_vec(),
            3 => b"ls\n".to_vec(),
            4 => h.clone(),
            5 => {
                let mut v = wmsg(&line);
                v.extend(wmsg(b"/zz\n"));
                v.push(b'\n');
                v
            }
            6 => vec![b'\n'],
            7 => vec![],
            8 => (0..rng.range(1, 20)).map(|_| rng.next() as u8).collect(),
            _ => line,
        };
        input.extend(frame_of(&body));
    }
    if rng.chance(25) {
        input = mutate(rng, input);
    }
    if rng.chance(30) {
        input.extend((0..rng.range(1, 30)).map(|_| rng.next() as u8));
    }
    push_bytes(&mut c, &input);
    let pay: Vec<u8> = (0..rng.below(20)).map(|_| rng.next() as u8).collect();
    push_bytes(&mut c, &pay);
    c
}

/// mode 6: both ends through the transports' `negotiate_protocol`; the schedule script interleaves
/// polls with clock ticks, the timeouts are drawn around the number of ticks so that none, one or
/// both wrappers fire at various points of the negotiation
fn gen_mode6(rng: &mut Rng) -> Vec<u64> {
    let pool = catalog(rng, false, true);
    let ns = rng.range(0, 60);
    let tick_pct = rng.pick(&[0u64, 5, 15, 30, 50]);
    let sched: Vec<u64> =
        (0..ns).map(|_| if rng.chance(tick_pct) { 2 } else { rng.below(2) }).collect();
    let ticks = sched.iter().filter(|x| **x >= 2).count() as u64;
    let mut timeout = |rng: &mut Rng| -> u64 {
        match rng.below(6) {
            0 => 0,
            1 => rng.below(ticks + 1),
            2 => rng.below(ticks / 2 + 1),
            3 => ticks + 1,
            _ => 10_000,
        }
    };
    let to_d = timeout(rng);
    let to_l = timeout(rng);
    let mut c = vec![6, rng.below(2), to_d, to_l, 0];
    push_pool(&mut c, &pool);
    // open_substream: the main name followed by its fallback names
    let nd = rng.below(6);
    let nl = rng.below(6);
    let di: Vec<u64> = (0..nd).map(|_| rng.below(pool.len() as u64)).collect();
    let li: Vec<u64> = (0..nl).map(|_| rng.below(pool.len() as u64)).collect();
    push_list(&mut c, &di);
    push_list(&mut c, &li);
    push_list(&mut c, &sched);
    for _ in 0..4 {
        c.extend(script(rng, 20));
    }
    let dp = gen_payload(rng, &pool);
    let lp = gen_payload(rng, &pool);
    push_bytes(&mut c, &dp);
    push_bytes(&mut c, &lp);
    c
}

/// mode 7: the stream of a single-name dialer (mostly the optimistic variant) against a scripted
/// listener: header and confirmation (sometimes a rejection, another name, a second header,
/// garbage, a truncation) followed by application bytes, then a script of stream operations
fn gen_mode7(rng: &mut Rng) -> Vec<u64> {
    let lazy = rng.chance(85);
    let pool = catalog(rng, false, false);
    let mut c = vec![7, lazy as u64];
    push_pool(&mut c, &pool);
    let me = rng.below(pool.len() as u64);
    let ni: Vec<u64> = if rng.chance(92) { vec![me] } else { vec![me, rng.below(pool.len() as u64)] };
    push_list(&mut c, &ni);
    c.extend(script(rng, 25));
    c.extend(script(rng, 12));
    let mut h = HEADER.to_vec();
    h.push(b'\n');
    let mut line = pool[me as usize].clone();
    line.truncate(300);
    line.push(b'\n');
    let mut other = pool[rng.below(pool.len() as u64) as usize].clone();
    other.truncate(300);
    other.push(b'\n');
    let mut input = vec![];
    match rng.below(20) {
        0 => {}
        1 => input.extend(frame_of(&line)),
        _ => input.extend(frame_of(&h)),
    }
    match rng.below(20) {
        0 => input.extend(frame_of(b"na\n")),
        1 => input.extend(frame_of(&other)),
        2 => input.extend(frame_of(&h)),
        3 => input.extend(frame_of(b"ls\n")),
        4 => {}
        5 => input.extend((0..rng.range(1, 12)).map(|_| rng.next() as u8)),
        _ => input.extend(frame_of(&line)),
    }
    if rng.chance(8) {
        input = mutate(rng, input);
    }
    // application bytes of the listener, sometimes looking like negotiation frames
    let tail = gen_payload(rng, &pool);
    input.extend(tail);
    push_bytes(&mut c, &input);
    let nops = rng.range(1, 8);
    c.push(nops);
    for _ in 0..nops {
        match rng.below(10) {
            0 | 1 | 2 | 3 => {
                c.push(0);
                c.push(rng.pick(&[1u64, 1, 2, 5, 19, 20, 21, 64, 300]));
            }
            4 | 5 | 6 => {
                c.push(1);
                let data = match rng.below(4) {
                    0 => frame_of(b"na\n"),
                    1 => frame_of(&line),
                    _ => (0..rng.range(1, 40)).map(|_| rng.next() as u8).collect(),
                };
                push_bytes(&mut c, &data);
            }
            7 | 8 => c.push(2),
            _ => c.push(3),
        }
    }
    c
}

/// which implementation runs which end in mode 9: mostly the reference against litep2p (both
/// ways), the reference against itself as a control, sometimes the transports' negotiate path
fn gen_kinds9(rng: &mut Rng) -> (u64, u64) {
    match rng.below(20) {
        0..=6 => (1, 0),
        7..=13 => (0, 1),
        14 | 15 => (1, 1),
        16 => (1, 2),
        17 => (1, 3),
        18 => (2, 1),
        _ => (3, 1),
    }
}

const TEXT_NAMES: &[&[u8]] = &[
    "/\u{e9}t\u{e9}/1".as_bytes(),
    "/\u{43f}\u{440}\u{43e}\u{442}\u{43e}/2".as_bytes(),
    "/\u{1f980}".as_bytes(),
    b"/a//b/",
    b"/ipfs/id/1.0.0",
    b"/ipfs/id/push/1.0.0",
];

/// mode 9: as mode 0, over names that are text; lists with a common name somewhere, disjoint
/// lists, nested names, long and maximum-length names
fn gen_mode9(rng: &mut Rng, thorough: bool) -> Vec<u64> {
    let (dkind, lkind) = gen_kinds9(rng);
    let lazy = dkind < 2 && rng.chance(25);
    let allow_long = rng.chance(if thorough { 12 } else { 8 });
    let mut pool = catalog(rng, allow_long, false);
    for n in pool.iter_mut() {
        if std::str::from_utf8(n).is_err() || rng.chance(12) {
            *n = rng.pick(TEXT_NAMES).to_vec();
        }
    }
    let mut c = vec![9, dkind, lkind, lazy as u64];
    push_pool(&mut c, &pool);
    let nd = if lazy && rng.chance(60) { 1 } else { rng.below(7) };
    let nl = rng.below(7);
    let di: Vec<u64> = (0..nd).map(|_| rng.below(pool.len() as u64)).collect();
    let li: Vec<u64> = (0..nl).map(|_| rng.below(pool.len() as u64)).collect();
    push_list(&mut c, &di);
    push_list(&mut c, &li);
    let ns = rng.below(40);
    let sched: Vec<u64> = (0..ns).map(|_| rng.below(2)).collect();
    push_list(&mut c, &sched);
    for _ in 0..4 {
        c.extend(script(rng, 30));
    }
    let mut dp = gen_payload(rng, &pool);
    let lp = gen_payload(rng, &pool);
    if lazy {
        for b in dp.iter_mut() {
            *b &= 0x7f;
        }
    }
    push_bytes(&mut c, &dp);
    push_bytes(&mut c, &lp);
    c
}

/// the exhaustive small scope of mode 0 with the reference at one end or at both
fn small_scope9(maxlen: usize, nchunk: usize) -> Vec<Vec<u64>> {
    let mut out = vec![];
    for (dk, lk) in [(1u64, 0u64), (0, 1), (1, 1)] {
        for c in small_scope(maxlen, nchunk) {
            let mut d = vec![9, dk, lk];
            d.extend_from_slice(&c[1..]);
            out.push(d);
        }
    }
    out
}

fn exec(c: &[u64]) -> Vec<u64> {
    catch_unwind(AssertUnwindSafe(|| run_case(c)))
        .unwrap_or(Some(vec![PANIC_MARK]))
        .unwrap_or(vec![0])
}

pub fn main(args: &Args) {
    let seed = args.u64("seed", 1);
    let ncases = args.u64("cases", 100);
    let thorough = args.str("tier") == Some("thorough");
    let mut out = Outputs::open(args);
    let mut rng = Rng::new(seed);

    let mut stored: Vec<Vec<u64>> = Vec::new();
    if let Some(r) = args.str("replay") {
        stored = read_cases(Path::new(r));
    } else if let Some(d) = args.str("corpus") {
        stored = read_cases(Path::new(d));
    }
    for c in stored.iter() {
        out.emit(c, &exec(c));
    }
    if args.str("replay").is_some() {
        return;
    }
    for c in small_scope(if thorough { 3 } else { 2 }, if thorough { 4 } else { 2 }) {
        out.emit(&c, &exec(&c));
    }
    for c in small_scope9(2, if thorough { 4 } else { 2 }) {
        out.emit(&c, &exec(&c));
    }
    // message-based variant: every grouping of the listener's reply frames into messages
    for c in if thorough { small_scope_webrtc(3, 2, 2) } else { small_scope_webrtc(2, 2, 1) } {
        out.emit(&c, &exec(&c));
    }
    for i in 0..ncases {
        let mut r = rng.fork();
        // a request between two real nodes (loopback TCP / WebSocket): a few per run
        if i % 100 == 7 {
            let c = sub_e2e::gen(&mut r);
            out.emit(&c, &exec(&c));
            continue;
        }
        let c = match i % 20 {
            0 | 1 | 10 => gen_mode1(&mut r),
            2 | 12 => gen_mode2(&mut r),
            3 | 4 | 13 => gen_mode3(&mut r),
            9 | 19 => fallback::gen(&mut r),
            5 | 11 | 15 => gen_mode6(&mut r),
            6 | 14 | 16 => gen_mode7(&mut r),
            _ => gen_mode0(&mut r, thorough),
        };
        out.emit(&c, &exec(&c));
    }
    // the differential stream against the reference implementation: a fraction of the cases,
    // from its own generator so that the other modes' cases do not move
    // random message-based sessions (mode 4), again from their own generator
    let mut rng4 = Rng::new(seed ^ 0x4444_1234);
    for _ in 0..ncases / 25 {
        let mut r = rng4.fork();
        let c = gen_mode4(&mut r);
        out.emit(&c, &exec(&c));
    }
    let mut rng9 = Rng::new(seed ^ 0x9e37_79b9);
    for _ in 0..ncases / 8 {
        let mut r = rng9.fork();
        let c = gen_mode9(&mut r, thorough);
        out.emit(&c, &exec(&c));
    }
}

// ------------------------------------------------------------------ mode 5
/// C03, mode 5: the fallback-name -> main-protocol mapping of `ProtocolSet`.
mod fallback {
    // C03, mode 5: the fallback-name -> main-protocol mapping of `ProtocolSet`.
    // Case / trace formats: coq/C03/Fallback.v.
    //
    // A real `ProtocolSet` is built from real `ProtocolContext`s (one tokio mpsc channel per main
    // protocol, receivers kept here); every report of the case calls the real
    // `report_substream_open` with a real (TCP-flavoured, yamux-backed) `Substream` and a real
    // `Permit`, and the `InnerTransportEvent::SubstreamOpened` is read back from the receivers.
    // The trace ends with the real `protocols_with_keep_alives()` table, each offered name paired
    // with the main protocol that the real `protocol_codec()` resolves it to.
    //
    // The one unspecified behaviour (a fallback name declared by several main protocols: the
    // winner depends on the iteration order of a `HashMap` with a per-instance random hasher) is
    // steered, not guessed: the configuration list of the case is read as "the iteration order",
    // i.e. the last declarer wins, and the `ProtocolSet` is rebuilt (fresh hasher keys every
    // time) until the real table agrees with that order on every shared name.
    use crate::util::Rng;
    use futures::{io::Cursor, task::noop_waker};
    use litep2p::{
        codec::ProtocolCodec,
        error::{NegotiationError, SubstreamError},
        protocol::{
            verif_protocol_set::{
                InnerTransportEvent, ProtocolContext, ProtocolSet, TransportManagerEvent,
            },
            Direction, SubstreamKeepAlive,
        },
        substream::Substream,
        types::{ConnectionId, SubstreamId},
        verif_multistream_select::{NegotiationError as MsNegotiationError, ProtocolError},
        yamux, PeerId, ProtocolName,
    };
    use std::{
        collections::HashMap,
        task::{Context, Poll},
    };
    use tokio::sync::mpsc::{channel, Receiver};

    // ------------------------------------------------------------------ case decoding

    struct Cur<'a> {
        c: &'a [u64],
        i: usize,
    }
    impl<'a> Cur<'a> {
        fn n(&mut self) -> Option<u64> {
            let v = *self.c.get(self.i)?;
            self.i += 1;
            Some(v)
        }
        /// count of a count-prefixed list, bounded by the remaining input (as `plist` in Wire.v)
        fn count(&mut self) -> Option<usize> {
            let k = self.n()?;
            if k > (self.c.len() - self.i) as u64 {
                return None;
            }
            Some(k as usize)
        }
        fn list(&mut self) -> Option<Vec<u64>> {
            let k = self.count()?;
            let v = self.c[self.i..self.i + k].to_vec();
            self.i += k;
            Some(v)
        }
        /// a name: count-prefixed list of (count byte) runs; only ASCII bytes are accepted
        fn name(&mut self) -> Option<Vec<u8>> {
            let runs = self.count()?;
            let mut out = vec![];
            for _ in 0..runs {
                let c = self.n()?;
                let b = self.n()?;
                if c > 20000 {
                    return None;
                }
                if b >= 128 && c > 0 {
                    return None;
                }
                out.extend(std::iter::repeat(b as u8).take(c as usize));
            }
            Some(out)
        }
    }

    struct Case {
        pool: Vec<Vec<u8>>,
        /// (main, fallbacks) as pool indices, in case order
        cfg: Vec<(usize, Vec<usize>)>,
        reps: Vec<usize>,
    }

    fn decode(c: &[u64]) -> Option<Case> {
        let mut cur = Cur { c, i: 0 };
        if cur.n()? != 5 {
            return None;
        }
        let k = cur.count()?;
        let pool: Vec<Vec<u8>> = (0..k).map(|_| cur.name()).collect::<Option<_>>()?;
        let idx = |x: u64| -> Option<usize> { (x < pool.len() as u64).then_some(x as usize) };
        let k = cur.count()?;
        let mut cfg = vec![];
        for _ in 0..k {
            let m = cur.n()?;
            let fs = cur.list()?;
            cfg.push((m, fs));
        }
        let reps = cur.list()?;
        if cur.i != c.len() {
            return None;
        }
        let cfg: Vec<(usize, Vec<usize>)> = cfg
            .into_iter()
            .map(|(m, fs)| Some((idx(m)?, fs.into_iter().map(idx).collect::<Option<_>>()?)))
            .collect::<Option<_>>()?;
        let reps: Vec<usize> = reps.into_iter().map(idx).collect::<Option<_>>()?;
        // a `HashMap<ProtocolName, ProtocolContext>` cannot hold two entries with one main name
        for (a, (m, _)) in cfg.iter().enumerate() {
            if cfg[..a].iter().any(|(m2, _)| pool[*m2] == pool[*m]) {
                return None;
            }
        }
        Some(Case { pool, cfg, reps })
    }

    // ------------------------------------------------------------------ running the real code

    fn pname(b: &[u8]) -> ProtocolName {
        // ASCII by construction
        ProtocolName::from(String::from_utf8(b.to_vec()).expect("ascii"))
    }

    struct Built {
        set: ProtocolSet,
        rxs: Vec<Receiver<InnerTransportEvent>>,
        _mgr_rx: Receiver<TransportManagerEvent>,
    }

    fn build(case: &Case) -> Built {
        let (mgr_tx, mgr_rx) = channel(64);
        let mut rxs = vec![];
        let mut protocols = HashMap::new();
        for (j, (m, fs)) in case.cfg.iter().enumerate() {
            let (tx, rx) = channel(64);
            rxs.push(rx);
            protocols.insert(
                pname(&case.pool[*m]),
                ProtocolContext {
                    tx,
                    codec: ProtocolCodec::Identity(j + 1),
                    fallback_names: fs.iter().map(|f| pname(&case.pool[*f])).collect(),
                    keep_alive: if j % 2 == 0 { SubstreamKeepAlive::Yes } else { SubstreamKeepAlive::No },
                },
            );
        }
        let set = ProtocolSet::new(ConnectionId::from(0usize), mgr_tx, Default::default(), protocols);
        Built { set, rxs, _mgr_rx: mgr_rx }
    }

    /// configuration position of the main protocol that the real `protocol_codec` resolves `name`
    /// to (`name` must be an offered name, otherwise the real function panics)
    fn codec_main(set: &ProtocolSet, name: &ProtocolName) -> Option<usize> {
        match set.protocol_codec(name) {
            ProtocolCodec::Identity(k) if k >= 1 => Some(k - 1),
            _ => None,
        }
    }

    /// Names declared as fallback by more than one configuration entry, with the position of the
    /// last declarer.
    fn shared(case: &Case) -> Vec<(Vec<u8>, usize)> {
        let mut out: Vec<(Vec<u8>, usize, usize)> = vec![]; // name, last declarer, #declarers
        for (j, (_, fs)) in case.cfg.iter().enumerate() {
            for f in fs {
                let n = &case.pool[*f];
                match out.iter_mut().find(|(x, _, _)| x == n) {
                    Some(e) if e.1 != j => {
                        e.1 = j;
                        e.2 += 1;
                    }
                    Some(_) => {}
                    None => out.push((n.clone(), j, 1)),
                }
            }
        }
        out.into_iter().filter(|e| e.2 > 1).map(|e| (e.0, e.1)).collect()
    }

    fn build_steered(case: &Case) -> Built {
        let sh = shared(case);
        let mut b = build(case);
        if sh.is_empty() {
            return b;
        }
        for _ in 0..20000 {
            if sh.iter().all(|(n, j)| codec_main(&b.set, &pname(n)) == Some(*j)) {
                break;
            }
            b = build(case);
        }
        b
    }

    fn canon(pool: &[Vec<u8>], name: &[u8]) -> Option<u64> {
        pool.iter().position(|n| n.as_slice() == name).map(|i| i as u64)
    }

    fn is_not_supported(e: &SubstreamError) -> bool {
        matches!(
            e,
            SubstreamError::NegotiationError(NegotiationError::MultistreamSelectError(
                MsNegotiationError::ProtocolError(ProtocolError::ProtocolNotSupported)
            ))
        )
    }

    pub fn run(c: &[u64]) -> Option<Vec<u64>> {
        let case = decode(c)?;
        let mut b = build_steered(&case);

        // real substreams: outbound streams of a yamux connection over an in-memory socket that is
        // never driven
        let mut conn = yamux::Connection::new(
            Cursor::new(Vec::<u8>::new()),
            yamux::Config::default(),
            yamux::Mode::Client,
        );
        let waker = noop_waker();
        let mut cx = Context::from_waker(&waker);

        let mut out = vec![1u64];
        for (k, r) in case.reps.iter().enumerate() {
            let negotiated = pname(&case.pool[*r]);
            let stream = match conn.poll_new_outbound(&mut cx) {
                Poll::Ready(Ok(s)) => s,
                _ => return None,
            };
            let peer = PeerId::random();
            let substream = Substream::new_verif_yamux(peer, SubstreamId::from(k), stream);
            let permit = b.set.try_get_permit()?;
            let res = futures::executor::block_on(b.set.report_substream_open(
                peer,
                negotiated,
                Direction::Inbound,
                substream,
                permit,
            ));
            // what arrived, and on whose channel
            let mut got = vec![];
            for (j, rx) in b.rxs.iter_mut().enumerate() {
                while let Ok(ev) = rx.try_recv() {
                    got.push((j, ev));
                }
            }
            match res {
                Err(e) => {
                    if !got.is_empty() {
                        out.push(4);
                    } else if is_not_supported(&e) {
                        out.push(0);
                    } else {
                        out.push(3);
                    }
                }
                Ok(()) => {
                    if got.len() != 1 {
                        out.extend([5, got.len() as u64]);
                        continue;
                    }
                    let (j, ev) = got.pop().unwrap();
                    match ev {
                        InnerTransportEvent::SubstreamOpened {
                            peer: p,
                            protocol,
                            fallback,
                            direction,
                            ..
                        } => {
                            let main_of_channel = case.pool[case.cfg[j].0].as_slice();
                            if p != peer
                                || direction != Direction::Inbound
                                || protocol.as_bytes() != main_of_channel
                            {
                                // delivered to a channel that does not belong to the reported name
                                out.extend([2, canon(&case.pool, main_of_channel)?]);
                                continue;
                            }
                            let mi = canon(&case.pool, protocol.as_bytes())?;
                            match fallback {
                                Some(f) => match canon(&case.pool, f.as_bytes()) {
                                    Some(fi) => out.extend([1, mi, 1, fi]),
                                    None => out.extend([6, mi]),
                                },
                                None => out.extend([1, mi, 0, 0]),
                            }
                        }
                        _ => out.push(7),
                    }
                }
            }
        }

        // the offered table (what the connection feeds to multistream-select), canonicalised:
        // sorted by pool index
        let mut offered: Vec<[u64; 3]> = vec![];
        for (name, ka) in b.set.protocols_with_keep_alives() {
            let ni = canon(&case.pool, name.as_bytes())?;
            let j = codec_main(&b.set, &name)?;
            let mi = canon(&case.pool, &case.pool[case.cfg.get(j)?.0])?;
            offered.push([ni, mi, (ka == SubstreamKeepAlive::Yes) as u64]);
        }
        offered.sort();
        out.push(offered.len() as u64);
        for o in offered {
            out.extend(o);
        }
        Some(out)
    }

    // ------------------------------------------------------------------ generator

    fn rle(b: &[u8]) -> Vec<u64> {
        let mut runs: Vec<(u64, u8)> = vec![];
        for x in b {
            match runs.last_mut() {
                Some((c, y)) if y == x => *c += 1,
                _ => runs.push((1, *x)),
            }
        }
        let mut out = vec![runs.len() as u64];
        for (c, b) in runs {
            out.extend([c, b as u64]);
        }
        out
    }

    const NAMES: &[&[u8]] = &[
        b"/a",
        b"/a/b",
        b"/a/b/c",
        b"/b",
        b"/c",
        b"/ab",
        b"/proto/1",
        b"/proto/1/fallback",
        b"/notif/1",
        b"/notif/1/fallback/1",
        b"/notif/1/fallback/2",
        b"/ipfs/kad/1.0.0",
        b"/",
        b"",
        b"/aa",
    ];

    /// 1-4 main protocols with 0-3 fallback names each over a small pool with nested names.
    /// About 80% of the cases are well-formed (every name has one role); the rest has one or two
    /// degenerate twists: a fallback name equal to a main name (its own or another's), a fallback
    /// name shared by two mains, a fallback repeated within one main. Reports mix fallback, main
    /// and unknown names. The pool occasionally repeats a name under two indices.
    pub fn gen(rng: &mut Rng) -> Vec<u64> {
        // pool: a shuffled selection of distinct names
        let mut all: Vec<&[u8]> = NAMES.to_vec();
        for i in (1..all.len()).rev() {
            let j = rng.below(i as u64 + 1) as usize;
            all.swap(i, j);
        }
        let np = rng.range(3, 10) as usize;
        let mut pool: Vec<Vec<u8>> = all[..np].iter().map(|n| n.to_vec()).collect();
        // distinct-name indices still free
        let mut free: Vec<usize> = (0..np).collect();
        let nm = rng.range(1, 4).min(np as u64 - 1) as usize;
        let mut cfg: Vec<(usize, Vec<usize>)> = vec![];
        for _ in 0..nm {
            let m = free.remove(rng.below(free.len() as u64) as usize);
            cfg.push((m, vec![]));
        }
        for e in cfg.iter_mut() {
            let nf = rng.below(4);
            for _ in 0..nf {
                if free.len() > 1 || (free.len() == 1 && rng.chance(50)) {
                    let f = free.remove(rng.below(free.len() as u64) as usize);
                    e.1.push(f);
                }
            }
        }
        if rng.chance(22) {
            for _ in 0..rng.range(1, 2) {
                let n = cfg.len();
                let a = rng.below(n as u64) as usize;
                match rng.below(5) {
                    1 | 2 | 3 if n > 1 => {
                        // a fallback shared with another main
                        let b = (a + 1 + rng.below(n as u64 - 1) as usize) % n;
                        if let Some(f) = cfg[b].1.first().copied() {
                            let at = rng.below(cfg[a].1.len() as u64 + 1) as usize;
                            cfg[a].1.insert(at, f);
                        } else if let Some(f) = free.first().copied() {
                            cfg[a].1.push(f);
                            cfg[b].1.push(f);
                        } else {
                            let f = cfg[a].0;
                            cfg[a].1.push(f);
                            cfg[b].1.push(f);
                        }
                    }
                    4 if !cfg[a].1.is_empty() => {
                        // a fallback repeated within one main (harmless, still well-formed)
                        let f = cfg[a].1[0];
                        cfg[a].1.push(f);
                    }
                    _ => {
                        // a fallback equal to a main name (possibly its own)
                        let b = rng.below(n as u64) as usize;
                        let m = cfg[b].0;
                        cfg[a].1.push(m);
                    }
                }
            }
        }
        // the same name under a second pool index
        if rng.chance(10) {
            let i = rng.below(pool.len() as u64) as usize;
            let n = pool[i].clone();
            pool.push(n);
        }
        let nr = rng.range(1, 6);
        let mut reps = vec![];
        for _ in 0..nr {
            let e = &cfg[rng.below(cfg.len() as u64) as usize];
            let r = match rng.below(10) {
                0..=4 if !e.1.is_empty() => e.1[rng.below(e.1.len() as u64) as usize],
                0..=6 => e.0,
                _ => rng.below(pool.len() as u64) as usize,
            };
            reps.push(r);
        }

        let mut c = vec![5, pool.len() as u64];
        for n in &pool {
            c.extend(rle(n));
        }
        c.push(cfg.len() as u64);
        for (m, fs) in &cfg {
            c.push(*m as u64);
            c.push(fs.len() as u64);
            c.extend(fs.iter().map(|f| *f as u64));
        }
        c.push(reps.len() as u64);
        c.extend(reps.iter().map(|r| *r as u64));
        c
    }

}

// ------------------------------------------------------------------ mode 8
/// C03, mode 8: a substream opened with fallback names between two real nodes.
mod sub_e2e {
    // Case / trace formats: coq/C03/Sub.v. Two `Litep2p` instances over loopback TCP or
    // WebSocket; every entry of a configuration is a request-response protocol (main name +
    // fallback names). Protocol k of node A sends one request to node B (dialing it): the real
    // `open_substream` proposes main :: fallbacks, B's `accept_substream` offers the names of its
    // ProtocolSet, both ends go through `report_substream_open`. Observed: A's terminal event
    // (response with the fallback used, or failure) and which protocol of B received the request,
    // with which fallback.
    use crate::util::Rng;
    use futures::StreamExt;
    use litep2p::{
        config::ConfigBuilder,
        crypto::ed25519::Keypair,
        protocol::request_response::{
            ConfigBuilder as RrBuilder, DialOptions, RequestResponseEvent, RequestResponseHandle,
        },
        transport::{tcp::config::Config as TcpConfig, websocket::config::Config as WsConfig},
        types::protocol::ProtocolName,
        Litep2p,
    };
    use std::{sync::OnceLock, time::Duration};
    use tokio::sync::mpsc;

    const HEADER: &[u8] = b"/multistream/1.0.0";

    struct Cur<'a> {
        c: &'a [u64],
        i: usize,
    }
    impl<'a> Cur<'a> {
        fn n(&mut self) -> Option<u64> {
            let v = *self.c.get(self.i)?;
            self.i += 1;
            Some(v)
        }
        fn count(&mut self) -> Option<usize> {
            let k = self.n()?;
            if k > (self.c.len() - self.i) as u64 {
                return None;
            }
            Some(k as usize)
        }
        fn list(&mut self) -> Option<Vec<u64>> {
            let k = self.count()?;
            let v = self.c[self.i..self.i + k].to_vec();
            self.i += k;
            Some(v)
        }
        fn name(&mut self) -> Option<Vec<u8>> {
            let runs = self.count()?;
            let mut out = vec![];
            for _ in 0..runs {
                let c = self.n()?;
                let b = self.n()?;
                if c > 20000 {
                    return None;
                }
                out.extend(std::iter::repeat(b as u8).take(c as usize));
                if b >= 256 {
                    return None;
                }
            }
            Some(out)
        }
    }

    type Cfg = Vec<(usize, Vec<usize>)>;

    struct Case {
        transport: u64,
        pool: Vec<Vec<u8>>,
        a: Cfg,
        b: Cfg,
        k: usize,
    }

    fn name_ok(n: &[u8]) -> bool {
        n.iter().all(|b| *b < 128)
            && n.first() == Some(&b'/')
            && !n.contains(&b'\n')
            && n != HEADER
            && n.len() <= 64
    }

    /// wf_cfgb of Fallback.v on pool NAMES (two pool entries may hold the same name)
    fn wf(pool: &[Vec<u8>], cfg: &Cfg) -> bool {
        let name = |i: &usize| &pool[*i];
        for (x, (m, _)) in cfg.iter().enumerate() {
            if cfg.iter().skip(x + 1).any(|(m2, _)| name(m2) == name(m)) {
                return false;
            }
        }
        for (_, fs) in cfg.iter() {
            for f in fs {
                if cfg.iter().any(|(m, _)| name(m) == name(f)) {
                    return false;
                }
            }
        }
        for (m1, fs1) in cfg.iter() {
            for (m2, fs2) in cfg.iter() {
                for f in fs1 {
                    if fs2.iter().any(|g| name(g) == name(f)) && name(m1) != name(m2) {
                        return false;
                    }
                }
            }
        }
        true
    }

    fn decode(c: &[u64]) -> Option<Case> {
        let mut cur = Cur { c, i: 0 };
        if cur.n()? != 8 {
            return None;
        }
        let transport = cur.n()?;
        let k = cur.count()?;
        let pool: Vec<Vec<u8>> = (0..k).map(|_| cur.name()).collect::<Option<_>>()?;
        let mut cfgs = vec![];
        for _ in 0..2 {
            let k = cur.count()?;
            let mut cfg = vec![];
            for _ in 0..k {
                let m = cur.n()?;
                let fs = cur.list()?;
                cfg.push((m, fs));
            }
            cfgs.push(cfg);
        }
        let kk = cur.n()?;
        if cur.i != c.len() {
            return None;
        }
        if !pool.iter().all(|n| name_ok(n)) {
            return None;
        }
        let idx = |x: u64| -> Option<usize> { (x < pool.len() as u64).then_some(x as usize) };
        let res = |cfg: Vec<(u64, Vec<u64>)>| -> Option<Cfg> {
            cfg.into_iter()
                .map(|(m, fs)| Some((idx(m)?, fs.into_iter().map(idx).collect::<Option<_>>()?)))
                .collect()
        };
        let b = res(cfgs.pop()?)?;
        let a = res(cfgs.pop()?)?;
        let size_ok = |c: &Cfg| (1..=4).contains(&c.len());
        if !(size_ok(&a) && size_ok(&b) && wf(&pool, &a) && wf(&pool, &b) && kk < a.len() as u64) {
            return None;
        }
        Some(Case { transport, pool, a, b, k: kk as usize })
    }

    fn pname(b: &[u8]) -> ProtocolName {
        ProtocolName::from(String::from_utf8(b.to_vec()).expect("ascii"))
    }

    fn rt() -> &'static tokio::runtime::Runtime {
        static RT: OnceLock<tokio::runtime::Runtime> = OnceLock::new();
        RT.get_or_init(|| {
            tokio::runtime::Builder::new_multi_thread().worker_threads(2).enable_all().build().unwrap()
        })
    }

    fn build(case: &Case, cfg: &Cfg) -> Option<(Litep2p, Vec<RequestResponseHandle>)> {
        let mut builder = ConfigBuilder::new().with_keypair(Keypair::generate());
        builder = if case.transport == 1 {
            builder.with_websocket(WsConfig {
                listen_addresses: vec!["/ip4/127.0.0.1/tcp/0/ws".parse().unwrap()],
                reuse_port: false,
                ..Default::default()
            })
        } else {
            builder.with_tcp(TcpConfig {
                listen_addresses: vec!["/ip4/127.0.0.1/tcp/0".parse().unwrap()],
                reuse_port: false,
                ..Default::default()
            })
        };
        let mut handles = vec![];
        for (m, fs) in cfg {
            let (config, handle) = RrBuilder::new(pname(&case.pool[*m]))
                .with_fallback_names(fs.iter().map(|f| pname(&case.pool[*f])).collect())
                .with_max_size(1024)
                .with_timeout(Duration::from_secs(5))
                .build();
            builder = builder.with_request_response_protocol(config);
            handles.push(handle);
        }
        Some((Litep2p::new(builder.build()).ok()?, handles))
    }

    fn canon(pool: &[Vec<u8>], name: &[u8]) -> u64 {
        pool.iter().position(|n| n.as_slice() == name).map(|i| i as u64 + 1).unwrap_or(777)
    }

    pub fn run(c: &[u64]) -> Option<Vec<u64>> {
        let case = decode(c)?;
        rt().block_on(async {
            let (mut node_a, mut handles_a) = build(&case, &case.a)?;
            let (mut node_b, handles_b) = build(&case, &case.b)?;
            let peer_b = *node_b.local_peer_id();
            let addr_b = node_b.listen_addresses().next()?.clone();
            let addr_b = if addr_b.iter().any(|p| matches!(p, multiaddr::Protocol::P2p(_))) {
                addr_b
            } else {
                addr_b.with(multiaddr::Protocol::P2p(peer_b.into()))
            };
            node_a.add_known_address(peer_b, std::iter::once(addr_b));

            let mut tasks = vec![];
            tasks.push(tokio::spawn(async move { while node_a.next_event().await.is_some() {} }));
            tasks.push(tokio::spawn(async move { while node_b.next_event().await.is_some() {} }));
            // B: every protocol answers every request and reports (main index, fallback)
            let (seen_tx, mut seen_rx) = mpsc::unbounded_channel::<(usize, Option<ProtocolName>)>();
            for (j, mut handle) in handles_b.into_iter().enumerate() {
                let tx = seen_tx.clone();
                tasks.push(tokio::spawn(async move {
                    while let Some(ev) = handle.next().await {
                        if let RequestResponseEvent::RequestReceived { request_id, fallback, .. } = ev {
                            let _ = tx.send((j, fallback));
                            handle.send_response(request_id, vec![42]);
                        }
                    }
                }));
            }
            drop(seen_tx);

            let mut sender = handles_a.remove(case.k);
            // the other protocols of A are kept alive (and polled) as well
            for mut handle in handles_a {
                tasks.push(tokio::spawn(async move { while handle.next().await.is_some() {} }));
            }
            let sent = sender.send_request(peer_b, vec![7, 7, 7], DialOptions::Dial).await;
            let mut out = vec![1];
            let outcome = if sent.is_err() {
                None
            } else {
                tokio::time::timeout(Duration::from_secs(20), async {
                    loop {
                        match sender.next().await {
                            Some(RequestResponseEvent::ResponseReceived { fallback, .. }) =>
                                break Some(Some(fallback)),
                            Some(RequestResponseEvent::RequestFailed { .. }) => break Some(None),
                            Some(_) => {}
                            None => break None,
                        }
                    }
                })
                .await
                .ok()
                .flatten()
            };
            match outcome {
                Some(Some(fallback)) => {
                    out.push(0);
                    out.push(fallback.map(|f| canon(&case.pool, f.as_bytes())).unwrap_or(0));
                }
                Some(None) => out.extend([1, 0]),
                None => out.extend([9, 0]),
            }
            // what B saw (a response implies that B has recorded the request before answering)
            let seen = tokio::time::timeout(Duration::from_millis(300), seen_rx.recv()).await.ok().flatten();
            match seen {
                Some((j, fallback)) => {
                    out.push(canon(&case.pool, &case.pool[case.b[j].0]));
                    out.push(fallback.map(|f| canon(&case.pool, f.as_bytes())).unwrap_or(0));
                }
                None => out.extend([0, 0]),
            }
            for t in tasks {
                t.abort();
            }
            Some(out)
        })
    }

    fn rle(b: &[u8]) -> Vec<u64> {
        let mut runs: Vec<(u64, u8)> = vec![];
        for x in b {
            match runs.last_mut() {
                Some((c, y)) if y == x => *c += 1,
                _ => runs.push((1, *x)),
            }
        }
        let mut out = vec![runs.len() as u64];
        for (c, b) in runs {
            out.extend([c, b as u64]);
        }
        out
    }

    /// two well-formed configurations over a small pool of versioned names: B offers a subset of
    /// A's names (often several of them, so the preference order matters), as mains or fallbacks
    pub fn gen(rng: &mut Rng) -> Vec<u64> {
        let names: Vec<&[u8]> = vec![
            b"/req/4", b"/req/3", b"/req/2", b"/req/1", b"/sync/2", b"/sync/1", b"/x", b"/x/legacy",
            b"/aaaaaaaaaaaaaaaa/req/2", b"/other",
        ];
        let pool: Vec<Vec<u8>> = names.iter().map(|n| n.to_vec()).collect();
        // `front`: names to be used first (with probability 2/3 per draw)
        let cfg = |rng: &mut Rng, front: &[u64]| -> Vec<(u64, Vec<u64>)> {
            let mut free: Vec<u64> = front.to_vec();
            free.extend((0..pool.len() as u64).filter(|x| !front.contains(x)));
            let mut nfront = front.len();
            let mut take = |rng: &mut Rng, free: &mut Vec<u64>| -> u64 {
                let i = if nfront > 0 && rng.chance(66) {
                    rng.below(nfront as u64) as usize
                } else {
                    rng.below(free.len() as u64) as usize
                };
                if i < nfront {
                    nfront -= 1;
                }
                free.remove(i)
            };
            let n = rng.range(1, 3);
            let mut out = vec![];
            for _ in 0..n {
                let m = take(rng, &mut free);
                let nf = rng.below(4).min(free.len() as u64 - 1);
                let fs: Vec<u64> = (0..nf).map(|_| take(rng, &mut free)).collect();
                out.push((m, fs));
            }
            out
        };
        let a = cfg(rng, &[]);
        let k = rng.below(a.len() as u64);
        // B mostly offers several of the names that A's sending protocol proposes
        let mut proposed: Vec<u64> = vec![a[k as usize].0];
        proposed.extend(a[k as usize].1.iter().copied());
        let b = if rng.chance(75) { cfg(rng, &proposed) } else { cfg(rng, &[]) };
        let mut c = vec![8, rng.below(2), pool.len() as u64];
        for n in &pool {
            c.extend(rle(n));
        }
        for cf in [&a, &b] {
            c.push(cf.len() as u64);
            for (m, fs) in cf {
                c.push(*m);
                c.push(fs.len() as u64);
                c.extend(fs);
            }
        }
        c.push(k);
        c
    }
}
