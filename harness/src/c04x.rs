//! C04, further streams (formats: coq/C04/GlueCodec.v, coq/C04/GlueYamux.v):
//!   kind 30  the tokio-util codecs of src/codec (Identity, UnsignedVarint): Encoder::encode / Decoder::decode /
//!            decode_eof and the static helpers, one call at a time
//!   kind 31  tokio_util::codec::Framed<Substream, codec> over the scripted carrier (outcome only)
//!   kind 40  the real Substream (TCP / WebSocket type) over a real yamux connection whose remote end is played
//!            by the harness frame by frame: the credit pattern is the harness's choice
//!   kind 41  the reading side over a real yamux connection fed by the harness
use crate::c04::{mk_msg, rle, Carrier, CarrierState, Cur, Ev, HarnessWake, MAX_LEN, PANIC};
use crate::util::Rng;
use bytes::{Bytes, BytesMut};
use litep2p::codec::{identity::Identity, unsigned_varint::UnsignedVarint};
use std::{
    panic::{catch_unwind, AssertUnwindSafe},
    sync::{Arc, Mutex},
};
use tokio_util::codec::{Decoder, Encoder};

enum TCodec {
    Id(Identity),
    Uvi(UnsignedVarint),
}

impl TCodec {
    fn encode(&mut self, m: Bytes, dst: &mut BytesMut) -> Result<(), litep2p::Error> {
        match self {
            TCodec::Id(c) => c.encode(m, dst),
            TCodec::Uvi(c) => c.encode(m, dst),
        }
    }
    fn decode(&mut self, src: &mut BytesMut) -> Result<Option<BytesMut>, litep2p::Error> {
        match self {
            TCodec::Id(c) => c.decode(src),
            TCodec::Uvi(c) => c.decode(src),
        }
    }
    fn decode_eof(&mut self, src: &mut BytesMut) -> Result<Option<BytesMut>, litep2p::Error> {
        match self {
            TCodec::Id(c) => c.decode_eof(src),
            TCodec::Uvi(c) => c.decode_eof(src),
        }
    }
}

/// None = construction panicked (Identity::new(0))
fn mk_tcodec(tag: u64, arg: u64) -> Option<Option<TCodec>> {
    Some(match tag {
        0 if arg <= MAX_LEN => catch_unwind(|| Identity::new(arg as usize)).ok().map(TCodec::Id),
        1 if arg == 0 => Some(TCodec::Uvi(UnsignedVarint::new(None))),
        2 => Some(TCodec::Uvi(UnsignedVarint::new(Some(arg as usize)))),
        3 => Some(TCodec::Uvi(UnsignedVarint::with_max_size(arg as usize))),
        _ => return None,
    })
}

fn kerr_code(e: &litep2p::Error) -> u64 {
    match e {
        litep2p::Error::IoError(std::io::ErrorKind::PermissionDenied) => 3,
        litep2p::Error::IoError(std::io::ErrorKind::Other) => 4,
        litep2p::Error::InvalidData => 5,
        _ => 6,
    }
}

fn push_dres(out: &mut Vec<u64>, r: &Result<Option<BytesMut>, litep2p::Error>) -> bool {
    match r {
        Ok(None) => out.push(0),
        Ok(Some(f)) => {
            out.push(2);
            rle(out, f);
        }
        Err(e) => {
            out.push(kerr_code(e));
            return true;
        }
    }
    false
}

pub fn run_codec(c: &[u64]) -> Vec<u64> {
    let mut cur = Cur(c, 0);
    let parsed = (|| {
        if cur.next()? != 30 {
            return None;
        }
        let tag = cur.next()?;
        let arg = cur.next()?;
        let cd = mk_tcodec(tag, arg)?;
        let nops = cur.count()?;
        let mut ops = Vec::new();
        for _ in 0..nops {
            let kind = cur.next()?;
            let b = cur.next()?;
            let len = cur.next()?;
            if !(kind == 1 || kind == 2) || b > 255 || len > MAX_LEN || (tag == 0 && kind != 1) {
                return None;
            }
            ops.push((kind, b as u8, len as usize));
        }
        let nraw = cur.count()?;
        let mut raw = Vec::new();
        for _ in 0..nraw {
            let b = cur.next()?;
            let k = cur.next()?;
            if b > 255 || k > MAX_LEN {
                return None;
            }
            raw.push((b as u8, k as usize));
        }
        let nch = cur.count()?;
        let mut sizes = Vec::new();
        for _ in 0..nch {
            let s = cur.next()?;
            if s > MAX_LEN * 4 {
                return None;
            }
            sizes.push(s as usize);
        }
        let eof = cur.next()?;
        let sdec = cur.next()?;
        if eof > 1 || sdec > 1 || cur.1 != c.len() {
            return None;
        }
        Some((cd, ops, raw, sizes, eof == 1, sdec == 1))
    })();
    let Some((cd, ops, raw, sizes, eof, sdec)) = parsed else { return vec![0] };
    let mut out = vec![3u64];
    let Some(mut cd) = cd else {
        out.push(PANIC);
        return out;
    };
    let r = catch_unwind(AssertUnwindSafe(|| {
        let mut out = Vec::new();
        let mut dst = BytesMut::new();
        for (kind, b, len) in &ops {
            let before = dst.len();
            let code = if *kind == 2 {
                match UnsignedVarint::encode(mk_msg(*b, *len)) {
                    Ok(v) => {
                        dst.extend_from_slice(&v);
                        1
                    }
                    Err(e) => kerr_code(&e),
                }
            } else {
                match cd.encode(mk_msg(*b, *len), &mut dst) {
                    Ok(()) => 1,
                    Err(e) => kerr_code(&e),
                }
            };
            out.push(code);
            rle(&mut out, &dst[before.min(dst.len())..]);
        }
        let mut wire = dst.to_vec();
        for (b, k) in &raw {
            wire.extend(std::iter::repeat(*b).take(*k));
        }
        // the Framed read loop: append what arrived, decode until None / error
        let mut src = BytesMut::new();
        let mut pos = 0usize;
        let at = out.len();
        out.push(0);
        let mut nfed = 0u64;
        let mut failed = false;
        for s in &sizes {
            let k = (*s).min(wire.len() - pos);
            src.extend_from_slice(&wire[pos..pos + k]);
            pos += k;
            nfed += 1;
            let at_calls = out.len();
            out.push(0);
            let mut ncalls = 0u64;
            loop {
                let r = cd.decode(&mut src);
                ncalls += 1;
                let is_frame = matches!(r, Ok(Some(_)));
                if push_dres(&mut out, &r) {
                    failed = true;
                }
                if !is_frame {
                    break;
                }
            }
            out[at_calls] = ncalls;
            out.push(src.len() as u64);
            if failed {
                break;
            }
        }
        out[at] = nfed;
        if eof && !failed {
            out.push(1);
            let r = cd.decode_eof(&mut src);
            push_dres(&mut out, &r);
            out.push(src.len() as u64);
        } else {
            out.push(0);
        }
        if sdec {
            out.push(1);
            let mut all = BytesMut::from(&wire[..]);
            let r = UnsignedVarint::decode(&mut all).map(Some);
            push_dres(&mut out, &r);
            out.push(all.len() as u64);
        } else {
            out.push(0);
        }
        out
    }));
    match r {
        Ok(v) => out.extend(v),
        Err(_) => out.push(PANIC),
    }
    out
}

// ---------------------------------------------------------------- kind 31: Framed over the scripted carrier

pub fn run_framed(c: &[u64]) -> Vec<u64> {
    use futures::{SinkExt, StreamExt};
    use litep2p::{codec::ProtocolCodec, substream::Substream, types::SubstreamId, PeerId};
    use std::{future::Future, task::Context};
    use tokio_util::codec::Framed;
    let mut cur = Cur(c, 0);
    let parsed = (|| {
        if cur.next()? != 31 {
            return None;
        }
        let tag = cur.next()?;
        let arg = cur.next()?;
        let cd = mk_tcodec(tag, arg)?;
        let n = cur.count()?;
        let mut msgs = Vec::new();
        for _ in 0..n {
            let b = cur.next()?;
            let len = cur.next()?;
            if b > 255 || len > MAX_LEN {
                return None;
            }
            msgs.push((b as u8, len as usize));
        }
        let mut scripts = Vec::new();
        for _ in 0..2 {
            let n = cur.count()?;
            let mut evs = Vec::new();
            for _ in 0..n {
                evs.push(match cur.next()? {
                    0 => Ev::Pending,
                    1 => {
                        let k = cur.next()?;
                        if k == 0 || k > MAX_LEN {
                            return None;
                        }
                        Ev::Chunk(k as usize)
                    }
                    _ => return None,
                });
            }
            scripts.push(evs);
        }
        if cur.1 != c.len() {
            return None;
        }
        let rs = scripts.pop().unwrap();
        let ws = scripts.pop().unwrap();
        Some((cd, msgs, ws, rs))
    })();
    let Some((cd, msgs, ws, rs)) = parsed else { return vec![0] };
    let mut out = vec![4u64];
    let Some(cd) = cd else {
        out.push(PANIC);
        return out;
    };
    let car = Carrier(Arc::new(Mutex::new(CarrierState::default())));
    let waker = futures::task::waker(Arc::new(HarnessWake));
    {
        let mut s = car.0.lock().unwrap();
        s.wr_script = ws.into_iter().collect();
        s.harness_waker = Some(waker.clone());
        s.open_end = true;
    }
    let mut cx = Context::from_waker(&waker);
    let mk = |car: &Carrier| {
        Substream::new_verif(PeerId::random(), SubstreamId::from(9usize), Box::new(car.clone()), ProtocolCodec::Unspecified)
    };
    // every future below makes progress on each poll or is stalled by a scripted Pending event; the
    // scripts are finite and an exhausted script lets everything through
    fn drive<F: Future>(fut: F, cx: &mut Context<'_>) -> Option<F::Output> {
        let mut fut = Box::pin(fut);
        for _ in 0..100_000 {
            if let std::task::Poll::Ready(v) = fut.as_mut().poll(cx) {
                return Some(v);
            }
        }
        None
    }
    let r = catch_unwind(AssertUnwindSafe(|| {
        let mut out = Vec::new();
        macro_rules! go {
            ($codec:expr) => {{
                let mut framed = Framed::new(mk(&car), $codec);
                for (b, len) in &msgs {
                    let code = match drive(framed.send(mk_msg(*b, *len)), &mut cx) {
                        Some(Ok(())) => 1,
                        Some(Err(e)) => kerr_code(&e),
                        None => 7,
                    };
                    out.push(code);
                }
                let _ = drive(framed.close(), &mut cx);
                {
                    let mut s = car.0.lock().unwrap();
                    s.rd_wire = s.sent.clone();
                    s.rd_pos = 0;
                    s.rd_script = rs.iter().copied().collect();
                }
                let mut frames: Vec<Vec<u8>> = Vec::new();
                let fin = loop {
                    match drive(framed.next(), &mut cx) {
                        Some(Some(Ok(f))) => frames.push(f.to_vec()),
                        Some(None) => break 1,
                        Some(Some(Err(e))) => break kerr_code(&e),
                        None => break 7,
                    }
                };
                out.push(frames.len() as u64);
                for f in &frames {
                    rle(&mut out, f);
                }
                out.push(fin);
            }};
        }
        match cd {
            TCodec::Id(c) => go!(c),
            TCodec::Uvi(c) => go!(c),
        }
        out
    }));
    match r {
        Ok(v) => out.extend(v),
        Err(_) => out.push(PANIC),
    }
    out
}

// ---------------------------------------------------------------- generators

fn push_fscript(c: &mut Vec<u64>, rng: &mut Rng) {
    let n = rng.range(0, 12);
    c.push(n);
    for _ in 0..n {
        if rng.chance(25) {
            c.push(0);
        } else {
            c.extend([1, rng.pick(&[1u64, 2, 3, 7, 100, 1000, 8192, 1 << 20])]);
        }
    }
}

fn gen_tcodec(rng: &mut Rng) -> (u64, u64) {
    match rng.below(10) {
        0..=3 => (0, rng.pick(&[1u64, 2, 5, 10, 48, 300, 1024, 4000, 0])),
        4 => (1, 0),
        5..=7 => (2, rng.pick(&[0u64, 1, 20, 127, 128, 300, 16384, 70000])),
        _ => (3, rng.pick(&[0u64, 1, 127, 128, 1000, 16384])),
    }
}

fn gen_len(rng: &mut Rng, tag: u64, arg: u64) -> u64 {
    let fit = match tag {
        0 => arg,
        1 => rng.pick(&[0u64, 1, 5, 127, 128, 129, 1000, 16383, 16384, 3]),
        _ => rng.pick(&[0u64, 1, arg / 2, arg.saturating_sub(1), arg, 127.min(arg), 128.min(arg), 3.min(arg)]).min(16384),
    };
    if rng.chance(12) {
        // a message that does not fit: too long, too short (Identity), empty
        match tag {
            0 => rng.pick(&[arg + 1, arg.saturating_sub(1), 0, arg / 2, arg + 1000, 1]),
            1 => fit,
            _ => rng.pick(&[arg + 1, arg + 2, arg * 2 + 1]).min(40_000),
        }
    } else {
        fit
    }
}

pub fn gen_codec(rng: &mut Rng, thorough: bool) -> Vec<u64> {
    let (tag, arg) = gen_tcodec(rng);
    let mut c = vec![30, tag, arg];
    let nops = rng.range(0, if thorough { 10 } else { 7 });
    c.push(nops);
    let mut total = 0u64;
    for i in 0..nops {
        let kind = if tag != 0 && rng.chance(15) { 2 } else { 1 };
        let len = gen_len(rng, tag, arg);
        total += len + 3;
        c.extend([kind, (i * 2 + rng.below(2) * 100 + 3) % 256, len]);
    }
    // raw bytes: malformed / oversized / truncated length prefixes
    let mut raw: Vec<(u64, u64)> = Vec::new();
    if rng.chance(25) {
        for _ in 0..rng.range(1, 4) {
            match rng.below(6) {
                0 => {
                    raw.push((rng.range(128, 255), rng.pick(&[1u64, 2, 9, 10, 11, 20])));
                    raw.push((rng.range(1, 127), 1));
                }
                1 => {
                    raw.push((rng.range(128, 255), rng.range(1, 3)));
                    raw.push((0, 1));
                }
                2 => {
                    raw.push((255, rng.range(2, 4)));
                    raw.push((rng.range(1, 127), 1));
                }
                3 => raw.push((0, rng.range(1, 4))),
                _ => {
                    let n = rng.range(1, 127);
                    raw.push((n, 1));
                    raw.push((rng.below(128), if rng.chance(70) { n } else { rng.below(n) }));
                }
            }
        }
    }
    c.push(raw.len() as u64);
    let mut raw_total = 0;
    for (b, k) in &raw {
        c.extend([*b, *k]);
        raw_total += k;
    }
    total += raw_total;
    // chunking
    let mut sizes = Vec::new();
    let style = rng.below(5);
    let mut moved = 0u64;
    while moved < total + 4 && sizes.len() < 400 {
        let s = match style {
            0 => rng.range(1, 3),
            1 => rng.range(1, 40),
            2 => 1 << 22,
            3 => rng.pick(&[1u64, 2, 7, 10, 127, 128, 1000, 1024, 5000]),
            _ => rng.range(total / 8 + 1, total / 2 + 2),
        };
        moved += s;
        sizes.push(s);
    }
    if rng.chance(20) {
        let cut = rng.below(sizes.len() as u64 + 1) as usize;
        sizes.truncate(cut);
    }
    c.push(sizes.len() as u64);
    c.extend(sizes);
    c.push(rng.chance(60) as u64);
    c.push((tag != 0 && rng.chance(30)) as u64);
    c
}

pub fn gen_framed(rng: &mut Rng, thorough: bool) -> Vec<u64> {
    let (tag, arg) = gen_tcodec(rng);
    let mut c = vec![31, tag, arg];
    let n = rng.range(0, if thorough { 8 } else { 5 });
    c.push(n);
    for i in 0..n {
        let len = if rng.chance(3) { rng.pick(&[20_000u64, 70_000]).min(if tag == 0 { arg } else { 70_000 }) } else { gen_len(rng, tag, arg) };
        c.extend([(i * 2 + rng.below(2) * 100 + 3) % 256, len]);
    }
    push_fscript(&mut c, rng);
    push_fscript(&mut c, rng);
    c
}
