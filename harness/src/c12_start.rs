//! C12, third stream (first number 9002): the START of a notification stream on the real code. The real
//! `NotificationProtocol` (real `TransportService`, `HandshakeService`, `Connection` tasks, `NotificationHandle`) of
//! ONE endpoint is driven one call / one poll at a time; the remote peers are scripted byte carriers: what the remote
//! wrote on a substream (its handshake, then its notifications) is a list of frames, and who consumes which frame
//! (the handshake service or the Connection) is what the stream is about. Nothing is settled between two operations:
//! several things can happen between two polls of the protocol.
//!
//! case  : 9002 auto_accept nops (kind a b c)*
//!   0 p        ConnectionEstablished            1 p        ConnectionClosed
//!   2 p        inbound substream of p (a new carrier, numbered in creation order)
//!   3 p        the oldest unanswered open_substream request of p succeeds (new carrier)
//!   4 p        ... fails
//!   5 s w t    carrier s: w = 0 the remote writes a frame with tag t | 1 the remote closes | 2 writes fail |
//!              3 flushes complete
//!   6 _ o      ONE poll of NotificationProtocol::next_event; o = the order in which the handshake service would visit
//!              its substreams (digits base 2*NP+1, key+1, least significant first), written by the harness; a stored
//!              case with o != 0 is re-run in a fresh world until the real map has that order
//!   7 p        handle.open_substream(p)         8 p        handle.close_substream(p)
//!   9 p a      handle.send_validation_result(p, a)
//!  10          every live Connection task is polled once (spawn order)
//!  11          ONE handle.next()
//!  12 p t      handle.send_sync_notification(p, frame t)
//! trace : 3, then per operation: result, dump
//!   result = 6: handled?   7: 0 | 1   10: tasks finished   11: 0 | 1 p h | 2 p dir h | 3 p | 4 p err | 5 p t
//!            12: code   others: 0
//!   dump   = per peer: state (5 numbers), in the handshake service (inbound, outbound), handle holds the sink,
//!            handle holds a validation; handshake service size (map + ready), tasks spawned, tasks alive,
//!            pending_outbound, events queued for the user, service calls of this step (n, then kind p sid),
//!            carriers (n, then per carrier: unread frames, dropped, frames written (n, tags))
use crate::util::{Rng, PANIC_MARK};
use futures::{FutureExt, StreamExt};
use litep2p::{
    protocol::notification::{
        verif::{VerifNotification, VerifServiceCall},
        NotificationError, NotificationEvent, NotificationHandle, NotificationSink, ValidationResult,
    },
    PeerId,
};
use std::{
    collections::VecDeque,
    io,
    pin::Pin,
    sync::{Arc, Mutex},
    task::{Context, Poll},
};
use tokio::io::{AsyncRead, AsyncWrite, ReadBuf};

pub const MARK: u64 = 9002;
pub const NP: usize = 2;
/// tag of the local handshake
pub const LOCAL_HS: u64 = 65000;
const BASE: u64 = 2 * NP as u64 + 1;

// ---------------------------------------------------------------- scripted carrier

#[derive(Default)]
struct Io {
    read_buf: VecDeque<u8>,
    eof: bool,
    werr: bool,
    flush_open: bool,
    dropped: bool,
    shutdown_gated: bool,
    written: Vec<u8>,
}

#[derive(Clone, Default)]
struct Ctl(Arc<Mutex<Io>>);
struct Carrier(Ctl);

impl Drop for Carrier {
    fn drop(&mut self) {
        self.0 .0.lock().unwrap().dropped = true;
    }
}

impl AsyncRead for Carrier {
    fn poll_read(self: Pin<&mut Self>, _: &mut Context<'_>, buf: &mut ReadBuf<'_>) -> Poll<io::Result<()>> {
        let mut s = self.0 .0.lock().unwrap();
        if !s.read_buf.is_empty() {
            while buf.remaining() > 0 {
                match s.read_buf.pop_front() {
                    Some(b) => buf.put_slice(&[b]),
                    None => break,
                }
            }
            return Poll::Ready(Ok(()));
        }
        if s.eof {
            return Poll::Ready(Ok(()));
        }
        Poll::Pending
    }
}

impl AsyncWrite for Carrier {
    fn poll_write(self: Pin<&mut Self>, _: &mut Context<'_>, buf: &[u8]) -> Poll<io::Result<usize>> {
        let mut s = self.0 .0.lock().unwrap();
        if s.werr {
            return Poll::Ready(Err(io::ErrorKind::BrokenPipe.into()));
        }
        s.written.extend_from_slice(buf);
        Poll::Ready(Ok(buf.len()))
    }
    fn poll_flush(self: Pin<&mut Self>, _: &mut Context<'_>) -> Poll<io::Result<()>> {
        let s = self.0 .0.lock().unwrap();
        if s.werr {
            return Poll::Ready(Err(io::ErrorKind::BrokenPipe.into()));
        }
        if s.flush_open {
            Poll::Ready(Ok(()))
        } else {
            Poll::Pending
        }
    }
    fn poll_shutdown(self: Pin<&mut Self>, _: &mut Context<'_>) -> Poll<io::Result<()>> {
        if self.0 .0.lock().unwrap().shutdown_gated {
            Poll::Pending
        } else {
            Poll::Ready(Ok(()))
        }
    }
}

fn frame(tag: u64) -> [u8; 3] {
    [2, (tag >> 8) as u8, (tag & 255) as u8]
}

fn tag_of(b: &[u8]) -> u64 {
    match b {
        [hi, lo] => (*hi as u64) << 8 | *lo as u64,
        _ => 99_999,
    }
}

fn frames_of(bytes: &[u8]) -> Vec<u64> {
    let mut out = Vec::new();
    let mut i = 0;
    while i < bytes.len() {
        let n = bytes[i] as usize;
        if i + 1 + n > bytes.len() {
            out.push(99_998);
            break;
        }
        out.push(tag_of(&bytes[i + 1..i + 1 + n]));
        i += 1 + n;
    }
    out
}

// ---------------------------------------------------------------- one world

struct World {
    peers: Vec<PeerId>,
    notif: VerifNotification,
    /// `None` once the user has dropped it
    handle: Option<NotificationHandle>,
    /// clones of the sinks the user was given (the notification queues stay open when the handle goes)
    keep: Vec<NotificationSink>,
    exited: bool,
    connected: [Option<usize>; NP],
    next_conn: usize,
    pending_sids: [VecDeque<usize>; NP],
    carriers: Vec<Ctl>,
    /// peer and direction (inbound?) of every carrier
    roles: Vec<(usize, bool)>,
    /// carriers that were handed to a Connection task (generator: only those get a slow close)
    task_cars: Vec<usize>,
    registered: [bool; NP],
}

enum Outcome {
    Done(Vec<u64>, Vec<u64>),
    /// the substream map of the handshake service is not in the order the stored case asks for
    WrongOrder,
}

impl World {
    fn new(auto_accept: bool) -> Self {
        let peers: Vec<PeerId> = (0..NP).map(|_| PeerId::random()).collect();
        let (notif, handle) = VerifNotification::new(auto_accept, false, frame(LOCAL_HS)[1..].to_vec(), &[]);
        World {
            peers,
            notif,
            handle: Some(handle),
            keep: Vec::new(),
            exited: false,
            connected: [None; NP],
            next_conn: 0,
            pending_sids: Default::default(),
            carriers: Vec::new(),
            roles: Vec::new(),
            task_cars: Vec::new(),
            registered: [false; NP],
        }
    }

    fn pidx(&self, p: &PeerId) -> u64 {
        self.peers.iter().position(|x| x == p).unwrap_or(9) as u64
    }

    fn new_carrier(&mut self, p: usize, inbound: bool) -> Box<Carrier> {
        let ctl = Ctl::default();
        self.carriers.push(ctl.clone());
        self.roles.push((p, inbound));
        Box::new(Carrier(ctl))
    }

    fn order(&self) -> u64 {
        let keys: Vec<u64> =
            self.notif.negotiation_keys().iter().map(|(p, o)| 2 * self.pidx(p) + *o as u64).collect();
        keys.iter().rev().fold(0u64, |acc, k| acc * BASE + k + 1)
    }

    fn user_event(&mut self) -> Vec<u64> {
        let Some(handle) = self.handle.as_mut() else { return vec![0] };
        match handle.next().now_or_never() {
            Some(Some(ev)) => match ev {
                NotificationEvent::ValidateSubstream { peer, handshake, .. } => {
                    vec![1, self.pidx(&peer), tag_of(&handshake)]
                }
                NotificationEvent::NotificationStreamOpened { peer, direction, handshake, .. } => {
                    if let Some(sink) = self.handle.as_ref().and_then(|h| h.notification_sink(peer)) {
                        self.keep.push(sink);
                    }
                    let d = format!("{direction:?}").starts_with("Outbound") as u64;
                    vec![2, self.pidx(&peer), d, tag_of(&handshake)]
                }
                NotificationEvent::NotificationStreamClosed { peer } => vec![3, self.pidx(&peer)],
                NotificationEvent::NotificationStreamOpenFailure { peer, error } => {
                    let e = match error {
                        NotificationError::Rejected => 0,
                        NotificationError::NoConnection => 1,
                        NotificationError::ValidationPending => 2,
                        NotificationError::DialFailure => 3,
                        _ => 9,
                    };
                    vec![4, self.pidx(&peer), e]
                }
                NotificationEvent::NotificationReceived { peer, notification } => {
                    vec![5, self.pidx(&peer), tag_of(&notification)]
                }
            },
            _ => vec![0],
        }
    }

    fn dump(&mut self, out: &mut Vec<u64>) {
        for p in 0..NP {
            let peer = self.peers[p];
            let mut st: Vec<u64> = self.notif.peer_state(&peer).iter().map(|x| *x as u64).collect();
            st.resize(5, 0);
            out.extend(st);
            let (i, o) = self.notif.negotiating(&peer);
            out.extend([i as u64, o as u64]);
            out.push(self.handle.as_ref().map_or(false, |h| h.verif_is_open(&peer)) as u64);
            out.push(self.handle.as_ref().map_or(false, |h| h.verif_validation_pending(&peer)) as u64);
        }
        for p in 0..NP {
            let open = self.notif.peer_state(&self.peers[p])[0] == 7;
            if open && !self.registered[p] {
                // a Connection was started over the newest live substreams of the peer
                for inbound in [true, false] {
                    // (the local handshake has been written on them: a substream still waiting in the event
                    // channel of the transport has seen no write)
                    if let Some(i) = (0..self.carriers.len()).rev().find(|i| {
                        let c = self.carriers[*i].0.lock().unwrap();
                        self.roles[*i] == (p, inbound) && !c.dropped && !c.written.is_empty()
                    }) {
                        self.task_cars.push(i);
                    }
                }
            }
            self.registered[p] = open;
        }
        out.push(self.notif.negotiation_len() as u64);
        let (spawned, alive) = self.notif.tasks();
        out.extend([spawned as u64, alive as u64]);
        out.push(self.notif.pending_outbound().len() as u64);
        out.push(self.handle.as_ref().map_or(0, |h| h.verif_event_queue_len()) as u64);
        let calls = self.notif.take_service_calls();
        out.push(calls.len() as u64);
        for c in calls {
            match c {
                VerifServiceCall::Dial(peer) => out.extend([0, self.pidx(&peer), 0]),
                VerifServiceCall::OpenSubstream(peer, sid) => {
                    let i = self.pidx(&peer);
                    if (i as usize) < NP {
                        self.pending_sids[i as usize].push_back(sid);
                    }
                    out.extend([1, i, sid as u64]);
                }
                VerifServiceCall::ForceClose(peer) => out.extend([2, self.pidx(&peer), 0]),
            }
        }
        out.push(self.carriers.len() as u64);
        for c in self.carriers.iter() {
            let s = c.0.lock().unwrap();
            out.push(s.read_buf.len() as u64 / 3);
            out.push(s.dropped as u64);
            let w = frames_of(&s.written);
            out.push(w.len() as u64);
            out.extend(w);
        }
    }

    /// one operation; `None`: the stored case names another visiting order than the real map has
    fn apply(&mut self, op: [u64; 4], stored: bool, out: &mut Vec<u64>) -> Option<[u64; 4]> {
        let [kind, a, b, t] = op;
        let mut ran = op;
        let p = a as usize;
        match kind {
            0 => {
                if self.connected[p].is_none() {
                    let id = self.next_conn;
                    self.next_conn += 1;
                    self.connected[p] = Some(id);
                    self.notif.inject_connection_established(self.peers[p], id);
                }
                out.push(0);
            }
            1 => {
                if let Some(id) = self.connected[p].take() {
                    self.pending_sids[p].clear();
                    self.notif.inject_connection_closed(self.peers[p], id);
                }
                out.push(0);
            }
            2 => {
                if let Some(id) = self.connected[p] {
                    let io = self.new_carrier(p, true);
                    self.notif.inject_substream(self.peers[p], id, None, io);
                }
                out.push(0);
            }
            3 => {
                if let (Some(id), Some(sid)) = (self.connected[p], self.pending_sids[p].front().copied()) {
                    self.pending_sids[p].pop_front();
                    let io = self.new_carrier(p, false);
                    self.notif.inject_substream(self.peers[p], id, Some(sid), io);
                }
                out.push(0);
            }
            4 => {
                if let (Some(_), Some(sid)) = (self.connected[p], self.pending_sids[p].front().copied()) {
                    self.pending_sids[p].pop_front();
                    self.notif.inject_substream_open_failure(sid);
                }
                out.push(0);
            }
            5 => {
                if let Some(ctl) = self.carriers.get(p) {
                    let mut s = ctl.0.lock().unwrap();
                    match b {
                        0 => s.read_buf.extend(frame(t)),
                        1 => s.eof = true,
                        2 => s.werr = true,
                        3 => s.flush_open = true,
                        4 => s.shutdown_gated = true,
                        _ => s.shutdown_gated = false,
                    }
                }
                out.push(0);
            }
            6 => {
                let order = self.order();
                if stored && b != 0 && b != order {
                    return None;
                }
                ran[2] = order;
                // once next_event has returned `true` the event loop is over: nothing polls it any more
                let r = if self.exited {
                    0
                } else {
                    match self.notif.poll_event() {
                        None => 0,
                        Some(false) => 1,
                        Some(true) => {
                            self.exited = true;
                            2
                        }
                    }
                };
                out.push(r);
            }
            7 => {
                let r = self.handle.as_ref().map(|h| h.open_substream(self.peers[p]).now_or_never());
                out.push(match r {
                    None | Some(Some(Ok(()))) => 0,
                    Some(Some(Err(_))) => 1,
                    Some(None) => 8,
                });
            }
            8 => {
                if let Some(h) = self.handle.as_ref() {
                    let _ = h.close_substream(self.peers[p]).now_or_never();
                }
                out.push(0);
            }
            9 => {
                let r = if b == 0 { ValidationResult::Reject } else { ValidationResult::Accept };
                if let Some(h) = self.handle.as_mut() {
                    h.send_validation_result(self.peers[p], r);
                }
                out.push(0);
            }
            13 => {
                self.handle = None;
                out.push(0);
            }
            10 => out.push(self.notif.poll_tasks() as u64),
            11 => {
                let e = self.user_event();
                out.extend(e);
            }
            _ => {
                let peer = self.peers[p];
                let r = self.handle.as_mut().map(|h| h.send_sync_notification(peer, frame(b)[1..].to_vec()));
                out.push(match r {
                    None | Some(Ok(())) => 0,
                    Some(Err(NotificationError::NoConnection)) => 1,
                    Some(Err(NotificationError::ChannelClogged)) => 2,
                    Some(Err(_)) => 9,
                });
            }
        }
        self.dump(out);
        Some(ran)
    }

    fn run(mut self, c: &[u64], stored: bool) -> Outcome {
        let nops = c[2] as usize;
        let mut ran = c.to_vec();
        let mut out = vec![3u64];
        for i in 0..nops {
            let op = [c[3 + 4 * i], c[4 + 4 * i], c[5 + 4 * i], c[6 + 4 * i]];
            match self.apply(op, stored, &mut out) {
                Some(r) => ran[3 + 4 * i..7 + 4 * i].copy_from_slice(&r),
                None => return Outcome::WrongOrder,
            }
        }
        Outcome::Done(ran, out)
    }
}

/// every operation names a known kind, an existing peer and a tag below 60000; the tags are pairwise distinct
pub fn well_formed(c: &[u64]) -> bool {
    if !(c.len() >= 3 && c[0] == MARK && c.len() == 3 + 4 * c[2] as usize) {
        return false;
    }
    let mut tags = std::collections::HashSet::new();
    c[3..].chunks(4).all(|o| match o[0] {
        0..=4 | 7 | 8 | 9 => o[1] < NP as u64,
        5 => o[1] < 4096 && o[2] < 6 && o[3] < 60000 && (o[2] != 0 || tags.insert(o[3])),
        6 | 10 | 11 | 13 => true,
        12 => o[1] < NP as u64 && o[2] < 60000 && tags.insert(o[2]),
        _ => false,
    })
}

/// run a case; `stored`: orders named by the case are binding
pub fn run_case(c: &[u64], stored: bool) -> (Vec<u64>, Vec<u64>) {
    if !well_formed(c) {
        return (c.to_vec(), vec![3, 78]);
    }
    // TransportService arms tokio timers (keep-alive); the runtime is entered but never driven: they do not fire
    let rt = tokio::runtime::Builder::new_current_thread().enable_all().build().unwrap();
    let _g = rt.enter();
    for _ in 0..400 {
        let r = std::panic::catch_unwind(std::panic::AssertUnwindSafe(|| World::new(c[1] != 0).run(c, stored)));
        match r {
            Ok(Outcome::Done(ran, out)) => return (ran, out),
            Ok(Outcome::WrongOrder) => continue,
            Err(_) => return (c.to_vec(), vec![3, PANIC_MARK]),
        }
    }
    (c.to_vec(), vec![3, 79])
}

// ---------------------------------------------------------------- generator (chooses while the case runs)

struct Gen {
    rng: Rng,
    tag: u64,
    script: VecDeque<[u64; 4]>,
    /// frames written by the remote per carrier
    frames: Vec<u64>,
    /// how often (percent) the next step is one that moves a stream forward
    drive: u64,
}

impl Gen {
    fn fresh(&mut self) -> u64 {
        self.tag += 1;
        self.tag
    }

    /// newest carrier of `p` with the given direction that has not been dropped
    fn live(w: &World, p: usize, inbound: bool) -> Option<u64> {
        (0..w.carriers.len())
            .rev()
            .find(|i| w.roles[*i] == (p, inbound) && !w.carriers[*i].0.lock().unwrap().dropped)
            .map(|i| i as u64)
    }

    /// frames the remote has written on carrier c so far
    fn nframes(&self, c: u64) -> u64 {
        self.frames.get(c as usize).copied().unwrap_or(0)
    }

    fn wrote(&mut self, op: [u64; 4]) -> [u64; 4] {
        if op[0] == 5 && op[2] == 0 {
            let c = op[1] as usize;
            if self.frames.len() <= c {
                self.frames.resize(c + 1, 0);
            }
            self.frames[c] += 1;
        }
        op
    }

    /// the step that moves the stream of peer p forward
    fn progress(&mut self, w: &mut World, p: usize) -> [u64; 4] {
        let pu = p as u64;
        let st = w.notif.peer_state(&w.peers[p]);
        let (hin, hout) = w.notif.negotiating(&w.peers[p]);
        let cin = Self::live(w, p, true);
        let cout = Self::live(w, p, false);
        let poll = [6, 0, 0, 0];
        let val = w.handle.as_ref().map_or(false, |h| h.verif_validation_pending(&w.peers[p]));
        match st[0] {
            0 => {
                if w.connected[p].is_none() {
                    [0, pu, 0, 0]
                } else {
                    poll
                }
            }
            2 => {
                if val {
                    [9, pu, self.rng.chance(80) as u64, 0]
                } else {
                    self.rng.pick(&[[11, 0, 0, 0], poll])
                }
            }
            3 => self.rng.pick(&[[2, pu, 0, 0], [7, pu, 0, 0], poll]),
            5 => {
                if !w.pending_sids[p].is_empty() {
                    [3, pu, 0, 0]
                } else {
                    poll
                }
            }
            6 => {
                let (otag, itag) = (st[2], st[4]);
                let mut opts: Vec<[u64; 4]> = vec![poll];
                if otag == 1 && !w.pending_sids[p].is_empty() {
                    opts.push([3, pu, 0, 0]);
                }
                if otag == 2 && hout {
                    if let Some(c) = cout {
                        opts.push([5, c, 3, 0]);
                        if self.nframes(c) == 0 {
                            let t = self.fresh();
                            opts.push([5, c, 0, t]);
                        }
                    }
                }
                if itag == 0 {
                    opts.push([2, pu, 0, 0]);
                }
                if itag == 1 && hin {
                    if let Some(c) = cin {
                        if self.nframes(c) == 0 {
                            let t = self.fresh();
                            opts.push([5, c, 0, t]);
                            opts.push([5, c, 0, t]);
                        }
                    }
                }
                if itag == 2 {
                    if val {
                        opts.push([9, pu, self.rng.chance(85) as u64, 0]);
                        opts.push([9, pu, 1, 0]);
                    } else {
                        opts.push([11, 0, 0, 0]);
                        opts.push([11, 0, 0, 0]);
                    }
                }
                if itag == 3 && hin {
                    if let Some(c) = cin {
                        opts.push([5, c, 3, 0]);
                        opts.push([5, c, 3, 0]);
                    }
                }
                self.rng.pick(&opts)
            }
            _ => {
                // open: the remote sends, the tasks run, the user receives and sends; now and then the stream ends
                match self.rng.below(100) {
                    0..=29 => match cin {
                        Some(c) => {
                            let t = self.fresh();
                            [5, c, 0, t]
                        }
                        None => poll,
                    },
                    30..=49 => [10, 0, 0, 0],
                    50..=74 => [11, 0, 0, 0],
                    75..=84 => {
                        let t = self.fresh();
                        [12, pu, t, 0]
                    }
                    85..=88 => [8, pu, 0, 0],
                    89..=91 => match cin {
                        Some(c) => [5, c, 1, 0],
                        None => poll,
                    },
                    92 => match cout {
                        Some(c) => [5, c, 2, 0],
                        None => poll,
                    },
                    // closing a substream takes a while
                    93..=95 => {
                        if w.task_cars.is_empty() {
                            poll
                        } else {
                            [5, w.task_cars[self.rng.below(w.task_cars.len() as u64) as usize] as u64, 4, 0]
                        }
                    }
                    _ => poll,
                }
            }
        }
    }

    fn next(&mut self, w: &mut World) -> [u64; 4] {
        let op = self.choose(w);
        self.wrote(op)
    }

    fn choose(&mut self, w: &mut World) -> [u64; 4] {
        if let Some(op) = self.script.pop_front() {
            return op;
        }
        let p = self.rng.below(NP as u64) as usize;
        let pu = p as u64;
        if w.connected[p].is_none() && self.rng.chance(70) {
            return [0, pu, 0, 0];
        }
        let (hin, hout) = w.notif.negotiating(&w.peers[p]);
        let cin = Self::live(w, p, true);
        let cout = Self::live(w, p, false);
        let state = w.notif.peer_state(&w.peers[p])[0];
        if self.rng.chance(self.drive) {
            return self.progress(w, p);
        }
        // several things happen between two polls: the inbound handshake arrives and the outbound substream breaks
        if hin && hout && self.rng.chance(25) {
            if let (Some(a), Some(b)) = (cin, cout) {
                let t = self.fresh();
                let mut ops = vec![[5, a, 0, t], [5, b, self.rng.pick(&[1u64, 2]), 0]];
                if self.rng.chance(50) {
                    ops.reverse();
                }
                self.script.extend(ops);
                self.script.push_back([6, 0, 0, 0]);
                return self.script.pop_front().unwrap();
            }
        }
        match self.rng.below(100) {
            0..=21 => [6, 0, 0, 0],
            22..=29 => [11, 0, 0, 0],
            30..=35 => [10, 0, 0, 0],
            36..=43 => [2, pu, 0, 0],
            44..=49 => [7, pu, 0, 0],
            50 => [8, pu, 0, 0],
            51..=59 => {
                if w.handle.as_ref().map_or(false, |h| h.verif_validation_pending(&w.peers[p])) {
                    [9, pu, self.rng.chance(85) as u64, 0]
                } else {
                    [11, 0, 0, 0]
                }
            }
            60..=69 => {
                if w.pending_sids[p].is_empty() {
                    [6, 0, 0, 0]
                } else if self.rng.chance(88) {
                    [3, pu, 0, 0]
                } else {
                    [4, pu, 0, 0]
                }
            }
            70..=79 => {
                // the inbound substream makes progress: the remote's handshake (sometimes with a notification
                // right behind it), or the flush of our reply
                match cin {
                    Some(c) => {
                        let what = if state == 7 {
                            self.rng.pick(&[0u64, 0, 0, 0, 0, 1])
                        } else {
                            self.rng.pick(&[0u64, 0, 0, 3, 3, 3, 1, 2])
                        };
                        let t = if what == 0 { self.fresh() } else { 0 };
                        if what == 0 && self.rng.chance(30) {
                            let t2 = self.fresh();
                            self.script.push_back([5, c, 0, t2]);
                        }
                        [5, c, what, t]
                    }
                    None => [2, pu, 0, 0],
                }
            }
            80..=89 => match cout {
                Some(c) => {
                    let what = if state == 7 {
                        self.rng.pick(&[3u64, 3, 3, 2])
                    } else {
                        self.rng.pick(&[0u64, 0, 0, 3, 3, 3, 1, 2])
                    };
                    let t = if what == 0 { self.fresh() } else { 0 };
                    [5, c, what, t]
                }
                None => [7, pu, 0, 0],
            },
            90..=94 => {
                let t = self.fresh();
                [12, pu, t, 0]
            }
            95 => [1, pu, 0, 0],
            96 => {
                if self.rng.chance(12) {
                    [13, 0, 0, 0]
                } else {
                    [10, 0, 0, 0]
                }
            }
            _ => {
                // any carrier, also a dropped one
                if w.carriers.is_empty() {
                    [6, 0, 0, 0]
                } else {
                    let c = self.rng.below(w.carriers.len() as u64);
                    let mut what = self.rng.pick(&[0u64, 1, 2, 3, 4, 5, 5, 5]);
                    if what == 4 && !w.task_cars.contains(&(c as usize)) {
                        // a slow close inside a protocol handler parks the event loop (C11's subject)
                        what = 5;
                    }
                    let t = if what == 0 { self.fresh() } else { 0 };
                    [5, c, what, t]
                }
            }
        }
    }
}

pub fn gen_run(mut rng: Rng, thorough: bool) -> (Vec<u64>, Vec<u64>) {
    let rt = tokio::runtime::Builder::new_current_thread().enable_all().build().unwrap();
    let _g = rt.enter();
    let auto = rng.chance(40) as u64;
    let n = if thorough { rng.range(30, 260) } else { rng.range(20, 140) } as usize;
    let mut case = vec![MARK, auto, 0];
    let mut out = vec![3u64];
    let ok = std::panic::catch_unwind(std::panic::AssertUnwindSafe(|| {
        let mut w = World::new(auto != 0);
        let drive = rng.pick(&[35u64, 55, 70, 85]);
        let mut g = Gen { rng, tag: 0, script: VecDeque::new(), frames: Vec::new(), drive };
        // most cases start with both peers connected
        if g.rng.chance(85) {
            g.script.extend([[0, 0, 0, 0], [0, 1, 0, 0], [6, 0, 0, 0], [6, 0, 0, 0]]);
        }
        for _ in 0..n {
            let op = g.next(&mut w);
            case.extend(op);
            case[2] += 1;
            let ran = w.apply(op, false, &mut out).expect("generated cases name no order");
            let l = case.len();
            case[l - 4..].copy_from_slice(&ran);
        }
    }));
    if ok.is_err() {
        out = vec![3, PANIC_MARK];
    }
    (case, out)
}
