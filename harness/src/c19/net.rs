//! Worker side of the transport-level decoders that sit in front of every protocol message:
//!   kind 22  the Noise XX handshake (`crypto::noise::handshake`): raw adversarial bytes, or an
//!            active remote built directly on `snow` that puts arbitrary bytes into its identity
//!            message and lies about that message's length prefix;
//!   kind 23  the WebSocket adapter (`BufferedStream` over tokio-tungstenite, default configuration):
//!            established stream in the server / client role, or after `accept_async` (HTTP upgrade);
//!   kind 24  mDNS: one datagram handed to a real `Mdns` (simple-dns `Packet::parse`,
//!            `on_inbound_response` / `on_inbound_request`).
//! Case formats: coq/C19/Glue.v.
use super::{
    measure,
    run::{alloc_bound, el, ell, hdr, Carrier, Cur, FCarrier, Orc},
};
use futures::{AsyncReadExt, AsyncWriteExt, Future};
use litep2p::{
    config::Role,
    crypto::{
        ed25519,
        verif::{handshake, HandshakeTransport, VERIF_STATIC_KEY_DOMAIN},
        verif_noise_identity::{VerifNoiseResolver, VERIF_NOISE_PARAMETERS},
    },
    error::NegotiationError,
    protocol::mdns::verif::{VerifMdns, VerifMdnsOutcome},
    transport::websocket::verif_stream::VerifWsStream,
    types::multiaddr::Multiaddr,
};
use std::{
    collections::VecDeque,
    pin::Pin,
    sync::{Arc, Mutex},
    task::{Context, Poll, Waker},
    time::Duration,
};

thread_local! {
    static RT: tokio::runtime::Runtime = tokio::runtime::Builder::new_current_thread().enable_all().build().unwrap();
}

// ---------------------------------------------------------------- kind 22: Noise handshake

pub const NOISE_BOUND: u64 = 2 << 20;
/// private static DH key of the scripted remote (its public key is what a valid identity signs)
pub const REMOTE_STATIC: [u8; 32] = [7u8; 32];

pub fn local_keypair() -> ed25519::Keypair {
    super::tasks::local_keypair()
}

fn snow_builder<'a>() -> snow::Builder<'a> {
    snow::Builder::with_resolver(VERIF_NOISE_PARAMETERS.parse().expect("noise parameters"), Box::new(VerifNoiseResolver))
}

/// the X25519 public key of a private key, computed by the resolver litep2p's handshake uses
pub fn x25519_public(private: &[u8; 32]) -> Vec<u8> {
    use snow::resolvers::CryptoResolver;
    let mut dh = VerifNoiseResolver.resolve_dh(&snow::params::DHChoice::Curve25519).expect("dh");
    dh.set(private);
    dh.pubkey().to_vec()
}

/// what a valid identity payload signs for the scripted remote
pub fn remote_signed_message() -> Vec<u8> {
    let mut m = VERIF_STATIC_KEY_DOMAIN.as_bytes().to_vec();
    m.extend(x25519_public(&REMOTE_STATIC));
    m
}

fn negotiation_code(e: &NegotiationError) -> u64 {
    match e {
        NegotiationError::SnowError(_) => 1,
        NegotiationError::IoError(_) => 2,
        NegotiationError::ParseError(_) => 3,
        NegotiationError::PeerIdMissing => 4,
        NegotiationError::BadSignature => 5,
        NegotiationError::Timeout => 6,
        _ => 9,
    }
}

#[derive(Default)]
struct PipeState {
    /// bytes travelling to side 0 / side 1
    to: [VecDeque<u8>; 2],
    /// side i has closed its writing end
    closed: [bool; 2],
    waker: [Option<Waker>; 2],
}
/// one end of an in-memory duplex (futures-io)
struct PipeEnd {
    side: usize,
    st: Arc<Mutex<PipeState>>,
}
fn pipe() -> (PipeEnd, PipeEnd) {
    let st = Arc::new(Mutex::new(PipeState::default()));
    (PipeEnd { side: 0, st: st.clone() }, PipeEnd { side: 1, st })
}
impl Drop for PipeEnd {
    fn drop(&mut self) {
        let mut g = self.st.lock().unwrap();
        g.closed[self.side] = true;
        if let Some(w) = g.waker[1 - self.side].take() {
            w.wake();
        }
    }
}
impl futures::io::AsyncRead for PipeEnd {
    fn poll_read(self: Pin<&mut Self>, cx: &mut Context<'_>, buf: &mut [u8]) -> Poll<std::io::Result<usize>> {
        let mut g = self.st.lock().unwrap();
        let me = self.side;
        if g.to[me].is_empty() {
            if g.closed[1 - me] {
                return Poll::Ready(Ok(0));
            }
            g.waker[me] = Some(cx.waker().clone());
            return Poll::Pending;
        }
        let n = buf.len().min(g.to[me].len());
        for b in buf.iter_mut().take(n) {
            *b = g.to[me].pop_front().unwrap();
        }
        Poll::Ready(Ok(n))
    }
}
impl futures::io::AsyncWrite for PipeEnd {
    fn poll_write(self: Pin<&mut Self>, _cx: &mut Context<'_>, buf: &[u8]) -> Poll<std::io::Result<usize>> {
        let mut g = self.st.lock().unwrap();
        let other = 1 - self.side;
        g.to[other].extend(buf.iter().copied());
        if let Some(w) = g.waker[other].take() {
            w.wake();
        }
        Poll::Ready(Ok(buf.len()))
    }
    fn poll_flush(self: Pin<&mut Self>, _cx: &mut Context<'_>) -> Poll<std::io::Result<()>> {
        Poll::Ready(Ok(()))
    }
    fn poll_close(self: Pin<&mut Self>, _cx: &mut Context<'_>) -> Poll<std::io::Result<()>> {
        Poll::Ready(Ok(()))
    }
}

async fn read_frame(io: &mut PipeEnd) -> Option<Vec<u8>> {
    let mut l = [0u8; 2];
    io.read_exact(&mut l).await.ok()?;
    let mut b = vec![0u8; u16::from_be_bytes(l) as usize];
    io.read_exact(&mut b).await.ok()?;
    Some(b)
}
async fn write_frame(io: &mut PipeEnd, declared: Option<u16>, body: &[u8]) -> Option<()> {
    let d = declared.unwrap_or(body.len() as u16);
    io.write_all(&d.to_be_bytes()).await.ok()?;
    io.write_all(body).await.ok()?;
    Some(())
}

/// The scripted remote: a correct Noise XX peer whose identity message carries `payload` and is
/// announced with the length `declared` (None = the true length). It hangs up afterwards.
async fn scripted_remote(mut io: PipeEnd, victim_is_dialer: bool, payload: Vec<u8>, declared: Option<u16>) -> Option<()> {
    let builder = snow_builder().local_private_key(&REMOTE_STATIC);
    let mut buf = vec![0u8; 70_000];
    let mut out = vec![0u8; 70_000];
    if victim_is_dialer {
        let mut noise = builder.build_responder().ok()?;
        let f = read_frame(&mut io).await?;
        noise.read_message(&f, &mut buf).ok()?;
        let k = noise.write_message(&payload, &mut out).ok()?;
        write_frame(&mut io, declared, &out[..k]).await?;
    } else {
        let mut noise = builder.build_initiator().ok()?;
        let k = noise.write_message(&[], &mut out).ok()?;
        write_frame(&mut io, None, &out[..k]).await?;
        let f = read_frame(&mut io).await?;
        noise.read_message(&f, &mut buf).ok()?;
        let k = noise.write_message(&payload, &mut out).ok()?;
        write_frame(&mut io, declared, &out[..k]).await?;
    }
    Some(())
}

fn noise_result(r: Result<(litep2p::crypto::verif::NoiseSocket<impl futures::io::AsyncRead + futures::io::AsyncWrite + Unpin>, litep2p::PeerId), NegotiationError>) -> Vec<u64> {
    match r {
        Ok((_socket, peer)) => {
            let mut o = vec![0];
            el(&mut o, &peer.to_bytes());
            // consumer stage: the id the handshake hands to the connection (compared with the dialed
            // peer, put into /p2p components by the address book)
            match super::consume::stage(super::consume::STAGE_NOISE, || super::consume::peer_id_conversions(peer)) {
                Ok(m) if m == peer.to_bytes() => o,
                _ => vec![CONSUMER_BODY],
            }
        }
        Err(e) => vec![negotiation_code(&e)],
    }
}
/// body marker of a handshake whose consumer stage failed (turned into the trace `3 stage`)
const CONSUMER_BODY: u64 = 987_654_321;
fn noise_hdr(peak: u64, body: Vec<u64>) -> Vec<u64> {
    if body == [CONSUMER_BODY] {
        vec![super::consume::CONSUMER_PANIC, super::consume::STAGE_NOISE]
    } else {
        hdr(peak, NOISE_BOUND, 0, body)
    }
}

/// `22 role 0 (L stream)` / `22 role 1 (L payload) decl`
pub fn noise(cur: &mut Cur, case: &mut Vec<u64>) -> Option<Vec<u64>> {
    let role_n = cur.n()?;
    let role = match role_n {
        0 => Role::Dialer,
        1 => Role::Listener,
        _ => return None,
    };
    let mode = cur.n()?;
    let kp = local_keypair();
    let t = Duration::from_secs(5);
    match mode {
        0 => {
            let stream = cur.bytes()?;
            if !cur.done() {
                return None;
            }
            Orc::default().push(case);
            let (r, peak) = RT.with(|rt| {
                measure(|| {
                    let io = FCarrier { data: stream.clone(), pos: 0 };
                    rt.block_on(handshake(io, &kp, role, 5, 2, t, HandshakeTransport::Tcp))
                })
            });
            Some(noise_hdr(peak, noise_result(r)))
        }
        1 => {
            let payload = cur.bytes()?;
            let decl = cur.n()?;
            if !cur.done() || decl > 65536 || payload.len() > 65000 {
                return None;
            }
            let declared = if decl == 0 { None } else { Some((decl - 1) as u16) };
            // oracle: the curve check of the identity key and the signature check against the
            // scripted remote's static key (the same library calls the handshake makes)
            let mut orc = Orc::default();
            use litep2p::crypto::verif::{VerifNoiseHandshakePayload, VerifPublicKeyProto};
            use prost::Message as _;
            if let Ok(m) = VerifNoiseHandshakePayload::decode(&payload[..]) {
                if let Some(k) = &m.identity_key {
                    if let Ok(pk) = VerifPublicKeyProto::decode(&k[..]) {
                        if pk.data.len() == 32 {
                            let valid = ed25519::PublicKey::try_from_bytes(&pk.data);
                            orc.add(2, &pk.data, || vec![valid.is_ok() as u64]);
                            if let (Ok(key), Some(sig)) = (valid, &m.identity_sig) {
                                let mut id = pk.data.clone();
                                id.extend(sig);
                                orc.add(7, &id, || vec![key.verify(&remote_signed_message(), sig) as u64]);
                            }
                        }
                    }
                }
            }
            orc.push(case);
            let (a, b) = pipe();
            let (r, peak) = RT.with(|rt| {
                measure(|| {
                    rt.block_on(async {
                        let victim = handshake(a, &kp, role, 5, 2, t, HandshakeTransport::Tcp);
                        let remote = scripted_remote(b, role_n == 0, payload.clone(), declared);
                        let (r, _) = futures::join!(victim, remote);
                        r
                    })
                })
            });
            Some(noise_hdr(peak, noise_result(r)))
        }
        _ => None,
    }
}

// ---------------------------------------------------------------- kind 23: WebSocket adapter

pub const WS_MAX_FRAME: u64 = 16 << 20;
pub fn ws_bound(len: usize) -> u64 {
    WS_MAX_FRAME + 8 * len as u64 + (1 << 20)
}

fn tokio_carrier(stream: &[u8]) -> Carrier {
    let c = Carrier::default();
    *c.input.lock().unwrap() = (stream.to_vec(), 0);
    c
}

/// tokio carrier whose reads never cross the offset `cut` (the remote sent the first `cut` bytes,
/// waited, then sent the rest); `pos` is shared so that the consumed length can be read afterwards
#[derive(Clone)]
struct SegCarrier {
    data: Arc<Vec<u8>>,
    pos: Arc<Mutex<usize>>,
    cut: usize,
}
impl tokio::io::AsyncRead for SegCarrier {
    fn poll_read(self: Pin<&mut Self>, _cx: &mut Context<'_>, buf: &mut tokio::io::ReadBuf<'_>) -> Poll<std::io::Result<()>> {
        let mut pos = self.pos.lock().unwrap();
        let limit = if *pos < self.cut { self.cut.min(self.data.len()) } else { self.data.len() };
        let n = buf.remaining().min(limit - *pos);
        buf.put_slice(&self.data[*pos..*pos + n]);
        *pos += n;
        Poll::Ready(Ok(()))
    }
}
impl tokio::io::AsyncWrite for SegCarrier {
    fn poll_write(self: Pin<&mut Self>, _cx: &mut Context<'_>, buf: &[u8]) -> Poll<std::io::Result<usize>> {
        Poll::Ready(Ok(buf.len()))
    }
    fn poll_flush(self: Pin<&mut Self>, _cx: &mut Context<'_>) -> Poll<std::io::Result<()>> {
        Poll::Ready(Ok(()))
    }
    fn poll_shutdown(self: Pin<&mut Self>, _cx: &mut Context<'_>) -> Poll<std::io::Result<()>> {
        Poll::Ready(Ok(()))
    }
}

/// The remote of a dialing WebSocket client: it reads the upgrade request, derives the accept key
/// from it and puts it where the 28-byte marker stands in `template` (first occurrence only, so
/// all offsets stay the same), then sends the bytes; reads never cross the offset `cut`.
pub const WS_ACCEPT_MARKER: &[u8; 28] = b"@@@@@@@@@@@@@@@@@@@@@@@@@@@@";
#[derive(Clone)]
struct Responder {
    template: Arc<Vec<u8>>,
    limit: usize,
    cut: usize,
    st: Arc<Mutex<(Vec<u8>, Option<Vec<u8>>, usize)>>, // request seen so far, response once built, position
}
impl Responder {
    fn new(template: &[u8], limit: usize, cut: usize) -> Self {
        Responder { template: Arc::new(template.to_vec()), limit, cut, st: Default::default() }
    }
}
impl tokio::io::AsyncRead for Responder {
    fn poll_read(self: Pin<&mut Self>, _cx: &mut Context<'_>, buf: &mut tokio::io::ReadBuf<'_>) -> Poll<std::io::Result<()>> {
        let mut g = self.st.lock().unwrap();
        if g.1.is_none() {
            let req = String::from_utf8_lossy(&g.0).to_string();
            let key = req.lines().find_map(|l| l.strip_prefix("Sec-WebSocket-Key: ")).unwrap_or("").trim().to_string();
            let accept = tokio_tungstenite::tungstenite::handshake::derive_accept_key(key.as_bytes());
            let mut r = self.template[..self.limit].to_vec();
            if accept.len() == 28 {
                if let Some(i) = r.windows(28).position(|w| w == WS_ACCEPT_MARKER) {
                    r[i..i + 28].copy_from_slice(accept.as_bytes());
                }
            }
            g.1 = Some(r);
        }
        let (_, resp, pos) = &mut *g;
        let data = resp.as_ref().unwrap();
        let limit = if *pos < self.cut { self.cut.min(data.len()) } else { data.len() };
        let n = buf.remaining().min(limit - *pos);
        buf.put_slice(&data[*pos..*pos + n]);
        *pos += n;
        Poll::Ready(Ok(()))
    }
}
impl tokio::io::AsyncWrite for Responder {
    fn poll_write(self: Pin<&mut Self>, _cx: &mut Context<'_>, buf: &[u8]) -> Poll<std::io::Result<usize>> {
        self.st.lock().unwrap().0.extend_from_slice(buf);
        Poll::Ready(Ok(buf.len()))
    }
    fn poll_flush(self: Pin<&mut Self>, _cx: &mut Context<'_>) -> Poll<std::io::Result<()>> {
        Poll::Ready(Ok(()))
    }
    fn poll_shutdown(self: Pin<&mut Self>, _cx: &mut Context<'_>) -> Poll<std::io::Result<()>> {
        Poll::Ready(Ok(()))
    }
}
const WS_URL: &str = "ws://10.0.0.1:4001/";

/// everything the adapter hands out until it ends (0) or fails (1); 3 = iteration cap
async fn ws_drain<S: tokio::io::AsyncRead + tokio::io::AsyncWrite + Unpin>(mut ws: VerifWsStream<S>, chunk: usize) -> (Vec<u8>, u64) {
    let mut out = Vec::new();
    let mut buf = vec![0u8; chunk.max(1)];
    for _ in 0..200_000 {
        match ws.read(&mut buf).await {
            Ok(0) => return (out, 0),
            Ok(n) => out.extend_from_slice(&buf[..n]),
            Err(_) => return (out, 1),
        }
    }
    (out, 3)
}

/// `23 mode chunk cut (L stream)`: mode 0 server role, 2 client role (both without HTTP upgrade,
/// cut = 0), 1 `accept_async` first (the remote sends stream[..cut], then the rest), 3
/// `client_async_tls` first (the stream is the remote's response with the accept-key marker)
pub fn websocket(cur: &mut Cur, case: &mut Vec<u64>) -> Option<Vec<u64>> {
    let mode = cur.n()?;
    let chunk = cur.n()? as usize;
    let cut = cur.n()? as usize;
    let stream = cur.bytes()?;
    if !cur.done() || mode > 3 || chunk == 0 || chunk > 1 << 20 || (mode != 1 && mode != 3 && cut != 0) || cut > stream.len() {
        return None;
    }
    RT.with(|rt| {
        let mut orc = Orc::default();
        if mode == 1 {
            // oracle: does the HTTP upgrade parser accept, and how many bytes had it consumed then
            // (the rest belongs to the WebSocket stream)
            let c = SegCarrier { data: Arc::new(stream.clone()), pos: Default::default(), cut };
            let ok = rt.block_on(VerifWsStream::accept(c.clone())).is_ok();
            let consumed = *c.pos.lock().unwrap();
            orc.add(8, &stream, || vec![ok as u64, if ok { consumed as u64 } else { 0 }]);
        }
        if mode == 3 {
            // oracle: does the HTTP upgrade RESPONSE parser accept, and how long is the response
            // head (the shortest prefix of the stream that is still accepted)
            let accepts = |n: usize| rt.block_on(VerifWsStream::connect(WS_URL, Responder::new(&stream, n, cut.min(n)))).is_ok();
            let ok = accepts(stream.len());
            let mut head = 0usize;
            if ok {
                let (mut lo, mut hi) = (0usize, stream.len());
                while lo < hi {
                    let mid = (lo + hi) / 2;
                    if accepts(mid) {
                        hi = mid;
                    } else {
                        lo = mid + 1;
                    }
                }
                head = lo;
            }
            orc.add(8, &stream, || vec![ok as u64, head as u64]);
        }
        orc.push(case);
        let ((accepted, out, st), peak) = measure(|| {
            rt.block_on(async {
                if mode == 1 {
                    let c = SegCarrier { data: Arc::new(stream.clone()), pos: Default::default(), cut };
                    match VerifWsStream::accept(c).await {
                        Ok(ws) => {
                            let (out, st) = ws_drain(ws, chunk).await;
                            (1u64, out, st)
                        }
                        Err(e) => {
                            if std::env::var_os("C19_DEBUG").is_some() {
                                eprintln!("ws accept: {e}");
                            }
                            (0u64, Vec::new(), 1u64)
                        }
                    }
                } else if mode == 3 {
                    match VerifWsStream::connect(WS_URL, Responder::new(&stream, stream.len(), cut)).await {
                        Ok(ws) => {
                            let (out, st) = ws_drain(ws, chunk).await;
                            (1u64, out, st)
                        }
                        Err(e) => {
                            if std::env::var_os("C19_DEBUG").is_some() {
                                eprintln!("ws connect: {e}");
                            }
                            (0u64, Vec::new(), 1u64)
                        }
                    }
                } else {
                    let ws = VerifWsStream::established(tokio_carrier(&stream), mode == 0).await;
                    let (out, st) = ws_drain(ws, chunk).await;
                    (1, out, st)
                }
            })
        });
        let mut body = vec![accepted];
        el(&mut body, &out);
        body.push(st);
        Some(hdr(peak, ws_bound(stream.len()), out.len() as u64, body))
    })
}

/// round trip: the adapter in the client (masking) or server role writes `chunks` (one Binary
/// frame per write), the opposite role reads the bytes back: (wire length, read back, status, peak)
pub fn ws_roundtrip(client_writes: bool, chunks: &[Vec<u8>]) -> Option<(usize, Vec<u8>, u64, u64)> {
    RT.with(|rt| {
        rt.block_on(async {
            let carrier = Carrier::default();
            let written = carrier.written.clone();
            let mut ws = VerifWsStream::established(carrier, !client_writes).await;
            for c in chunks {
                ws.write_all(c).await.ok()?;
                ws.flush().await.ok()?;
            }
            let wire = written.lock().unwrap().clone();
            let ((out, st), peak) = {
                let rd = VerifWsStream::established(tokio_carrier(&wire), client_writes).await;
                let mut rd = Some(rd);
                let mut res = None;
                let (_, peak) = measure(|| {
                    // the read side runs to completion inside the measured window
                    let waker = futures::task::noop_waker();
                    let mut cx = Context::from_waker(&waker);
                    let mut fut = Box::pin(ws_drain(rd.take().unwrap(), 4096));
                    for _ in 0..1_000_000 {
                        if let Poll::Ready(r) = fut.as_mut().poll(&mut cx) {
                            res = Some(r);
                            break;
                        }
                    }
                });
                (res?, peak)
            };
            Some((wire.len(), out, st, peak))
        })
    })
}

// ---------------------------------------------------------------- kind 24: mDNS

fn labels_of(name: &simple_dns::Name) -> Vec<Vec<u8>> {
    name.iter().map(|l| l.as_ref().to_vec()).collect()
}

/// canonical summary of what simple-dns makes of the datagram (oracle entry kind 5)
fn mdns_summary(datagram: &[u8]) -> (Vec<u64>, Vec<Vec<u8>>) {
    use simple_dns::{rdata::RData, Packet, PacketFlag};
    let mut strings = Vec::new();
    let Ok(p) = Packet::parse(datagram) else { return (vec![0], strings) };
    let mut o = vec![1, p.has_flags(PacketFlag::RESPONSE) as u64];
    o.push(p.answers.len() as u64);
    for a in &p.answers {
        ell(&mut o, &labels_of(&a.name));
        match &a.rdata {
            RData::PTR(ptr) => {
                o.push(1);
                ell(&mut o, &labels_of(&ptr.0));
            }
            _ => o.push(0),
        }
    }
    o.push(p.additional_records.len() as u64);
    for a in &p.additional_records {
        ell(&mut o, &labels_of(&a.name));
        match &a.rdata {
            RData::TXT(txt) => {
                o.push(1);
                let mut vals: Vec<Vec<u8>> = txt.attributes().values().filter_map(|v| v.as_ref().map(|s| s.as_bytes().to_vec())).collect();
                vals.sort();
                ell(&mut o, &vals);
                strings.extend(vals);
            }
            _ => o.push(0),
        }
    }
    (o, strings)
}

/// `24 (L username) (L (L listen address bytes)) (L datagram)`
pub fn mdns(cur: &mut Cur, case: &mut Vec<u64>) -> Option<Vec<u64>> {
    let username = cur.bytes()?;
    let listen = cur.list(|c| c.bytes())?;
    let datagram = cur.bytes()?;
    if !cur.done() || username.is_empty() || username.len() > 63 || !username.iter().all(|b| b.is_ascii_alphanumeric()) {
        return None;
    }
    let listen: Option<Vec<Multiaddr>> = listen.into_iter().map(|a| Multiaddr::try_from(a).ok()).collect();
    let listen = listen?;
    if listen.iter().any(|a| a.to_string().len() > 240) {
        return None;
    }
    let nlisten = listen.len();
    RT.with(|rt| {
        let _g = rt.enter();
        let mut m = VerifMdns::new(std::str::from_utf8(&username).ok()?, listen);
        let cut = &datagram[..datagram.len().min(m.receive_buffer_len())];
        let mut orc = Orc::default();
        let (summary, strings) = mdns_summary(cut);
        orc.add(5, cut, || summary);
        for s in strings {
            orc.add(6, &s, || match std::str::from_utf8(&s).ok().and_then(|t| t.parse::<Multiaddr>().ok()) {
                Some(a) => {
                    let mut v = vec![1];
                    v.extend(a.to_vec().iter().map(|x| *x as u64));
                    v
                }
                None => vec![0],
            });
        }
        orc.push(case);
        let (r, peak) = measure(|| m.on_datagram(&datagram));
        let mut cap = 0;
        let body = match r {
            VerifMdnsOutcome::ParseError => vec![0],
            VerifMdnsOutcome::Discovered(addrs) => {
                // consumer stage: what is done with a discovered address
                for a in &addrs {
                    if super::consume::stage(super::consume::STAGE_MADDR, || super::consume::maddr_consumers(a)).is_err() {
                        return Some(vec![super::consume::CONSUMER_PANIC, super::consume::STAGE_MADDR]);
                    }
                }
                let mut l: Vec<Vec<u8>> = addrs.iter().map(|a| a.to_vec()).collect();
                l.sort();
                let mut o = vec![1];
                ell(&mut o, &l);
                cap = l.len() as u64;
                o
            }
            VerifMdnsOutcome::Reply(None) => vec![2, 0],
            VerifMdnsOutcome::Reply(Some(reply)) => {
                // the reply as simple-dns reads it back: one TXT record per listen address
                let n = simple_dns::Packet::parse(&reply).map(|p| p.additional_records.len()).unwrap_or(usize::MAX);
                vec![2, 1, n as u64, (n == nlisten) as u64]
            }
        };
        Some(hdr(peak, alloc_bound(cut.len()) + (1 << 16), cap, body))
    })
}

/// round trip: instance A (listen addresses) answers a query, instance B reads the answer
pub fn mdns_roundtrip(user_a: &str, user_b: &str, listen: Vec<Multiaddr>, query_id: u16) -> Option<(Vec<u8>, Vec<Vec<u8>>, u64)> {
    RT.with(|rt| {
        let _g = rt.enter();
        let mut a = VerifMdns::new(user_a, listen);
        let mut b = VerifMdns::new(user_b, Vec::new());
        let mut q = simple_dns::Packet::new_query(query_id);
        q.questions.push(simple_dns::Question::new(
            simple_dns::Name::new_unchecked("_p2p._udp.local"),
            simple_dns::QTYPE::TYPE(simple_dns::TYPE::PTR),
            simple_dns::QCLASS::CLASS(simple_dns::CLASS::IN),
            false,
        ));
        let query = q.build_bytes_vec().ok()?;
        let VerifMdnsOutcome::Reply(Some(reply)) = a.on_datagram(&query) else { return None };
        let (r, peak) = measure(|| b.on_datagram(&reply));
        let VerifMdnsOutcome::Discovered(addrs) = r else { return Some((reply, Vec::new(), peak)) };
        let mut l: Vec<Vec<u8>> = addrs.iter().map(|a| a.to_vec()).collect();
        l.sort();
        Some((reply, l, peak))
    })
}
