//! C19 feature worker: a stand-alone program (NOT a module of the harness crate) that the C19 driver
//! copies into a generated crate depending on litep2p with the cargo features `quic` and `webrtc`
//! and builds on demand (harness/target-c19x). It speaks the worker line protocol of c19.rs for
//! the kinds that need those features:
//!   18 (L der)    crypto::tls::certificate::parse on arbitrary DER bytes        -> 1 bound 0
//!   19 (L bytes)  webrtc extract_framed_message + WebRtcMessage::decode        -> see coq/C19/Glue.v
//!   25 (L reply)  NoiseContext::with_prologue + first_message + get_remote_peer_id(reply)  -> 1 bound 0 code
//!   9918          a fresh certificate for the fixed key (seed for the TLS mutations)
//! Every call runs under catch_unwind with the peak-allocation counter on.
use std::{
    alloc::{GlobalAlloc, Layout, System},
    io::{BufRead, Write},
    panic::{catch_unwind, AssertUnwindSafe},
    sync::atomic::{AtomicBool, AtomicIsize, Ordering},
};

struct Counting;
static ENABLED: AtomicBool = AtomicBool::new(false);
static CUR: AtomicIsize = AtomicIsize::new(0);
static PEAK: AtomicIsize = AtomicIsize::new(0);
fn add(n: usize) {
    if ENABLED.load(Ordering::Relaxed) {
        let c = CUR.fetch_add(n as isize, Ordering::Relaxed) + n as isize;
        PEAK.fetch_max(c, Ordering::Relaxed);
    }
}
fn sub(n: usize) {
    if ENABLED.load(Ordering::Relaxed) {
        CUR.fetch_sub(n as isize, Ordering::Relaxed);
    }
}
unsafe impl GlobalAlloc for Counting {
    unsafe fn alloc(&self, l: Layout) -> *mut u8 {
        add(l.size());
        System.alloc(l)
    }
    unsafe fn alloc_zeroed(&self, l: Layout) -> *mut u8 {
        add(l.size());
        System.alloc_zeroed(l)
    }
    unsafe fn dealloc(&self, p: *mut u8, l: Layout) {
        sub(l.size());
        System.dealloc(p, l)
    }
    unsafe fn realloc(&self, p: *mut u8, l: Layout, new: usize) -> *mut u8 {
        add(new);
        let r = System.realloc(p, l, new);
        sub(l.size());
        r
    }
}
#[global_allocator]
static GLOBAL: Counting = Counting;

fn measure<R>(f: impl FnOnce() -> R) -> (R, u64) {
    CUR.store(0, Ordering::SeqCst);
    PEAK.store(0, Ordering::SeqCst);
    ENABLED.store(true, Ordering::SeqCst);
    let r = f();
    ENABLED.store(false, Ordering::SeqCst);
    (r, PEAK.load(Ordering::SeqCst).max(0) as u64)
}

const PANIC_MARK: u64 = 999_999_999;
const ALLOC_FACTOR: u64 = 96;
const ALLOC_CONST: u64 = 16384;
const TLS_CONST: u64 = 65536;
fn alloc_bound(len: usize) -> u64 {
    ALLOC_FACTOR * len as u64 + ALLOC_CONST
}

fn el(out: &mut Vec<u64>, b: &[u8]) {
    out.push(b.len() as u64);
    out.extend(b.iter().map(|x| *x as u64));
}
fn bytes_at(c: &[u64], i: usize) -> Option<Vec<u8>> {
    let n = *c.get(i)? as usize;
    if i + 1 + n != c.len() {
        return None;
    }
    c[i + 1..].iter().map(|x| u8::try_from(*x).ok()).collect()
}

fn run(c: &[u64]) -> Option<Vec<u64>> {
    match *c.first()? {
        18 => {
            let der = bytes_at(c, 1)?;
            let (_ok, peak) = measure(|| litep2p::crypto::verif_tls::verif_tls_parse(&der).is_some());
            let bound = alloc_bound(der.len()) + TLS_CONST;
            Some(vec![1, if peak <= bound { bound } else { peak }, 0])
        }
        19 => {
            use litep2p::transport::webrtc::verif::{extract_framed_message, WebRtcMessage};
            let b = bytes_at(c, 1)?;
            let (r, peak) = measure(|| {
                let mut buf = bytes::BytesMut::from(&b[..]);
                match extract_framed_message(&mut buf) {
                    Ok(None) => (0u64, None, buf.to_vec(), None),
                    Err(_) => (1, None, buf.to_vec(), None),
                    Ok(Some(frame)) => {
                        let m = WebRtcMessage::decode(&frame).ok().map(|m| (m.payload, m.flag.map(|f| f as i32 as u64)));
                        (2, Some(frame.to_vec()), buf.to_vec(), m)
                    }
                }
            });
            let bound = alloc_bound(b.len());
            let mut t = vec![1, if peak <= bound { bound } else { peak }, 0, r.0];
            if let Some(frame) = &r.1 {
                el(&mut t, frame);
                el(&mut t, &r.2);
                match &r.3 {
                    Some((payload, flag)) => {
                        t.push(1);
                        match payload {
                            Some(p) => {
                                t.push(1);
                                el(&mut t, p)
                            }
                            None => t.push(0),
                        }
                        t.push(flag.map(|f| f + 1).unwrap_or(0));
                    }
                    None => t.push(0),
                }
            }
            Some(t)
        }
        25 => {
            // the WebRTC Noise path on byte vectors: initiator with a prologue, first message
            // written, then the remote's reply (u16 length + Noise message) is parsed
            use litep2p::{config::Role, crypto::verif_webrtc_noise::NoiseContext, error::NegotiationError};
            let reply = bytes_at(c, 1)?;
            let kp = litep2p::crypto::ed25519::Keypair::from(litep2p::crypto::ed25519::SecretKey::try_from_bytes([1u8; 32]).ok()?);
            let (code, peak) = measure(|| {
                let mut ctx = NoiseContext::with_prologue(&kp, b"libp2p-webrtc-noise:verif".to_vec()).ok()?;
                ctx.first_message(Role::Dialer).ok()?;
                Some(match ctx.get_remote_peer_id(&reply) {
                    Ok(_) => 0u64,
                    Err(NegotiationError::SnowError(_)) => 1,
                    Err(NegotiationError::IoError(_)) => 2,
                    Err(NegotiationError::ParseError(_)) => 3,
                    Err(NegotiationError::PeerIdMissing) => 4,
                    Err(NegotiationError::BadSignature) => 5,
                    Err(_) => 9,
                })
            });
            const NOISE_BOUND: u64 = 2 << 20;
            Some(vec![1, if peak <= NOISE_BOUND { NOISE_BOUND } else { peak }, 0, code?])
        }
        9918 => {
            let kp = litep2p::crypto::ed25519::Keypair::from(litep2p::crypto::ed25519::SecretKey::try_from_bytes([1u8; 32]).ok()?);
            let der = litep2p::crypto::verif_tls::verif_tls_generate(&kp)?;
            let mut t = Vec::new();
            el(&mut t, &der);
            Some(t)
        }
        _ => None,
    }
}

fn line(xs: &[u64]) -> String {
    xs.iter().map(|x| x.to_string()).collect::<Vec<_>>().join(" ")
}

fn main() {
    std::panic::set_hook(Box::new(|_| {}));
    let stdin = std::io::stdin();
    let stdout = std::io::stdout();
    let mut out = stdout.lock();
    for l in stdin.lock().lines() {
        let Ok(l) = l else { break };
        let c: Vec<u64> = l.split_whitespace().filter_map(|t| t.parse().ok()).collect();
        let r = catch_unwind(AssertUnwindSafe(|| run(&c)));
        ENABLED.store(false, Ordering::SeqCst);
        let t = match r {
            Ok(Some(t)) => t,
            Ok(None) => vec![0],
            Err(_) => vec![PANIC_MARK],
        };
        writeln!(out, "{} | {}", line(&c), line(&t)).unwrap();
        out.flush().unwrap();
    }
}
