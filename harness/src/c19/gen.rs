//! Driver side: seeds (valid encodings of every message kind), protobuf-aware and byte-level
//! mutators, the systematic part (every truncation, every length-prefix lie) and the random part.
//! Nothing here calls a litep2p decoder: proto-cases are plain numbers.
use crate::util::*;

pub fn uvi(mut n: u64) -> Vec<u8> {
    let mut v = Vec::new();
    loop {
        if n < 128 {
            v.push(n as u8);
            return v;
        }
        v.push((n & 127) as u8 | 128);
        n >>= 7;
    }
}
/// a varint padded to `width` bytes (non-minimal when width exceeds the natural length)
fn uvi_padded(n: u64, width: usize) -> Vec<u8> {
    let mut v = uvi(n);
    while v.len() < width {
        let last = v.len() - 1;
        v[last] |= 128;
        v.push(0);
    }
    v
}

fn el(out: &mut Vec<u64>, b: &[u8]) {
    out.push(b.len() as u64);
    out.extend(b.iter().map(|x| *x as u64));
}
fn eo(out: &mut Vec<u64>, b: &Option<Vec<u8>>) {
    match b {
        Some(b) => {
            out.push(1);
            el(out, b)
        }
        None => out.push(0),
    }
}
fn ell(out: &mut Vec<u64>, l: &[Vec<u8>]) {
    out.push(l.len() as u64);
    for b in l {
        el(out, b);
    }
}
fn rand_bytes(rng: &mut Rng, n: usize) -> Vec<u8> {
    (0..n).map(|_| rng.below(256) as u8).collect()
}

// ---------------------------------------------------------------- protobuf trees

#[derive(Clone, Debug)]
pub enum Val {
    Varint(u64),
    RawVarint(Vec<u8>),
    F64([u8; 8]),
    F32([u8; 4]),
    Bytes(Vec<u8>),
    Msg(Vec<Fld>),
    Group(Vec<Fld>),
    /// end-group key only (unbalanced)
    EndGroup,
}
#[derive(Clone, Debug)]
pub struct Fld {
    pub num: u64,
    pub val: Val,
    /// write this wire type instead of the natural one
    pub wt: Option<u8>,
}
fn f(num: u64, val: Val) -> Fld {
    Fld { num, val, wt: None }
}
fn fb(num: u64, b: &[u8]) -> Fld {
    f(num, Val::Bytes(b.to_vec()))
}
fn fv(num: u64, n: u64) -> Fld {
    f(num, Val::Varint(n))
}
fn fm(num: u64, m: Vec<Fld>) -> Fld {
    f(num, Val::Msg(m))
}

struct Ser {
    /// (index of the length-delimited node in preorder, declared length to write instead)
    lie: Option<(usize, u64)>,
    count: usize,
}
impl Ser {
    fn key(num: u64, wt: u8) -> Vec<u8> {
        uvi((num << 3) | wt as u64)
    }
    fn len_prefix(&mut self, real: usize) -> Vec<u8> {
        let idx = self.count;
        self.count += 1;
        match self.lie {
            Some((i, v)) if i == idx => uvi(v),
            _ => uvi(real as u64),
        }
    }
    fn flds(&mut self, fs: &[Fld]) -> Vec<u8> {
        let mut o = Vec::new();
        for x in fs {
            let nat = match &x.val {
                Val::Varint(_) | Val::RawVarint(_) => 0,
                Val::F64(_) => 1,
                Val::Bytes(_) | Val::Msg(_) => 2,
                Val::Group(_) => 3,
                Val::EndGroup => 4,
                Val::F32(_) => 5,
            };
            o.extend(Self::key(x.num, x.wt.unwrap_or(nat)));
            match &x.val {
                Val::Varint(n) => o.extend(uvi(*n)),
                Val::RawVarint(b) => o.extend(b),
                Val::F64(b) => o.extend(b),
                Val::F32(b) => o.extend(b),
                Val::Bytes(b) => {
                    o.extend(self.len_prefix(b.len()));
                    o.extend(b)
                }
                Val::Msg(m) => {
                    // reserve this node's index before its children
                    let idx = self.count;
                    self.count += 1;
                    let body = self.flds(m);
                    let l = match self.lie {
                        Some((i, v)) if i == idx => v,
                        _ => body.len() as u64,
                    };
                    o.extend(uvi(l));
                    o.extend(body)
                }
                Val::Group(m) => {
                    o.extend(self.flds(m));
                    o.extend(Self::key(x.num, 4))
                }
                Val::EndGroup => {}
            }
        }
        o
    }
}
pub fn ser(fs: &[Fld]) -> Vec<u8> {
    Ser { lie: None, count: 0 }.flds(fs)
}
fn count_len_nodes(fs: &[Fld]) -> usize {
    let mut s = Ser { lie: None, count: 0 };
    s.flds(fs);
    s.count
}
const EXTREMES: [u64; 8] = [0, 1, 127, 128, 1 << 14, (1 << 32) - 1, u64::MAX, 1 << 63];
/// EXTREMES plus usize::MAX - k for k in 0..16: lengths for which `offset + len` wraps around
pub fn all_extremes() -> Vec<u64> {
    let mut v = EXTREMES.to_vec();
    for k in 1..16u64 {
        v.push(u64::MAX - k);
    }
    v
}
fn pick_extreme(rng: &mut Rng) -> u64 {
    if rng.chance(50) {
        EXTREMES[rng.below(EXTREMES.len() as u64) as usize]
    } else {
        u64::MAX - rng.below(16)
    }
}
const NEAR_MAX_K: [u64; 6] = [1, 2, 5, 9, 10, 15];
fn len_lies(fs: &[Fld]) -> Vec<Vec<u8>> {
    let n = count_len_nodes(fs);
    let mut out = Vec::new();
    for i in 0..n {
        for v in EXTREMES.into_iter().chain(NEAR_MAX_K.iter().map(|k| u64::MAX - k)) {
            out.push(Ser { lie: Some((i, v)), count: 0 }.flds(fs));
        }
    }
    out
}

// ---------------------------------------------------------------- values

/// A multihash of the given code with a digest of `n` bytes: the shapes on both sides of the
/// admission boundary of a peer id (identity: digest <= 42; sha2-256: any digest the 64-byte
/// multihash holds; any other code: never).
pub fn mh_shape(code: u64, n: u64) -> Vec<u8> {
    let mut b = uvi(code);
    b.extend(uvi(n));
    b.extend((0..n).map(|i| (i.wrapping_mul(7).wrapping_add(n)) as u8));
    b
}
pub const MH_CODES: [u64; 5] = [0x00, 0x12, 0x13, 0x11, 0xb220];
/// every (code, digest length 0..=66) shape
pub fn mh_family(codes: &[u64]) -> Vec<Vec<u8>> {
    let mut v = Vec::new();
    for c in codes {
        for n in 0..=66u64 {
            v.push(mh_shape(*c, n));
        }
    }
    v
}
/// does litep2p (and the multiaddr crate) take this shape as a peer id?
pub fn mh_is_peer_id(code: u64, n: u64) -> bool {
    (code == 0 && n <= 42) || (code == 0x12 && n <= 64)
}
pub fn peer_id(rng: &mut Rng) -> Vec<u8> {
    if rng.chance(12) {
        // a valid id of an unusual shape (any inlined length, any sha2-256 digest length)
        return if rng.chance(50) { mh_shape(0, rng.below(43)) } else { mh_shape(0x12, rng.below(65)) };
    }
    if rng.chance(50) {
        let mut b = vec![0x12, 0x20];
        b.extend(rand_bytes(rng, 32));
        b
    } else {
        let mut b = vec![0x00, 0x24, 0x08, 0x01, 0x12, 0x20];
        b.extend(rand_bytes(rng, 32));
        b
    }
}
fn bad_peer_id(rng: &mut Rng) -> Vec<u8> {
    match rng.below(7) {
        0 => vec![],
        // a well-formed multihash that is no peer id: identity with an over-long digest, another code
        5 => mh_shape(0, rng.range(43, 66)),
        6 => mh_shape(rng.pick(&[0x13u64, 0x11, 0xb220, 1]), rng.pick(&[0u64, 20, 32, 42, 43, 64])),
        1 => {
            let mut b = vec![0x13, 0x20];
            b.extend(rand_bytes(rng, 32));
            b
        }
        2 => {
            // declared digest length off by one or extreme
            let mut b = vec![0x12];
            b.extend(if rng.chance(50) { vec![0x21] } else { uvi(pick_extreme(rng)) });
            b.extend(rand_bytes(rng, 32));
            b
        }
        3 => {
            // over-long code varint: accepted, renders shorter
            let mut b = vec![0x92, 0x80, 0x80, 0x80, 0x80, 0x80, 0x80, 0x80, 0x80, 0x02, 0x20];
            b.extend(rand_bytes(rng, 32));
            b
        }
        _ => {
            let n = rng.below(50) as usize;
            rand_bytes(rng, n)
        }
    }
}
/// a valid binary multiaddress; `p2p` appends /p2p/<id>
pub fn maddr(rng: &mut Rng, p2p: Option<&[u8]>) -> Vec<u8> {
    let mut b = Vec::new();
    match rng.below(6) {
        0 => {
            b.push(4);
            b.extend([10, rng.below(256) as u8, rng.below(256) as u8, rng.below(256) as u8]);
        }
        1 => {
            b.push(4);
            b.extend([8, 8, rng.below(256) as u8, rng.below(256) as u8]);
        }
        2 => {
            b.push(41);
            b.extend(rand_bytes(rng, 16));
        }
        3 => {
            b.push(53);
            let name = b"example.org";
            b.push(name.len() as u8);
            b.extend(name);
        }
        4 => {
            b.push(4);
            b.extend([127, 0, 0, 1]);
        }
        _ => {
            b.push(54);
            let name = b"node.example";
            b.push(name.len() as u8);
            b.extend(name);
        }
    }
    if rng.chance(85) {
        b.push(6);
        let port = rng.below(65536) as u16;
        b.extend(port.to_be_bytes());
        if rng.chance(15) {
            b.extend(uvi(477)); // /ws
        }
    } else {
        b.extend(uvi(273)); // /udp
        let port = rng.below(65536) as u16;
        b.extend(port.to_be_bytes());
        b.extend(uvi(460)); // /quic
    }
    if let Some(id) = p2p {
        b.extend(uvi(421));
        b.extend(uvi(id.len() as u64));
        b.extend(id);
    }
    b
}

/// a multiaddress drawn from the whole protocol table of multiaddr 0.18 (valid unless noted)
fn maddr_any(rng: &mut Rng) -> Vec<u8> {
    let mut b = Vec::new();
    let lp = |rng: &mut Rng, b: &mut Vec<u8>, code: u64, data: &[u8]| {
        b.extend(uvi(code));
        let n = if rng.chance(6) { pick_extreme(rng) } else if rng.chance(5) { data.len() as u64 + 1 } else { data.len() as u64 };
        b.extend(uvi(n));
        b.extend(data);
    };
    for _ in 0..rng.range(1, 4) {
        match rng.below(22) {
            0 => {
                b.push(4);
                b.extend(rand_bytes(rng, 4));
            }
            1 => {
                b.push(41);
                b.extend(rand_bytes(rng, 16));
            }
            2 => {
                let c = rng.pick(&[6u64, 273, 132, 33]);
                b.extend(uvi(c));
                b.extend(rand_bytes(rng, 2));
            }
            3 => {
                let c = rng.pick(&[53u64, 54, 55, 56, 400, 4770, 4780, 42, 449]);
                let d = string_val(rng);
                lp(rng, &mut b, c, &d);
            }
            4 => {
                let c = rng.pick(&[480u64, 443, 276, 275, 280, 479, 290, 460, 461, 448, 454, 301, 302, 465, 477, 478, 277, 281]);
                b.extend(uvi(c));
            }
            5 => {
                // certhash: an exact multihash (any code, digest <= 64)
                let n = rng.pick(&[0u64, 20, 32, 64, 65]);
                let mut mh = uvi(rng.pick(&[0x12u64, 0x16, 0x1e, 0xb220]));
                mh.extend(uvi(n));
                mh.extend(rand_bytes(rng, n as usize));
                if rng.chance(10) {
                    mh.push(0);
                }
                lp(rng, &mut b, 466, &mh);
            }
            6 => {
                b.extend(uvi(777));
                b.extend(rand_bytes(rng, 8));
            }
            7 => {
                b.extend(uvi(444));
                b.extend(rand_bytes(rng, 12));
            }
            8 => {
                b.extend(uvi(445));
                b.extend(rand_bytes(rng, 37));
            }
            9 | 10 => {
                let id = if rng.chance(80) { peer_id(rng) } else { bad_peer_id(rng) };
                lp(rng, &mut b, 421, &id);
            }
            11 => {
                let c = rng.pick(&[446u64, 447]);
                let d = small_bytes(rng, 40);
                lp(rng, &mut b, c, &d);
            }
            12 => {
                b.push(43);
                b.push(rng.below(256) as u8);
            }
            13 => {
                // unknown or over-long protocol id
                match rng.below(3) {
                    0 => b.extend(uvi(rng.pick(&[0u64, 1, 5, 7, 999, 1 << 20, (1 << 32) - 1]))),
                    1 => b.extend(uvi_padded(4, rng.pick(&[2usize, 5, 6]))),
                    _ => b.extend(uvi(pick_extreme(rng))),
                }
                b.extend(small_bytes(rng, 6));
            }
            _ => b.extend(maddr(rng, None)),
        }
    }
    if rng.chance(12) {
        let n = rng.below(b.len() as u64 + 1) as usize;
        b.truncate(n);
    }
    b
}
fn bad_maddr(rng: &mut Rng) -> Vec<u8> {
    match rng.below(6) {
        0 => vec![],
        1 => vec![4, 1, 2, 3],
        2 => vec![6, 0],
        3 => {
            let mut b = uvi(421);
            b.extend(uvi(40));
            b.extend(rand_bytes(rng, 10));
            b
        }
        4 => {
            // /dns or /p2p with an extreme length
            let mut b = if rng.chance(50) { vec![53] } else { uvi(421) };
            b.extend(uvi(pick_extreme(rng)));
            b.extend(small_bytes(rng, 12));
            b
        }
        _ => {
            let n = rng.below(24) as usize;
            rand_bytes(rng, n)
        }
    }
}
fn addr_for(rng: &mut Rng, id: &[u8]) -> Vec<u8> {
    match rng.below(12) {
        0 => bad_maddr(rng),
        10 | 11 => maddr_any(rng),
        1 | 2 => maddr(rng, Some(id)),
        3 => {
            let other = peer_id(rng);
            maddr(rng, Some(&other))
        }
        _ => maddr(rng, None),
    }
}
fn small_bytes(rng: &mut Rng, max: u64) -> Vec<u8> {
    let n = rng.below(max + 1) as usize;
    rand_bytes(rng, n)
}
fn utf8_string(rng: &mut Rng) -> Vec<u8> {
    let pool: [&str; 8] = ["/ipfs/kad/1.0.0", "litep2p/1.0.0", "/x", "", "é", "日本", "/a/b\u{10FFFF}", "\u{7ff}\u{800}\u{ffff}\u{10000}"];
    pool[rng.below(pool.len() as u64) as usize].as_bytes().to_vec()
}
fn bad_utf8(rng: &mut Rng) -> Vec<u8> {
    let pool: [&[u8]; 10] = [
        &[0x80],
        &[0xc0, 0x80],
        &[0xc1, 0xbf],
        &[0xe0, 0x9f, 0x80],
        &[0xed, 0xa0, 0x80],
        &[0xf0, 0x8f, 0x80, 0x80],
        &[0xf4, 0x90, 0x80, 0x80],
        &[0xf5, 0x80, 0x80, 0x80],
        &[0xe2, 0x82],
        &[0x2f, 0xff],
    ];
    pool[rng.below(pool.len() as u64) as usize].to_vec()
}
fn string_val(rng: &mut Rng) -> Vec<u8> {
    if rng.chance(12) {
        bad_utf8(rng)
    } else {
        utf8_string(rng)
    }
}

// ---------------------------------------------------------------- schema trees

fn kad_peer_tree(rng: &mut Rng) -> Vec<Fld> {
    let id = if rng.chance(6) {
        // the node itself (never handed on) or the sender (a provider that announces itself)
        if rng.chance(50) { local_fixed() } else { remote_fixed() }
    } else if rng.chance(85) {
        peer_id(rng)
    } else {
        bad_peer_id(rng)
    };
    let mut v = vec![fb(1, &id)];
    for _ in 0..rng.below(4) {
        let a = addr_for(rng, &id);
        v.push(fb(2, &a));
    }
    if rng.chance(2) {
        // many addresses: the store cap of 64 and the reporting cap of 32
        for _ in 0..rng.pick(&[31u64, 32, 33, 63, 64, 65]) {
            let a = maddr(rng, None);
            v.push(fb(2, &a));
        }
    }
    let c = match rng.below(12) {
        0 => 4,
        1 => u64::MAX,
        2 => 1 << 32,
        x => x % 4,
    };
    if c != 0 || rng.chance(20) {
        v.push(fv(3, c));
    }
    v
}
fn kad_record_tree(rng: &mut Rng) -> Vec<Fld> {
    let mut v = Vec::new();
    if rng.chance(90) {
        v.push(fb(1, &small_bytes(rng, 12)));
    }
    if rng.chance(80) {
        v.push(fb(2, &small_bytes(rng, 40)));
    }
    if rng.chance(30) {
        v.push(fb(5, &string_val(rng)));
    }
    if rng.chance(50) {
        let p = if rng.chance(80) { peer_id(rng) } else { bad_peer_id(rng) };
        v.push(fb(666, &p));
    }
    if rng.chance(50) {
        let t = match rng.below(5) {
            0 => 0,
            1 => u32::MAX as u64,
            2 => (1 << 32) + 5,
            _ => rng.below(100000),
        };
        v.push(fv(777, t));
    }
    v
}
fn kad_tree(rng: &mut Rng) -> Vec<Fld> {
    let mut v = Vec::new();
    let t = match rng.below(14) {
        0 => 5,
        1 => 6,
        2 => u64::MAX,
        x => x % 5,
    };
    if t != 0 || rng.chance(20) {
        v.push(fv(1, t));
    }
    if rng.chance(80) {
        v.push(fb(2, &small_bytes(rng, 34)));
    }
    if rng.chance(50) {
        v.push(fm(3, kad_record_tree(rng)));
    }
    let n = if rng.chance(5) { rng.range(18, 30) } else { rng.below(5) };
    for _ in 0..n {
        v.push(fm(8, kad_peer_tree(rng)));
    }
    for _ in 0..rng.below(3) {
        v.push(fm(9, kad_peer_tree(rng)));
    }
    if rng.chance(80) {
        v.push(fv(10, 10));
    }
    v
}
fn key_tree(rng: &mut Rng) -> Vec<Fld> {
    let t = match rng.below(8) {
        0 => 0,
        1 => 2,
        2 => 4,
        3 => u64::MAX,
        _ => 1,
    };
    let data = match rng.below(8) {
        0 => rand_bytes(rng, 31),
        1 => rand_bytes(rng, 33),
        2 => vec![],
        3 => vec![0xff; 32], // not a curve point encoding
        _ => ed_key(rng),
    };
    vec![fv(1, t), fb(2, &data)]
}
/// a valid Ed25519 public key is needed only to reach the accepting path; the basepoint
/// multiples below are fixed valid encodings, random strings are valid about half of the time
pub fn ed_key(rng: &mut Rng) -> Vec<u8> {
    const KEYS: [[u8; 32]; 3] = [
        [
            0x58, 0x66, 0x66, 0x66, 0x66, 0x66, 0x66, 0x66, 0x66, 0x66, 0x66, 0x66, 0x66, 0x66, 0x66, 0x66, 0x66, 0x66, 0x66, 0x66, 0x66, 0x66,
            0x66, 0x66, 0x66, 0x66, 0x66, 0x66, 0x66, 0x66, 0x66, 0x66,
        ],
        [
            0xc9, 0xa3, 0xf8, 0x6a, 0xae, 0x46, 0x5f, 0x0e, 0x56, 0x51, 0x38, 0x64, 0x51, 0x0f, 0x39, 0x97, 0x56, 0x1f, 0xa2, 0xc9, 0xe8, 0x5e,
            0xa2, 0x1d, 0xc2, 0x29, 0x23, 0x09, 0xf3, 0xcd, 0x60, 0x22,
        ],
        [
            0xd4, 0xb4, 0xf5, 0x78, 0x48, 0x68, 0xc3, 0x02, 0x04, 0x03, 0x24, 0x67, 0x17, 0xec, 0x16, 0x9f, 0xf7, 0x9e, 0x26, 0x60, 0x8e, 0xa1,
            0x26, 0xa1, 0xab, 0x69, 0xee, 0x77, 0xd1, 0xb1, 0x67, 0x12,
        ],
    ];
    if rng.chance(60) {
        KEYS[rng.below(3) as usize].to_vec()
    } else {
        rand_bytes(rng, 32)
    }
}
fn noise_tree(rng: &mut Rng) -> Vec<Fld> {
    let mut v = Vec::new();
    if rng.chance(90) {
        let k = if rng.chance(80) { ser(&[fv(1, 1), fb(2, &ed_key(rng))]) } else { ser(&key_tree(rng)) };
        v.push(fb(1, &k));
    }
    if rng.chance(85) {
        v.push(fb(2, &rand_bytes(rng, 64)));
    }
    if rng.chance(40) {
        let mut e = Vec::new();
        for _ in 0..rng.below(3) {
            e.push(fb(1, &small_bytes(rng, 34)));
        }
        for _ in 0..rng.below(3) {
            e.push(fb(2, &string_val(rng)));
        }
        v.push(fm(4, e));
    }
    v
}
fn identify_tree(rng: &mut Rng, peer: &[u8], local: &[u8]) -> Vec<Fld> {
    let mut v = Vec::new();
    if rng.chance(80) {
        v.push(fb(1, &ser(&[fv(1, 1), fb(2, &ed_key(rng))])));
    }
    for _ in 0..rng.below(5) {
        let a = addr_for(rng, peer);
        v.push(fb(2, &a));
    }
    for _ in 0..rng.below(5) {
        v.push(fb(3, &string_val(rng)));
    }
    if rng.chance(70) {
        let a = addr_for(rng, local);
        v.push(fb(4, &a));
    }
    if rng.chance(80) {
        v.push(fb(5, &string_val(rng)));
    }
    if rng.chance(80) {
        v.push(fb(6, &string_val(rng)));
    }
    v
}
pub fn cid_bytes(rng: &mut Rng) -> Vec<u8> {
    match rng.below(6) {
        0 => {
            // CIDv0: bare sha2-256 multihash
            let mut b = vec![0x12, 0x20];
            b.extend(rand_bytes(rng, 32));
            b
        }
        1 => {
            if rng.chance(50) {
                small_bytes(rng, 10)
            } else {
                // CIDv1 whose multihash declares an extreme digest length
                let mut b = vec![1, 0x55, 0x12];
                b.extend(uvi(pick_extreme(rng)));
                b.extend(small_bytes(rng, 34));
                b
            }
        }
        2 => {
            let mut b = vec![1, 0x55, 0x12, 0x20];
            b.extend(rand_bytes(rng, 32));
            b.extend(small_bytes(rng, 3)); // trailing bytes
            b
        }
        3 => {
            let mut b = vec![2, 0x55, 0x12, 0x20];
            b.extend(rand_bytes(rng, 32));
            b
        }
        _ => {
            let mut b = vec![1, if rng.chance(50) { 0x55 } else { 0x70 }, 0x12, 0x20];
            b.extend(rand_bytes(rng, 32));
            b
        }
    }
}
fn prefix_bytes(rng: &mut Rng) -> Vec<u8> {
    let version = match rng.below(8) {
        0 => 2,
        1 => 0,
        _ => 1,
    };
    let codec = match rng.below(4) {
        0 => 0x70,
        1 => rng.next(),
        _ => 0x55,
    };
    // sha2-256, sha2-512, sha3-256, blake2b-256, blake2b-512, identity, unsupported
    let mh = [0x12u64, 0x13, 0x16, 0xb220, 0xb240, 0x00, 0x11, 0x1e][rng.below(8) as usize];
    let mh = if rng.chance(8) { rng.next() } else { mh };
    let len = match rng.below(8) {
        0 => 256,
        1 => 0,
        2 => rng.next(),
        _ => 32,
    };
    let mut b = Vec::new();
    for (i, x) in [version, codec, mh, len].into_iter().enumerate() {
        if rng.chance(4) {
            b.extend(uvi_padded(x, 10));
        } else if rng.chance(4) {
            b.extend(uvi_padded(x, uvi(x).len() + 1));
        } else {
            b.extend(uvi(x));
        }
        if i == 3 && rng.chance(6) {
            b.push(0);
        }
    }
    if rng.chance(6) {
        let n = rng.below(b.len() as u64 + 1) as usize;
        b.truncate(n);
    }
    b
}
fn bitswap_tree(rng: &mut Rng) -> Vec<Fld> {
    let mut v = Vec::new();
    if rng.chance(60) {
        let mut w = Vec::new();
        for _ in 0..rng.below(5) {
            let mut e = vec![fb(1, &cid_bytes(rng))];
            if rng.chance(60) {
                e.push(fv(2, if rng.chance(10) { u64::MAX } else { rng.below(5) }));
            }
            if rng.chance(30) {
                e.push(fv(3, rng.below(3)));
            }
            if rng.chance(60) {
                e.push(fv(4, rng.below(3)));
            }
            if rng.chance(30) {
                e.push(fv(5, rng.below(2)));
            }
            w.push(fm(1, e));
        }
        if rng.chance(30) {
            w.push(fv(2, 1));
        }
        v.push(fm(1, w));
    }
    for _ in 0..rng.below(2) {
        v.push(fb(2, &small_bytes(rng, 20)));
    }
    for _ in 0..rng.below(4) {
        v.push(fm(3, vec![fb(1, &prefix_bytes(rng)), fb(2, &small_bytes(rng, 60))]));
    }
    for _ in 0..rng.below(4) {
        v.push(fm(4, vec![fb(1, &cid_bytes(rng)), fv(2, rng.below(3))]));
    }
    if rng.chance(30) {
        v.push(fv(5, rng.below(1 << 20)));
    }
    v
}

// ---------------------------------------------------------------- tree and byte mutators

fn unknown_field(rng: &mut Rng) -> Fld {
    let num = match rng.below(6) {
        0 => (1 << 29) - 1,
        1 => 1 << 29, // key above u32::MAX
        2 => 0,
        3 => 15,
        _ => rng.range(11, 600),
    };
    let val = match rng.below(7) {
        0 => Val::Varint(rng.next()),
        1 => Val::F64([rng.below(256) as u8; 8]),
        2 => Val::F32([rng.below(256) as u8; 4]),
        3 => Val::Bytes(small_bytes(rng, 12)),
        4 => Val::Group(vec![fv(1, 1), f(2, Val::Group(vec![]))]),
        5 => Val::EndGroup,
        _ => Val::RawVarint(uvi_padded(rng.below(300), 10)),
    };
    f(num, val)
}
fn group_bomb(depth: u64, num: u64) -> Fld {
    let mut cur = f(num, Val::Group(vec![]));
    for _ in 1..depth {
        cur = f(num, Val::Group(vec![cur]));
    }
    cur
}
fn msg_bomb(depth: u64, num: u64) -> Fld {
    let mut cur = fm(num, vec![]);
    for _ in 1..depth {
        cur = fm(num, vec![cur]);
    }
    cur
}
fn mutate_tree(rng: &mut Rng, fs: &mut Vec<Fld>) {
    for _ in 0..rng.range(1, 3) {
        match rng.below(12) {
            0 if !fs.is_empty() => {
                let i = rng.below(fs.len() as u64) as usize;
                let x = fs[i].clone();
                fs.push(x); // duplicate (last wins / merge / append)
            }
            1 if fs.len() > 1 => {
                let i = rng.below(fs.len() as u64) as usize;
                let j = rng.below(fs.len() as u64) as usize;
                fs.swap(i, j);
            }
            2 if !fs.is_empty() => {
                let i = rng.below(fs.len() as u64) as usize;
                fs.remove(i);
            }
            3 if !fs.is_empty() => {
                let i = rng.below(fs.len() as u64) as usize;
                fs[i].wt = Some(rng.below(8) as u8);
            }
            4 => {
                let i = rng.below(fs.len() as u64 + 1) as usize;
                fs.insert(i, unknown_field(rng));
            }
            5 => {
                let d = rng.pick(&[1u64, 2, 50, 98, 99, 100, 101, 120, 400]);
                let i = rng.below(fs.len() as u64 + 1) as usize;
                fs.insert(i, group_bomb(d, rng.range(11, 40)));
            }
            6 => {
                let d = rng.pick(&[2u64, 50, 99, 100, 101, 300]);
                let num = rng.pick(&[1u64, 3, 8, 4, 20]);
                let i = rng.below(fs.len() as u64 + 1) as usize;
                fs.insert(i, msg_bomb(d, num));
            }
            7 if !fs.is_empty() => {
                // non-minimal / over-long varint value
                let i = rng.below(fs.len() as u64) as usize;
                if let Val::Varint(n) = fs[i].val {
                    let w = rng.pick(&[2usize, 5, 10, 11]);
                    fs[i].val = Val::RawVarint(uvi_padded(n, w));
                }
            }
            8 if !fs.is_empty() => {
                // descend
                let i = rng.below(fs.len() as u64) as usize;
                if let Val::Msg(m) = &mut fs[i].val {
                    mutate_tree(rng, m);
                }
            }
            9 if !fs.is_empty() => {
                let i = rng.below(fs.len() as u64) as usize;
                if let Val::Bytes(b) = &mut fs[i].val {
                    *b = mutate_bytes(rng, b.clone());
                }
            }
            10 if !fs.is_empty() => {
                let i = rng.below(fs.len() as u64) as usize;
                fs[i].num = rng.pick(&[1u64, 2, 3, 4, 5, 6, 8, 9, 10, 666, 777]);
            }
            _ => {}
        }
    }
}
pub fn mutate_bytes(rng: &mut Rng, mut b: Vec<u8>) -> Vec<u8> {
    for _ in 0..rng.range(1, 3) {
        match rng.below(8) {
            0 if !b.is_empty() => {
                let i = rng.below(b.len() as u64) as usize;
                b[i] ^= 1 << rng.below(8);
            }
            1 => {
                let i = rng.below(b.len() as u64 + 1) as usize;
                b.insert(i, rng.below(256) as u8);
            }
            2 if !b.is_empty() => {
                let i = rng.below(b.len() as u64) as usize;
                b.remove(i);
            }
            3 => {
                let n = rng.below(b.len() as u64 + 1) as usize;
                b.truncate(n);
            }
            4 if !b.is_empty() => {
                let i = rng.below(b.len() as u64) as usize;
                b[i] = rng.pick(&[0u8, 1, 0x7f, 0x80, 0xff, 0x0a, 0x2f]);
            }
            5 if !b.is_empty() => {
                // overwrite with an extreme varint
                let i = rng.below(b.len() as u64) as usize;
                let v = uvi(pick_extreme(rng));
                let end = (i + 1).min(b.len());
                b.splice(i..end, v);
            }
            6 if b.len() > 1 => {
                // splice a slice of itself somewhere else
                let i = rng.below(b.len() as u64) as usize;
                let j = rng.range(i as u64, b.len() as u64) as usize;
                let piece = b[i..j].to_vec();
                let k = rng.below(b.len() as u64 + 1) as usize;
                b.splice(k..k, piece);
            }
            _ => {}
        }
    }
    b
}
fn finish(rng: &mut Rng, mut tree: Vec<Fld>) -> Vec<u8> {
    match rng.below(10) {
        0..=3 => ser(&tree),
        4..=6 => {
            mutate_tree(rng, &mut tree);
            ser(&tree)
        }
        7 => {
            let n = count_len_nodes(&tree);
            if n == 0 {
                ser(&tree)
            } else {
                let i = rng.below(n as u64) as usize;
                let v = pick_extreme(rng);
                Ser { lie: Some((i, v)), count: 0 }.flds(&tree)
            }
        }
        _ => {
            if rng.chance(50) {
                mutate_tree(rng, &mut tree);
            }
            mutate_bytes(rng, ser(&tree))
        }
    }
}

// ---------------------------------------------------------------- proto-cases

fn c_kad(k: u64, b: &[u8]) -> Vec<u64> {
    let mut c = vec![1, k];
    el(&mut c, b);
    c
}
fn c1(kind: u64, b: &[u8]) -> Vec<u64> {
    let mut c = vec![kind];
    el(&mut c, b);
    c
}
fn c_frames(max: Option<u64>, s: &[u8]) -> Vec<u64> {
    let mut c = vec![3, max.map(|m| m + 1).unwrap_or(0)];
    el(&mut c, s);
    c
}
/// the peer id of the node the worker runs the identify loop as (fixed key, see tasks.rs)
fn local_fixed() -> Vec<u8> {
    super::tasks::local_peer().to_bytes()
}
/// the remote peer the worker's consumer stage attributes every substream to (see consume.rs)
fn remote_fixed() -> Vec<u8> {
    super::consume::remote_peer().to_bytes()
}
fn c_ident(peer: &[u8], local: &[u8], b: &[u8]) -> Vec<u64> {
    let mut c = vec![7];
    el(&mut c, peer);
    el(&mut c, local);
    el(&mut c, b);
    c
}

fn msm_seed(rng: &mut Rng) -> Vec<u8> {
    match rng.below(10) {
        0 => b"/multistream/1.0.0\n".to_vec(),
        1 => b"na\n".to_vec(),
        2 => b"ls\n".to_vec(),
        3 => b"/ipfs/kad/1.0.0\n".to_vec(),
        4 => {
            let mut b = b"/".to_vec();
            b.extend(small_bytes(rng, 20));
            b.push(b'\n');
            b
        }
        5 => {
            // ls response
            let mut b = Vec::new();
            for _ in 0..rng.below(5) {
                let mut name = b"/".to_vec();
                let m = if rng.chance(10) { 200 } else { 12 };
                name.extend(small_bytes(rng, m));
                if rng.chance(10) {
                    name.remove(0);
                }
                b.extend(uvi(name.len() as u64 + 1));
                b.extend(name);
                b.push(b'\n');
            }
            b.push(b'\n');
            b
        }
        6 => {
            // many protocols: around MAX_PROTOCOLS (rarely: the model's loop is quadratic)
            let n = if rng.chance(6) { rng.pick(&[999u64, 1000, 1001, 1500]) } else { rng.range(5, 40) };
            let mut b = Vec::new();
            for _ in 0..n {
                b.extend([3, b'/', b'a', b'\n']);
            }
            b.push(b'\n');
            b
        }
        7 => {
            // a name of 46 bytes makes the ls response start with '/' (0x2f = 47)
            let mut name = b"/".to_vec();
            name.extend(vec![b'x'; 45]);
            let mut b = uvi(47);
            b.extend(name);
            b.push(b'\n');
            b.push(b'\n');
            b
        }
        8 => {
            // ls response: one good entry, then an entry declaring an extreme length
            let mut b = vec![3, b'/', b'a', b'\n'];
            b.extend(uvi(pick_extreme(rng)));
            b.extend(b"/b\n\n");
            b
        }
        _ => small_bytes(rng, 30),
    }
}
fn frame_stream(rng: &mut Rng, max: u64) -> Vec<u8> {
    let mut s = Vec::new();
    for _ in 0..rng.below(5) {
        let n = match rng.below(8) {
            0 => 0,
            1 => max,
            2 => max + 1,
            3 => 127,
            4 => 128,
            _ => rng.below(max.min(300) + 1),
        };
        let declared = match rng.below(14) {
            0 => pick_extreme(rng),
            1 => n + 1,
            _ => n,
        };
        if rng.chance(5) {
            s.extend(uvi_padded(declared, rng.pick(&[2usize, 9, 10, 11])));
        } else {
            s.extend(uvi(declared));
        }
        // keep case lines short: at most ~20k bytes per stream (a frame declared longer is cut)
        let room = 20000usize.saturating_sub(s.len());
        s.extend(rand_bytes(rng, (n as usize).min(room)));
    }
    if rng.chance(25) {
        s = mutate_bytes(rng, s);
    }
    s
}

// ---------------------------------------------------------------- message-based multistream (WebRTC)

const WEB_NAMES: [&[u8]; 3] = [b"/a", b"/ipfs/kad/1.0.0", b"/b/1"];
const MS_HEADER: &[u8] = b"/multistream/1.0.0\n";

fn wmsg(body: &[u8]) -> Vec<u8> {
    let mut v = uvi(body.len() as u64);
    v.extend(body);
    v
}
/// a message whose length prefix is `declared` (written in `width` bytes when width > 0)
fn wmsg_lie(body: &[u8], declared: u64, width: usize) -> Vec<u8> {
    let mut v = if width == 0 { uvi(declared) } else { uvi_padded(declared, width) };
    v.extend(body);
    v
}
fn c_web_listen(hdr: bool, payload: &[u8]) -> Vec<u64> {
    let mut c = vec![12, hdr as u64, WEB_NAMES.len() as u64];
    for n in WEB_NAMES {
        el(&mut c, n);
    }
    el(&mut c, payload);
    c
}
fn c_web_dial(proto: &[u8], ops: &[Vec<u8>]) -> Vec<u64> {
    let mut c = vec![13];
    el(&mut c, proto);
    ell(&mut c, ops);
    c
}
fn web_body(rng: &mut Rng) -> Vec<u8> {
    match rng.below(8) {
        0 => MS_HEADER.to_vec(),
        1 => b"na\n".to_vec(),
        2 => b"ls\n".to_vec(),
        3 => b"/unknown/1\n".to_vec(),
        4 => small_bytes(rng, 12),
        5 => vec![],
        _ => {
            let mut b = WEB_NAMES[rng.below(3) as usize].to_vec();
            b.push(b'\n');
            b
        }
    }
}
fn web_payload(rng: &mut Rng) -> Vec<u8> {
    web_payload_h(rng).0
}
/// (payload, starts with a valid header message)
fn web_payload_h(rng: &mut Rng) -> (Vec<u8>, bool) {
    let mut p = Vec::new();
    let mut has_header = false;
    if rng.chance(60) {
        p.extend(wmsg(MS_HEADER));
        has_header = true;
    }
    for _ in 0..rng.below(3) {
        let body = web_body(rng);
        if rng.chance(15) {
            let w = rng.pick(&[0usize, 0, 9, 10, 11]);
            p.extend(wmsg_lie(&body, pick_extreme(rng), w));
        } else if rng.chance(10) {
            p.extend(wmsg_lie(&body, body.len() as u64 + rng.range(1, 3), 0));
        } else {
            p.extend(wmsg(&body));
        }
    }
    if rng.chance(15) {
        p = mutate_bytes(rng, p);
    }
    (p, has_header)
}
fn web_systematic(out: &mut Vec<Vec<u64>>) {
    let proto = b"/ipfs/kad/1.0.0\n";
    let mut extremes = all_extremes();
    extremes.extend([proto.len() as u64 + 1, proto.len() as u64 - 1, 16383, 16384]);
    for v in extremes {
        for w in [0usize, 10] {
            for keep_body in [true, false] {
                let body: &[u8] = if keep_body { proto } else { b"" };
                // the lie in the first message, and in the second one after a valid header
                let first = wmsg_lie(body, v, w);
                let mut second = wmsg(MS_HEADER);
                second.extend(wmsg_lie(body, v, w));
                for hdr in [false, true] {
                    out.push(c_web_listen(hdr, &first));
                    out.push(c_web_listen(hdr, &second));
                }
                out.push(c_web_dial(b"/ipfs/kad/1.0.0", &[first.clone()]));
                out.push(c_web_dial(b"/ipfs/kad/1.0.0", &[second.clone()]));
                out.push(c_web_dial(b"/ipfs/kad/1.0.0", &[wmsg(MS_HEADER), first.clone()]));
            }
        }
    }
    // every truncation of header + proposal, of a lone proposal and of header + na
    let mut full = wmsg(MS_HEADER);
    full.extend(wmsg(proto));
    let mut na = wmsg(MS_HEADER);
    na.extend(wmsg(b"na\n"));
    for i in 0..=full.len() {
        out.push(c_web_listen(false, &full[..i]));
        out.push(c_web_dial(b"/ipfs/kad/1.0.0", &[full[..i].to_vec()]));
    }
    let lone = wmsg(proto);
    for i in 0..=lone.len() {
        out.push(c_web_listen(true, &lone[..i]));
    }
    for i in 0..=na.len() {
        out.push(c_web_dial(b"/ipfs/kad/1.0.0", &[na[..i].to_vec()]));
    }
}

// ---------------------------------------------------------------- Noise transport frames (C02's case format)

const NOISE_MSG: u64 = 65536; // MAX_NOISE_MSG_LEN: the read-ahead window is factor * this
const NOISE_MFL: u64 = 65519; // MAX_FRAME_LEN (plaintext per frame)
const NOISE_BIG: u64 = 1_000_000;

/// `14 F WB <writer ops> <writer script> tamper(4) <reads> <reader script>`: every write is
/// flushed, so the wire is one frame (2-byte header, payload + 16-byte tag) per write.
fn c_noise(f: u64, lens: &[u64], tamper: [u64; 4], read_buf: u64, rsc: &[u64]) -> Vec<u64> {
    let mut c = vec![14, f, 2, 2 * lens.len() as u64];
    for l in lens {
        c.extend([0, *l, 1]);
    }
    c.push(0);
    c.extend(tamper);
    c.extend([1, read_buf, 60]);
    c.push(rsc.len() as u64);
    c.extend(rsc);
    c
}
/// frame payload lengths such that the header of frame `k` (the returned index) starts exactly
/// `d` bytes before the end of the read-ahead window of `f` messages; it is followed by a tail frame
fn noise_layout(f: u64, d: u64, small: u64, tail: u64) -> (Vec<u64>, u64) {
    let w = f * NOISE_MSG;
    let mut lens = Vec::new();
    let mut left = w - d; // wire bytes before the header in question
    while left > 2 * (NOISE_MFL + 18) {
        lens.push(NOISE_MFL);
        left -= NOISE_MFL + 18;
    }
    // two frames for the rest, each at least 1 byte of payload
    let a = (left / 2).min(NOISE_MFL + 18).max(19);
    lens.push(a - 18);
    lens.push(left - a - 18);
    let k = lens.len() as u64;
    lens.push(small);
    lens.push(tail);
    (lens, k)
}
fn noise_tampers(k: u64, small: u64) -> Vec<[u64; 4]> {
    vec![
        [0, 0, 0, 0],
        [1, k, 0, 0xff],                // high header byte: announces >= 65280 bytes
        [1, k, 0, 0x80],
        [1, k, 1, (small + 16) & 0xff], // low header byte to 0: a zero-length frame when small < 240
        [1, k, 1, 0xff ^ ((small + 16) & 0xff)],
        [1, k, 2, 1],                   // garbage ciphertext
        [1, k - 1, 0, 0xff],            // the frame before it
        [2, k, 0, 0],
        [3, k, 0, 0],
        [4, k - 1, 0, 0],
    ]
}
fn noise_systematic(out: &mut Vec<Vec<u64>>, thorough: bool) {
    let rsc = vec![NOISE_BIG; 40];
    for f in [1u64, 2] {
        for d in (0..=18u64).chain([19, 64, 300]) {
            for small in [239u64, 1] {
                if small == 1 && !(thorough || d % 3 == 0) {
                    continue;
                }
                let (lens, k) = noise_layout(f, d, small, 500);
                for t in noise_tampers(k, small) {
                    out.push(c_noise(f, &lens, t, 70_000, &rsc));
                }
                // the wire cut inside / right after the header
                for cut in [0u64, 1, 2, 3] {
                    let at = f * NOISE_MSG - d + cut;
                    out.push(c_noise(f, &lens, [5, at, 0, 0], 70_000, &rsc));
                }
            }
        }
    }
}
fn noise_random(rng: &mut Rng) -> Vec<u64> {
    let f = rng.pick(&[1u64, 1, 2, 3]);
    let d = if rng.chance(70) { rng.below(20) } else { rng.below(70_000).min(f * NOISE_MSG - 100) };
    let small = rng.pick(&[1u64, 16, 17, 100, 239, 240, 1000, NOISE_MFL]);
    let tail = rng.pick(&[1u64, 500, 30_000, NOISE_MFL]);
    let (lens, k) = noise_layout(f, d, small, tail);
    let ts = noise_tampers(k, small);
    let mut t = ts[rng.below(ts.len() as u64) as usize];
    if rng.chance(25) {
        t = [1, rng.below(k + 2), rng.below(3), rng.range(1, 255)];
    }
    let rsc: Vec<u64> = if rng.chance(60) {
        vec![NOISE_BIG; 40]
    } else {
        (0..60).map(|_| rng.pick(&[1u64, 2, 17, 4096, NOISE_MSG - 1, NOISE_MSG, NOISE_MSG + 1, f * NOISE_MSG, NOISE_BIG])).collect()
    };
    c_noise(f, &lens, t, rng.pick(&[70_000u64, 65_519, 65_503, 16_384]), &rsc)
}

// ---------------------------------------------------------------- substream codecs (C04's case format)

fn rle_pairs(b: &[u8]) -> Vec<u64> {
    // count-prefixed list of (byte, run length)
    let mut runs: Vec<(u8, u64)> = Vec::new();
    for x in b {
        match runs.last_mut() {
            Some((y, k)) if y == x => *k += 1,
            _ => runs.push((*x, 1)),
        }
    }
    let mut v = vec![runs.len() as u64];
    for (y, k) in runs {
        v.extend([y as u64, k]);
    }
    v
}
/// `15 codec_tag codec_arg 0 (no writer ops) 0 (no write script) <raw wire> <read script> polls`
fn c_codec(tag: u64, arg: u64, wire: &[u8], rscript: &[u64], polls: u64) -> Vec<u64> {
    let mut c = vec![15, tag, arg, 0, 0];
    c.extend(rle_pairs(wire));
    c.extend(rscript);
    c.push(polls);
    c
}
/// read script: `n` events, delivering everything (chunks of `chunk`), then end of stream
fn read_script(rng: &mut Rng, chunk: u64, n: u64) -> Vec<u64> {
    let mut ev: Vec<u64> = Vec::new();
    let mut count = 0u64;
    for _ in 0..n {
        if rng.chance(8) {
            ev.push(0);
        } else {
            ev.extend([1, chunk]);
        }
        count += 1;
    }
    ev.push(if rng.chance(85) { 2 } else { 3 });
    count += 1;
    let mut v = vec![count];
    v.extend(ev);
    v
}
fn codec_random(rng: &mut Rng) -> Vec<u64> {
    match rng.below(3) {
        0 => {
            // Identity(n): any bytes, cut anywhere; n around the initial buffer size
            let n = rng.pick(&[0u64, 1, 5, 1023, 1024, 1025, 2048, 4000]);
            let len = rng.pick(&[0u64, 1, n, n + 1, 2 * n, 2 * n + 3, n.saturating_sub(1)]).min(9000);
            let wire = rand_bytes(rng, len as usize);
            let chunk = rng.pick(&[1u64, 7, 1024, 100_000]);
            let rs = read_script(rng, chunk, len / chunk + 3);
            c_codec(0, n, &wire, &rs, rng.range(2, 14))
        }
        1 => {
            // UnsignedVarint(Some(max)): adversarial length prefixes, polled again after the error
            let max = rng.pick(&[0u64, 1, 64, 1024, 70 * 1024]);
            let wire = frame_stream(rng, max);
            let wire = &wire[..wire.len().min(6000)];
            let chunk = rng.pick(&[1u64, 3, 1024, 100_000]);
            let rs = read_script(rng, chunk, (wire.len() as u64) / chunk + 3);
            c_codec(2, max, wire, &rs, rng.range(2, 16))
        }
        _ => {
            // UnsignedVarint(None): only short declared lengths are run for real
            let mut wire = Vec::new();
            for _ in 0..rng.below(4) {
                let n = rng.pick(&[0u64, 1, 127, 128, 300]);
                wire.extend(uvi(n));
                let k = if rng.chance(80) { n } else { n / 2 };
                wire.extend(rand_bytes(rng, k as usize));
            }
            if rng.chance(30) {
                wire.extend(uvi_padded(5, rng.pick(&[2usize, 10, 11])));
            }
            let rs = read_script(rng, 100_000, 4);
            c_codec(1, 0, &wire, &rs, rng.range(2, 10))
        }
    }
}
fn codec_systematic(out: &mut Vec<Vec<u64>>) {
    let mut rng = Rng::derive(0xC04);
    // every extreme length under two limits, delivered whole, polled 6 times (re-polling after the error)
    for max in [64u64, 70 * 1024] {
        for v in all_extremes().into_iter().chain([max - 1, max, max + 1]) {
            for w in [0usize, 10, 11] {
                let mut wire = if w == 0 { uvi(v) } else { uvi_padded(v, w) };
                wire.extend([7u8; 40]);
                let rs = read_script(&mut rng, 100_000, 3);
                out.push(c_codec(2, max, &wire, &rs, 6));
            }
        }
    }
    // Identity(n) for sizes around the initial buffer, every cut of 2n+1 bytes for small n
    for n in [0u64, 1, 3, 1023, 1024, 1025, 5000] {
        let full = rand_bytes(&mut rng, (2 * n + 1).min(10_001) as usize);
        let cuts: Vec<usize> = if n <= 3 { (0..=full.len()).collect() } else { vec![0, 1, n as usize - 1, n as usize, n as usize + 1, full.len()] };
        for cut in cuts {
            for chunk in [1u64, 100_000] {
                if chunk == 1 && n > 1025 {
                    continue;
                }
                let k = (cut as u64) / chunk + 2;
                let mut rs = vec![k + 1];
                for _ in 0..k {
                    rs.extend([1, chunk]);
                }
                rs.push(2);
                out.push(c_codec(0, n, &full[..cut], &rs, 5));
            }
        }
    }
}

// ---------------------------------------------------------------- stream-based multistream futures (C03's mode 3)

/// `16 3 side lazy <pool> <names> <read script> <input> <payload>`: one real listener (side 0) or
/// dialer (side 1) future against the scripted bytes, closed at the end
fn c_select(side: u64, lazy: u64, input: &[u8], rscript: &[u64]) -> Vec<u64> {
    let mut c = vec![16, 3, side, lazy, WEB_NAMES.len() as u64];
    for n in WEB_NAMES {
        c.push(n.len() as u64);
        for b in n.iter() {
            c.extend([1, *b as u64]);
        }
    }
    c.extend([2, 1, 0]); // names: pool entries 1 and 0
    c.push(rscript.len() as u64);
    c.extend(rscript);
    el(&mut c, input);
    el(&mut c, b"hi");
    c
}
fn select_random(rng: &mut Rng) -> Vec<u64> {
    let side = rng.below(2);
    let mut input = Vec::new();
    if rng.chance(75) {
        input.extend(wmsg(MS_HEADER));
    }
    for _ in 0..rng.below(4) {
        let body = web_body(rng);
        if rng.chance(15) {
            let w = rng.pick(&[0usize, 0, 2, 3, 10]);
            input.extend(wmsg_lie(&body, pick_extreme(rng), w));
        } else if rng.chance(10) {
            input.extend(wmsg_lie(&body, rng.pick(&[16383u64, 16384, 128, 0]), 0));
        } else {
            input.extend(wmsg(&body));
        }
    }
    if rng.chance(20) {
        input = mutate_bytes(rng, input);
    }
    let rs: Vec<u64> = (0..rng.below(12)).map(|_| rng.pick(&[0u64, 1, 1, 2, 5, 100])).collect();
    c_select(side, if side == 1 { rng.below(2) } else { 0 }, &input, &rs)
}
fn select_systematic(out: &mut Vec<Vec<u64>>) {
    let proto = b"/ipfs/kad/1.0.0\n";
    let mut full = wmsg(MS_HEADER);
    full.extend(wmsg(proto));
    for side in [0u64, 1] {
        for i in 0..=full.len() {
            out.push(c_select(side, 0, &full[..i], &[]));
        }
        let mut ext = all_extremes();
        ext.extend([16383, 16384, 16385]);
        for v in ext {
            for w in [0usize, 2, 3, 10] {
                let mut second = wmsg(MS_HEADER);
                second.extend(wmsg_lie(proto, v, w));
                out.push(c_select(side, 0, &wmsg_lie(proto, v, w), &[]));
                out.push(c_select(side, 0, &second, &[]));
            }
        }
    }
}

// ---------------------------------------------------------------- yamux frames, WebRTC codec, TLS certificates

fn yamux_frame(version: u8, ty: u8, flags: u16, stream: u32, len: u32, body: &[u8]) -> Vec<u8> {
    let mut v = vec![version, ty];
    v.extend(flags.to_be_bytes());
    v.extend(stream.to_be_bytes());
    v.extend(len.to_be_bytes());
    v.extend(body);
    v
}
fn yamux_stream(rng: &mut Rng) -> Vec<u8> {
    let mut s = Vec::new();
    for _ in 0..rng.range(1, 6) {
        let ty = if rng.chance(8) { rng.below(256) as u8 } else { rng.below(4) as u8 };
        let version = if rng.chance(5) { rng.below(256) as u8 } else { 0 };
        let flags = if rng.chance(10) { rng.below(65536) as u16 } else { rng.pick(&[0u16, 1, 2, 4, 8, 3]) };
        let stream = rng.pick(&[0u32, 1, 2, 3, 5, u32::MAX]);
        let n = rng.below(40);
        let len = match rng.below(10) {
            0 => rng.pick(&[0u32, 1, 256 * 1024, 256 * 1024 + 1, 1 << 20, (1 << 20) + 1, 1 << 24, u32::MAX - 1, u32::MAX]),
            1 => n as u32 + 1,
            _ => n as u32,
        };
        let body = if ty == 0 { rand_bytes(rng, n as usize) } else { vec![] };
        s.extend(yamux_frame(version, ty, flags, stream, len, &body));
    }
    if rng.chance(20) {
        s = mutate_bytes(rng, s);
    }
    s
}
fn webrtc_wire(rng: &mut Rng) -> Vec<u8> {
    let mut t = Vec::new();
    if rng.chance(70) {
        t.push(fv(1, if rng.chance(15) { rng.pick(&[4u64, 5, u64::MAX, 1 << 31]) } else { rng.below(4) }));
    }
    if rng.chance(70) {
        t.push(fb(2, &small_bytes(rng, 60)));
    }
    let body = finish(rng, t);
    let mut w = match rng.below(8) {
        0 => wmsg_lie(&body, pick_extreme(rng), rng.pick(&[0usize, 10])),
        1 => wmsg_lie(&body, rng.pick(&[16383u64, 16384, 16385, body.len() as u64 + 1]), 0),
        _ => wmsg(&body),
    };
    if rng.chance(30) {
        w.extend(small_bytes(rng, 8));
    }
    if rng.chance(10) {
        let n = rng.below(w.len() as u64 + 1) as usize;
        w.truncate(n);
    }
    w
}
/// DER-aware damage: a length octet replaced by short / long-form extremes, truncation, flips
fn tls_mutant(rng: &mut Rng, der: &[u8]) -> Vec<u8> {
    let mut b = der.to_vec();
    match rng.below(6) {
        0 => {
            let n = rng.below(b.len() as u64 + 1) as usize;
            b.truncate(n);
        }
        1 | 2 => {
            // find a constructed / string tag and rewrite the length that follows it
            let i = rng.below(b.len() as u64 - 2) as usize;
            let j = (i..b.len() - 1).find(|k| matches!(b[*k], 0x30 | 0x31 | 0x04 | 0x03 | 0x06 | 0xa0 | 0xa3)).unwrap_or(i);
            let lie: Vec<u8> = match rng.below(7) {
                0 => vec![0],
                1 => vec![0x7f],
                2 => vec![0x80],
                3 => vec![0x81, 0xff],
                4 => vec![0x84, 0xff, 0xff, 0xff, 0xff],
                5 => vec![0x88, 0xff, 0xff, 0xff, 0xff, 0xff, 0xff, 0xff, 0xff],
                _ => vec![0xff],
            };
            b.splice(j + 1..j + 2, lie);
        }
        3 => return mutate_bytes(rng, b),
        4 => {
            let i = rng.below(b.len() as u64) as usize;
            b[i] ^= 1 << rng.below(8);
        }
        _ => {}
    }
    b
}
pub fn feature_systematic(tls_seed: Option<&[u8]>) -> Vec<Vec<u64>> {
    let mut out = Vec::new();
    let mut rng = Rng::derive(0x7151);
    if let Some(der) = tls_seed {
        out.push(c1(18, der));
        for i in (0..=der.len()).step_by(3) {
            out.push(c1(18, &der[..i]));
        }
        for _ in 0..400 {
            out.push(c1(18, &tls_mutant(&mut rng, der)));
        }
    }
    // WebRTC framing: every extreme length, every truncation of a full message
    let body = ser(&[fv(1, 2), fb(2, b"hello")]);
    for v in all_extremes().into_iter().chain([16383, 16384, 16385]) {
        for w in [0usize, 10] {
            out.push(c1(19, &wmsg_lie(&body, v, w)));
        }
    }
    let full = wmsg(&body);
    for i in 0..=full.len() {
        out.push(c1(19, &full[..i]));
    }
    // WebRTC Noise reply: every declared length against every amount of data
    for l in [0u64, 1, 31, 32, 79, 80, 81, 96, 200, 65535] {
        for have in [0usize, 1, 31, 32, 80, 96, 200, 300] {
            let mut b = (l as u16).to_be_bytes().to_vec();
            b.extend(vec![0xa5u8; have]);
            out.push(c1(25, &b));
        }
    }
    for b in [vec![], vec![0u8], vec![0xff]] {
        out.push(c1(25, &b));
    }
    out
}
pub fn feature_random(rng: &mut Rng, tls_seed: Option<&[u8]>) -> Vec<u64> {
    match tls_seed {
        Some(der) if rng.chance(50) => c1(18, &tls_mutant(rng, der)),
        _ if rng.chance(15) => {
            let mut b = (rng.pick(&[0u64, 32, 80, 96, 300, 65535]) as u16).to_be_bytes().to_vec();
            let n = rng.below(400) as usize;
            b.extend(rand_bytes(rng, n));
            c1(25, &b)
        }
        _ => c1(19, &webrtc_wire(rng)),
    }
}

fn rt_kad_peer(rng: &mut Rng, c: &mut Vec<u64>, max_addrs: u64, conn: Option<u64>) {
    let id = peer_id(rng);
    el(c, &id);
    let n = rng.below(max_addrs + 1);
    let mut addrs: Vec<Vec<u8>> = Vec::new();
    while (addrs.len() as u64) < n {
        let a = if rng.chance(40) { maddr(rng, Some(&id)) } else { maddr(rng, None) };
        if !addrs.contains(&a) {
            addrs.push(a);
        }
    }
    ell(c, &addrs);
    c.push(conn.unwrap_or_else(|| rng.below(4)));
}
fn rt_record(rng: &mut Rng, c: &mut Vec<u64>) {
    el(c, &small_bytes(rng, 20));
    el(c, &small_bytes(rng, 50));
    if rng.chance(50) {
        c.push(1);
        el(c, &peer_id(rng));
    } else {
        c.push(0);
    }
    c.push(0); // ttl: re-based on `now` by the encoder, so only "no expiry" is bit-exact
}
fn rt_case(rng: &mut Rng) -> Vec<u64> {
    let mut c = vec![20];
    let key = small_bytes(rng, 34);
    let npeers = if rng.chance(10) { rng.range(20, 25) } else { rng.below(4) };
    let maxa = if rng.chance(20) { 3 } else { 1 };
    match rng.below(17) {
        0 => {
            c.push(1);
            el(&mut c, &key)
        }
        1 => {
            c.push(2);
            rt_record(rng, &mut c)
        }
        2 => {
            c.push(3);
            el(&mut c, &key)
        }
        3 => {
            c.push(4);
            el(&mut c, &key);
            c.push(npeers);
            for _ in 0..npeers {
                rt_kad_peer(rng, &mut c, maxa, None);
            }
        }
        4 => {
            c.push(5);
            el(&mut c, &key);
            el(&mut c, &small_bytes(rng, 40))
        }
        5 => {
            c.push(6);
            el(&mut c, &key);
            c.push(npeers);
            for _ in 0..npeers {
                rt_kad_peer(rng, &mut c, maxa, None);
            }
            if rng.chance(50) {
                c.push(1);
                rt_record(rng, &mut c)
            } else {
                c.push(0)
            }
        }
        6 => {
            c.push(7);
            let mut k = key.clone();
            if k.is_empty() {
                k.push(1);
            }
            el(&mut c, &k);
            rt_kad_peer(rng, &mut c, maxa, Some(2))
        }
        7 => {
            c.push(8);
            el(&mut c, &key)
        }
        8 => {
            c.push(9);
            let np = rng.below(3);
            c.push(np);
            for _ in 0..np {
                rt_kad_peer(rng, &mut c, maxa, Some(0));
            }
            c.push(npeers);
            for _ in 0..npeers {
                rt_kad_peer(rng, &mut c, maxa, None);
            }
        }
        9 => {
            c.push(20);
            let name = |rng: &mut Rng| {
                let mut n = b"/".to_vec();
                let l = rng.pick(&[0u64, 3, 10, 45, 46, 126, 127, 200]);
                n.extend((0..l).map(|_| b'a' + rng.below(26) as u8));
                n
            };
            match rng.below(6) {
                0 => c.push(1),
                1 => {
                    c.push(2);
                    el(&mut c, &name(rng))
                }
                2 => c.push(3),
                3 | 4 => {
                    c.push(4);
                    let n = if rng.chance(2) { rng.pick(&[999u64, 1000]) } else { rng.below(6) };
                    c.push(n);
                    for _ in 0..n {
                        el(&mut c, &name(rng));
                    }
                }
                _ => c.push(5),
            }
        }
        10 => {
            c.push(21);
            const K: [u8; 32] = [
                0x58, 0x66, 0x66, 0x66, 0x66, 0x66, 0x66, 0x66, 0x66, 0x66, 0x66, 0x66, 0x66, 0x66, 0x66, 0x66, 0x66, 0x66, 0x66, 0x66, 0x66,
                0x66, 0x66, 0x66, 0x66, 0x66, 0x66, 0x66, 0x66, 0x66, 0x66, 0x66,
            ];
            el(&mut c, &K)
        }
        11 | 12 => {
            c.push(22);
            let o = |rng: &mut Rng, b: Vec<u8>| if rng.chance(75) { Some(b) } else { None };
            let pv = utf8_string(rng);
            eo(&mut c, &o(rng, pv));
            let av = utf8_string(rng);
            eo(&mut c, &o(rng, av));
            let pk = small_bytes(rng, 40);
            eo(&mut c, &o(rng, pk));
            let la: Vec<Vec<u8>> = (0..rng.below(4)).map(|_| small_bytes(rng, 30)).collect();
            ell(&mut c, &la);
            let oa = small_bytes(rng, 30);
            eo(&mut c, &o(rng, oa));
            let ps: Vec<Vec<u8>> = (0..rng.below(4)).map(|_| utf8_string(rng)).collect();
            ell(&mut c, &ps);
        }
        13 | 14 => {
            c.push(23);
            if rng.chance(60) {
                c.push(1);
                let n = rng.below(4);
                c.push(n);
                for _ in 0..n {
                    el(&mut c, &cid_bytes(rng));
                    c.push(if rng.chance(10) { (1u64 << 32) - 1 } else { rng.below(3) });
                    c.push(rng.below(2));
                    c.push(rng.below(2));
                    c.push(rng.below(2));
                }
                c.push(rng.below(2));
            } else {
                c.push(0);
            }
            let blocks: Vec<Vec<u8>> = (0..rng.below(2)).map(|_| small_bytes(rng, 10)).collect();
            ell(&mut c, &blocks);
            let n = rng.below(3);
            c.push(n);
            for _ in 0..n {
                el(&mut c, &prefix_bytes(rng));
                el(&mut c, &small_bytes(rng, 40));
            }
            let n = rng.below(3);
            c.push(n);
            for _ in 0..n {
                el(&mut c, &cid_bytes(rng));
                c.push(rng.below(2));
            }
            c.push(if rng.chance(20) { (1u64 << 31) + 7 } else { rng.below(1000) });
        }
        15 => {
            c.push(24);
            let k = small_bytes(rng, 40);
            eo(&mut c, &if rng.chance(80) { Some(k) } else { None });
            let s = small_bytes(rng, 64);
            eo(&mut c, &if rng.chance(80) { Some(s) } else { None });
            if rng.chance(50) {
                c.push(1);
                let cs: Vec<Vec<u8>> = (0..rng.below(3)).map(|_| small_bytes(rng, 34)).collect();
                ell(&mut c, &cs);
                let ms: Vec<Vec<u8>> = (0..rng.below(3)).map(|_| utf8_string(rng)).collect();
                ell(&mut c, &ms);
            } else {
                c.push(0);
            }
        }
        _ => {
            if rng.chance(50) {
                c.push(25);
                c.push(rng.below(2));
                c.push(if rng.chance(30) { rng.next() >> 3 } else { 0x55 });
                c.push(if rng.chance(30) { rng.next() >> 3 } else { 0x12 });
                c.push(rng.below(256));
            } else {
                c.push(26);
                let max = rng.pick(&[16u64, 200, 4096]);
                c.push(max);
                let n = rng.below(5);
                c.push(n);
                for _ in 0..n {
                    let l = match rng.below(5) {
                        0 => 0,
                        1 => max,
                        _ => rng.below(max + 1),
                    };
                    el(&mut c, &rand_bytes(rng, l as usize));
                }
            }
        }
    }
    c
}

pub fn random_case(rng: &mut Rng) -> Vec<u64> {
    match rng.below(100) {
        0..=27 => {
            let k = rng.pick(&[20u64, 20, 20, 3, 1, 0]);
            let t = kad_tree(rng);
            c_kad(k, &finish(rng, t))
        }
        28..=31 => {
            if rng.chance(60) {
                let (p, has_header) = web_payload_h(rng);
                let hdr = if rng.chance(80) { !has_header } else { has_header };
                c_web_listen(hdr, &p)
            } else {
                let n = rng.range(1, 3);
                let ops: Vec<Vec<u8>> = (0..n).map(|_| web_payload(rng)).collect();
                c_web_dial(WEB_NAMES[rng.below(3) as usize], &ops)
            }
        }
        32..=39 => {
            let b = msm_seed(rng);
            let b = if rng.chance(40) { mutate_bytes(rng, b) } else { b };
            c1(2, &b)
        }
        40..=41 => noise_random(rng),
        42..=43 => codec_random(rng),
        44 => {
            if rng.chance(60) {
                select_random(rng)
            } else {
                // the consumer of a negotiated protocol name: ProtocolSet lookups (C03 modes 5 / 6)
                let mut c = vec![16];
                c.extend(super::ext::x03::gen_lookup(rng));
                c
            }
        }
        45 => c1(21, &yamux_stream(rng)),
        46..=49 => {
            let max = rng.pick(&[64u64, 1024, 70 * 1024]);
            let s = frame_stream(rng, max);
            // without a configured limit only short declared lengths are run for real
            if rng.chance(8) && s.len() < 9 {
                c_frames(None, &s[..s.len().min(1)])
            } else {
                c_frames(Some(max), &s)
            }
        }
        50..=52 => {
            let b = match rng.below(4) {
                0 => uvi(if rng.chance(50) { rng.next() } else { pick_extreme(rng) }),
                1 => uvi_padded(rng.below(1 << 20), rng.pick(&[2usize, 9, 10, 11, 12])),
                2 => vec![0x80; rng.below(13) as usize],
                _ => small_bytes(rng, 12),
            };
            c1(4, &b)
        }
        53..=57 => {
            let t = key_tree(rng);
            c1(5, &finish(rng, t))
        }
        58..=62 => {
            let t = noise_tree(rng);
            c1(6, &finish(rng, t))
        }
        63..=72 => {
            let peer = peer_id(rng);
            let local = local_fixed();
            let t = identify_tree(rng, &peer, &local);
            c_ident(&peer, &local, &finish(rng, t))
        }
        73..=82 => {
            let t = bitswap_tree(rng);
            c1(8, &finish(rng, t))
        }
        83..=84 => c1(9, &prefix_bytes(rng)),
        85 => {
            let b = cid_bytes(rng);
            let b = if rng.chance(40) { mutate_bytes(rng, b) } else { b };
            c1(17, &b)
        }
        86..=87 => {
            let b = if rng.chance(60) { peer_id(rng) } else { bad_peer_id(rng) };
            let b = if rng.chance(30) { mutate_bytes(rng, b) } else { b };
            c1(10, &b)
        }
        88..=90 => {
            let id = peer_id(rng);
            let b = if rng.chance(60) { maddr_any(rng) } else { addr_for(rng, &id) };
            let b = if rng.chance(30) { mutate_bytes(rng, b) } else { b };
            c1(11, &b)
        }
        91..=94 => gen_net::random(rng),
        _ => {
            if rng.chance(15) {
                gen_net::rt_random(rng)
            } else {
                rt_case(rng)
            }
        }
    }
}

/// Deterministic part: for fixed seeds of every kind, every truncation and every length-prefix
/// lie; depth bombs around the recursion limit; the frame-length extremes under two limits.
pub fn systematic(thorough: bool) -> Vec<Vec<u64>> {
    let mut out = Vec::new();
    let mut rng = Rng::derive(0xC19);
    gen_net::systematic(&mut out, thorough);
    noise_systematic(&mut out, thorough);
    codec_systematic(&mut out);
    select_systematic(&mut out);
    {
        let mut rng = Rng::derive(0x7a);
        for len in [0u32, 1, 256 * 1024, 256 * 1024 + 1, 1 << 20, (1 << 20) + 1, u32::MAX] {
            for ty in 0..4u8 {
                for flags in [0u16, 1, 2] {
                    out.push(c1(21, &yamux_frame(0, ty, flags, 1, len, &[1, 2, 3])));
                }
            }
        }
        let s = yamux_stream(&mut rng);
        for i in 0..=s.len().min(120) {
            out.push(c1(21, &s[..i]));
        }
    }
    let reps = if thorough { 4 } else { 1 };
    for _ in 0..reps {
        // Kademlia
        for _ in 0..3 {
            let t = kad_tree(&mut rng);
            let b = ser(&t);
            if b.len() <= 400 {
                for i in 0..=b.len() {
                    out.push(c_kad(20, &b[..i]));
                }
            }
            for l in len_lies(&t).into_iter().take(400) {
                out.push(c_kad(20, &l));
            }
        }
        for d in [1u64, 50, 98, 99, 100, 101, 102, 500] {
            out.push(c_kad(20, &ser(&[fv(1, 4), group_bomb(d, 15)])));
            out.push(c_kad(20, &ser(&[fv(1, 4), fm(8, vec![group_bomb(d, 15)])])));
            out.push(c_kad(20, &ser(&[fv(1, 4), msg_bomb(d, 8)])));
            out.push(c1(8, &ser(&[fm(1, vec![fm(1, vec![group_bomb(d, 7)])])])));
            out.push(c1(6, &ser(&[fm(4, vec![group_bomb(d, 9)])])));
        }
        // identify, bitswap, noise, keys
        let peer = peer_id(&mut rng);
        let local = local_fixed();
        for _ in 0..2 {
            let t = identify_tree(&mut rng, &peer, &local);
            let b = ser(&t);
            for i in 0..=b.len().min(500) {
                out.push(c_ident(&peer, &local, &b[..i]));
            }
            for l in len_lies(&t).into_iter().take(200) {
                out.push(c_ident(&peer, &local, &l));
            }
            let t = bitswap_tree(&mut rng);
            let b = ser(&t);
            for i in 0..=b.len().min(500) {
                out.push(c1(8, &b[..i]));
            }
            for l in len_lies(&t).into_iter().take(200) {
                out.push(c1(8, &l));
            }
            let t = noise_tree(&mut rng);
            let b = ser(&t);
            for i in 0..=b.len() {
                out.push(c1(6, &b[..i]));
            }
            for l in len_lies(&t) {
                out.push(c1(6, &l));
            }
        }
        let t = vec![fv(1, 1), fb(2, &ed_key(&mut rng))];
        let b = ser(&t);
        for i in 0..=b.len() {
            out.push(c1(5, &b[..i]));
        }
        for l in len_lies(&t) {
            out.push(c1(5, &l));
        }
        // multistream messages
        for _ in 0..6 {
            let b = msm_seed(&mut rng);
            if b.len() <= 300 {
                for i in 0..=b.len() {
                    out.push(c1(2, &b[..i]));
                }
            } else {
                out.push(c1(2, &b));
            }
        }
        for n in [999u64, 1000, 1001] {
            let mut b = Vec::new();
            for _ in 0..n {
                b.extend([3, b'/', b'a', b'\n']);
            }
            b.push(b'\n');
            out.push(c1(2, &b));
        }
        // frame lengths: every extreme under both limits, with and without data behind it
        for max in [64u64, 70 * 1024] {
            for v in all_extremes().into_iter().chain([max - 1, max, max + 1, 2, 16383, 16384]) {
                for w in [0usize, 9, 10, 11] {
                    let pre = if w == 0 { uvi(v) } else { uvi_padded(v, w) };
                    out.push(c_frames(Some(max), &pre));
                    let mut s = pre.clone();
                    s.extend(vec![7u8; 80]);
                    out.push(c_frames(Some(max), &s));
                    out.push(c1(4, &pre));
                }
            }
            let s = frame_stream(&mut rng, max);
            for i in 0..=s.len().min(300) {
                out.push(c_frames(Some(max), &s[..i]));
            }
        }
        for b in [vec![], vec![0u8], vec![5, 1, 2, 3, 4, 5], vec![3, 1]] {
            out.push(c_frames(None, &b));
        }
        web_systematic(&mut out);
        // round trip of an ls response for every length of the first name (the length prefix of
        // a 46-byte name is '/', which makes the encoding look like a single protocol name)
        for n in 1..=130usize {
            let mut name = vec![b'/'];
            name.extend(vec![b'a'; n - 1]);
            let mut c = vec![20, 20, 4, 2];
            el(&mut c, &name);
            el(&mut c, b"/b");
            out.push(c);
            let mut c = vec![20, 20, 4, 1];
            el(&mut c, &name);
            out.push(c);
        }
        // ls response with every extreme entry length
        for v in all_extremes() {
            let mut b = vec![3, b'/', b'a', b'\n'];
            b.extend(uvi(v));
            b.extend(b"/b\n\n");
            out.push(c1(2, &b));
        }
        // prefix parser / peer id: truncations
        let p = [uvi(1), uvi(0x55), uvi(0xb220), uvi(32)].concat();
        for i in 0..=p.len() {
            out.push(c1(9, &p[..i]));
        }
        let id = peer_id(&mut rng);
        for i in 0..=id.len() {
            out.push(c1(10, &id[..i]));
        }
        let a = maddr(&mut rng, Some(&id));
        for i in 0..=a.len() {
            out.push(c1(11, &a[..i]));
        }
        for _ in 0..3 {
            let c = cid_bytes(&mut rng);
            for i in 0..=c.len() {
                out.push(c1(17, &c[..i]));
            }
        }
    }
    consumer_systematic(&mut out);
    out
}

/// Inputs for the CONSUMER STAGE: values on both sides of every decoder's admission boundary, placed
/// wherever an event loop hands the decoded value on.
fn consumer_systematic(out: &mut Vec<Vec<u64>>) {
    let ip4: Vec<u8> = vec![4, 192, 0, 2, 1, 6, 0x76, 0x5d]; // /ip4/192.0.2.1/tcp/30301
    let with_p2p = |a: &[u8], id: &[u8]| {
        let mut b = a.to_vec();
        b.extend(uvi(421));
        b.extend(uvi(id.len() as u64));
        b.extend(id);
        b
    };
    let kpeer = |id: &[u8], addrs: &[Vec<u8>]| {
        let mut v = vec![fb(1, id)];
        for a in addrs {
            v.push(fb(2, a));
        }
        fm(8, v)
    };
    // ---- peer ids: every (code, digest length) shape
    for id in mh_family(&MH_CODES) {
        out.push(c1(10, &id));
        out.push(c1(11, &with_p2p(&ip4, &id)));
    }
    // over-long varints for code and length, a digest one longer / shorter than declared
    for id in [
        [vec![0x80, 0x00, 36], vec![1u8; 36]].concat(),
        [vec![0x00, 0xa4, 0x00], vec![1u8; 36]].concat(),
        [vec![0x00, 36], vec![1u8; 37]].concat(),
        [vec![0x00, 36], vec![1u8; 35]].concat(),
        [vec![0x92, 0x80, 0x00, 32], vec![1u8; 32]].concat(),
    ] {
        out.push(c1(10, &id));
        out.push(c1(11, &with_p2p(&ip4, &id)));
    }
    // ---- Kademlia: each shape as a peer of a FIND_NODE / GET_VALUE / GET_PROVIDERS reply (address
    // without and with /p2p), as the provider of ADD_PROVIDER, as the publisher of a record
    for id in mh_family(&[0x00, 0x12, 0x13]) {
        let addrs = vec![ip4.clone(), with_p2p(&[4, 192, 0, 2, 2, 6, 0x76, 0x5d], &id)];
        out.push(c_kad(20, &ser(&[fv(1, 4), fb(2, b"target"), kpeer(&id, &addrs), fv(10, 10)])));
        let rec = |publisher: &[u8]| fm(3, vec![fb(1, b"key"), fb(2, b"value"), fb(666, publisher), fv(777, 60)]);
        out.push(c_kad(20, &ser(&[fb(2, b"key"), rec(&id), fv(10, 10)])));
        out.push(c_kad(20, &ser(&[fv(1, 1), fb(2, b"key"), rec(&id), kpeer(&id, &addrs[..1]), fv(10, 10)])));
        out.push(c_kad(20, &ser(&[fv(1, 3), fb(2, b"key"), kpeer(&id, &addrs[..1]), fm(9, vec![fb(1, &id), fb(2, &ip4)]), fv(10, 10)])));
        out.push(c_kad(20, &ser(&[fv(1, 2), fb(2, b"key"), fm(9, vec![fb(1, &id), fb(2, &ip4)]), fv(10, 10)])));
    }
    // ---- Kademlia: the degenerate values a consumer may index, slice or divide by
    let local = local_fixed();
    let remote = remote_fixed();
    let sha = mh_shape(0x12, 32);
    let empty_dns = vec![53u8, 0, 6, 0, 1];
    let long_dns = [vec![53u8], uvi(300), vec![b'a'; 300], vec![6, 0, 1]].concat();
    let addr_sets: Vec<Vec<Vec<u8>>> = vec![
        vec![],
        vec![vec![]],
        vec![ip4.clone()],
        vec![ip4.clone(), ip4.clone()],
        vec![with_p2p(&ip4, &sha)],
        vec![with_p2p(&ip4, &remote)],
        vec![vec![4, 0, 0, 0, 0, 6, 0, 0]],
        vec![empty_dns.clone()],
        vec![long_dns.clone()],
        vec![[ip4.clone(), uvi(477)].concat()],
        vec![[with_p2p(&ip4, &sha), uvi(290)].concat()],
        vec![with_p2p(&[], &sha)],
        vec![vec![6, 0, 1]],
        vec![vec![4, 1, 2, 3]],
    ];
    for id in [&sha, &local, &remote] {
        for addrs in &addr_sets {
            for k in [1u64, 20] {
                out.push(c_kad(k, &ser(&[fv(1, 4), kpeer(id, addrs), fv(10, 10)])));
            }
            out.push(c_kad(20, &ser(&[fv(1, 2), fb(2, b"key"), fm(9, [vec![fb(1, id)], addrs.iter().map(|a| fb(2, a)).collect()].concat())])));
            out.push(c_kad(20, &ser(&[fv(1, 3), fm(8, [vec![fb(1, id)], addrs.iter().map(|a| fb(2, a)).collect()].concat())])));
        }
    }
    for addrs in &addr_sets {
        for a in addrs {
            out.push(c1(11, a));
        }
    }
    // records: empty key, empty value, key only in the record, record without key, ttl extremes
    for (key, rkey, value, ttl) in [
        (&b""[..], &b""[..], &b""[..], 0u64),
        (b"", b"k", b"v", 0),
        (b"k", b"", b"v", 1),
        (b"k", b"other", b"", u32::MAX as u64),
        (b"k", b"k", b"v", (1 << 32) + 1),
    ] {
        for ty in [0u64, 1] {
            let mut r = vec![];
            if !rkey.is_empty() {
                r.push(fb(1, rkey));
            }
            r.push(fb(2, value));
            if ttl != 0 {
                r.push(fv(777, ttl));
            }
            let mut m = vec![];
            if ty != 0 {
                m.push(fv(1, ty));
            }
            if !key.is_empty() {
                m.push(fb(2, key));
            }
            m.push(fm(3, r));
            out.push(c_kad(20, &ser(&m)));
        }
    }
    // message types with nothing else, every type with an empty and a 1-byte key
    for ty in 0..=6u64 {
        for key in [&b""[..], b"k", &[0u8; 32][..], &[0xffu8; 33][..]] {
            let mut m = vec![];
            if ty != 0 {
                m.push(fv(1, ty));
            }
            if !key.is_empty() {
                m.push(fb(2, key));
            }
            out.push(c_kad(20, &ser(&m)));
            out.push(c_kad(1, &ser(&m)));
        }
    }
    // more peers than the replication factor; the same peer many times
    for n in [1usize, 2, 19, 20, 21, 40] {
        let peers: Vec<Fld> = (0..n).map(|i| kpeer(&mh_shape(0x12, 32 + (i as u64 % 3)), &[ip4.clone()])).collect();
        for k in [1u64, 20] {
            out.push(c_kad(k, &ser(&[vec![fv(1, 4)], peers.clone()].concat())));
        }
        let same: Vec<Fld> = (0..n).map(|_| kpeer(&sha, &[ip4.clone()])).collect();
        out.push(c_kad(20, &ser(&[vec![fv(1, 4)], same].concat())));
    }
    // ---- identify: each valid shape as the identified peer, its address with and without /p2p
    let local = local_fixed();
    for code in [0x00u64, 0x12] {
        for n in 0..=64u64 {
            if !mh_is_peer_id(code, n) {
                continue;
            }
            let id = mh_shape(code, n);
            let t = vec![fb(2, &with_p2p(&ip4, &id)), fb(2, &ip4), fb(4, &with_p2p(&ip4, &local)), fb(3, b"/x/1")];
            out.push(c_ident(&id, &local, &ser(&t)));
        }
    }
    for addrs in &addr_sets {
        let mut t: Vec<Fld> = addrs.iter().map(|a| fb(2, a)).collect();
        if let Some(a) = addrs.first() {
            t.push(fb(4, a));
        }
        out.push(c_ident(&sha, &local, &ser(&t)));
    }
    // ---- keys: an Ed25519 key message in non-canonical encodings of every length around the
    // inlining boundary (the peer id is derived from the re-encoded key)
    let key = [0x3bu8, 0x6a, 0x27, 0xbc, 0xce, 0xb6, 0xa4, 0x2d, 0x62, 0xa3, 0xa8, 0xd0, 0x2a, 0x6f, 0x0d, 0x73, 0x65, 0x32, 0x15, 0x77, 0x1d, 0xe2, 0x43, 0xa6, 0x3a, 0xc0, 0x48, 0xa1, 0x8b, 0x59, 0xda, 0x29];
    for pad in 0..=10usize {
        let mut t = vec![fv(1, 1), fb(2, &key)];
        if pad > 0 {
            t.push(fb(15, &vec![0u8; pad - 1]));
        }
        let b = ser(&t);
        out.push(c1(5, &b));
        out.push(c1(6, &ser(&[fb(1, &b), fb(2, &[7u8; 64])])));
    }
}

#[path = "gen_net.rs"]
mod gen_net;
