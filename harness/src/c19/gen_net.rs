//! Generators for the transport-level kinds: 22 (Noise handshake), 23 (WebSocket adapter),
//! 24 (mDNS) and the round trips 20/27, 20/28.  Child module of gen.rs.
use super::*;
use crate::c19::net;

// ---------------------------------------------------------------- WebSocket frames

#[derive(Clone)]
pub struct WsFrame {
    pub fin: bool,
    pub rsv: u8,
    pub op: u8,
    pub mask: Option<[u8; 4]>,
    /// length field written instead of the true one: (value, width 0 = 7 bit / 2 / 8 bytes)
    pub lie: Option<(u64, u8)>,
    pub payload: Vec<u8>,
}
pub fn ws_bin(payload: &[u8], mask: Option<[u8; 4]>) -> WsFrame {
    WsFrame { fin: true, rsv: 0, op: 2, mask, lie: None, payload: payload.to_vec() }
}
pub fn ws_ser(f: &WsFrame) -> Vec<u8> {
    let mut b = vec![(if f.fin { 0x80 } else { 0 }) | (f.rsv << 4) | (f.op & 15)];
    let m = if f.mask.is_some() { 0x80u8 } else { 0 };
    let (n, w) = match f.lie {
        Some((v, w)) => (v, w),
        None => {
            let n = f.payload.len() as u64;
            (n, if n < 126 { 0 } else if n < 65536 { 2 } else { 8 })
        }
    };
    match w {
        0 => b.push(m | (n as u8 & 127)),
        2 => {
            b.push(m | 126);
            b.extend((n as u16).to_be_bytes())
        }
        _ => {
            b.push(m | 127);
            b.extend(n.to_be_bytes())
        }
    }
    match f.mask {
        Some(k) => {
            b.extend(k);
            b.extend(f.payload.iter().enumerate().map(|(i, x)| x ^ k[i % 4]));
        }
        None => b.extend(&f.payload),
    }
    b
}
fn c_ws(mode: u64, chunk: u64, cut: u64, s: &[u8]) -> Vec<u64> {
    let mut c = vec![23, mode, chunk, cut];
    el(&mut c, s);
    c
}
const MASK: [u8; 4] = [0x37, 0xfa, 0x21, 0x3d];
fn mask_for(mode: u64) -> Option<[u8; 4]> {
    // what the honest remote of this role does: clients mask, servers do not
    if mode == 2 || mode == 3 {
        None
    } else {
        Some(MASK)
    }
}
pub const WS_REQUEST: &[u8] = b"GET /p2p HTTP/1.1\r\nHost: 10.0.0.1:4001\r\nConnection: Upgrade\r\nUpgrade: websocket\r\nSec-WebSocket-Version: 13\r\nSec-WebSocket-Key: dGhlIHNhbXBsZSBub25jZQ==\r\n\r\n";

fn ws_len_extremes() -> Vec<u64> {
    let m = net::WS_MAX_FRAME;
    let mut v = vec![0, 1, 125, 126, 127, 128, 65535, 65536, m - 1, m, m + 1, 1 << 31, 1 << 32, 1 << 63, (1 << 63) - 1];
    for k in 0..16u64 {
        v.push(u64::MAX - k);
    }
    v
}

fn ws_systematic(out: &mut Vec<Vec<u64>>, thorough: bool) {
    for mode in [0u64, 2] {
        let good = mask_for(mode);
        let wrong = if mode == 2 { Some(MASK) } else { None };
        let pre = ws_ser(&ws_bin(b"pre", good));
        let post = ws_ser(&ws_bin(b"post", good));
        // every opcode x fin x masking, between two good frames
        for op in 0..16u8 {
            for fin in [true, false] {
                for mask in [good, wrong] {
                    let f = WsFrame { fin, rsv: 0, op, mask, lie: None, payload: b"xy".to_vec() };
                    out.push(c_ws(mode, 4096, 0, &[pre.clone(), ws_ser(&f), post.clone()].concat()));
                }
            }
        }
        for rsv in 1..8u8 {
            let f = WsFrame { fin: true, rsv, op: 2, mask: good, lie: None, payload: b"r".to_vec() };
            out.push(c_ws(mode, 4096, 0, &[pre.clone(), ws_ser(&f), post.clone()].concat()));
        }
        // every length extreme in every width, alone and with data behind it
        for v in ws_len_extremes() {
            for w in [0u8, 2, 8] {
                if (w == 0 && v > 125) || (w == 2 && v > 65535) {
                    continue;
                }
                let f = WsFrame { fin: true, rsv: 0, op: 2, mask: good, lie: Some((v, w)), payload: Vec::new() };
                let h = ws_ser(&f);
                out.push(c_ws(mode, 4096, 0, &[pre.clone(), h.clone()].concat()));
                let mut s = [pre.clone(), h].concat();
                s.extend(vec![7u8; 200]);
                out.push(c_ws(mode, 4096, 0, &s));
            }
        }
        // control frames: length 125 / 126, fragmented, close payloads
        for op in [8u8, 9, 10] {
            for n in [0usize, 1, 2, 125, 126] {
                let f = WsFrame { fin: true, rsv: 0, op, mask: good, lie: None, payload: vec![0x03; n] };
                out.push(c_ws(mode, 4096, 0, &[pre.clone(), ws_ser(&f), post.clone()].concat()));
            }
        }
        // fragmented messages
        let frag = |op: u8, fin: bool, p: &[u8]| ws_ser(&WsFrame { fin, rsv: 0, op, mask: good, lie: None, payload: p.to_vec() });
        let seqs: Vec<Vec<Vec<u8>>> = vec![
            vec![frag(2, false, b"ab"), frag(0, false, b"cd"), frag(0, true, b"ef"), post.clone()],
            vec![frag(2, false, b"ab"), frag(9, true, b""), frag(0, true, b"ef")],
            vec![frag(2, false, b"ab"), frag(2, true, b"cd")],
            vec![frag(0, true, b"ab"), post.clone()],
            vec![frag(1, false, b"ab"), frag(0, true, b"cd"), post.clone()],
            vec![frag(1, true, &[0xff, 0xfe]), post.clone()],
            vec![frag(2, false, b""), frag(0, true, b""), post.clone()],
            vec![frag(2, true, b""), frag(2, true, b""), post.clone()],
            vec![frag(2, false, b"ab"), frag(0, false, b"cd")],
        ];
        for s in seqs {
            let s = s.concat();
            for chunk in [1u64, 3, 4096] {
                out.push(c_ws(mode, chunk, 0, &s));
            }
        }
        // every truncation of a valid stream
        let s = [pre.clone(), frag(2, false, b"abc"), frag(0, true, b"defg"), ws_ser(&ws_bin(&vec![9u8; 300], good)), post.clone()].concat();
        let step = if thorough { 1 } else { 3 };
        for i in (0..=s.len()).step_by(step) {
            out.push(c_ws(mode, 64, 0, &s[..i]));
        }
    }
    // accept_async: the upgrade request and what follows it
    let frames = [ws_ser(&ws_bin(b"hello", Some(MASK))), ws_ser(&ws_bin(b"world", Some(MASK)))].concat();
    let req = WS_REQUEST.to_vec();
    let with = |r: &[u8]| -> Vec<u8> { [r, &frames[..]].concat() };
    out.push(c_ws(1, 4096, req.len() as u64, &with(&req)));
    out.push(c_ws(1, 4096, 0, &with(&req)));
    out.push(c_ws(1, 4096, (req.len() + frames.len()) as u64, &with(&req)));
    for cut in [1usize, 17, req.len() - 2, req.len() - 1, req.len() + 1] {
        out.push(c_ws(1, 4096, cut as u64, &with(&req)));
    }
    let step = if thorough { 1 } else { 5 };
    for i in (0..req.len()).step_by(step) {
        out.push(c_ws(1, 4096, i as u64, &req[..i]));
    }
    let lines: Vec<&[u8]> = req.split(|b| *b == b'\n').collect();
    // each header line removed / duplicated
    for i in 0..lines.len().saturating_sub(2) {
        let mut l = lines.clone();
        l.remove(i);
        let r = l.join(&b'\n');
        out.push(c_ws(1, 4096, r.len() as u64, &with(&r)));
        let mut l = lines.clone();
        l.insert(i, lines[i]);
        let r = l.join(&b'\n');
        out.push(c_ws(1, 4096, r.len() as u64, &with(&r)));
    }
    let variants: Vec<Vec<u8>> = vec![
        req.iter().copied().filter(|b| *b != b'\r').collect(),
        [b"\r\n\r\n".to_vec(), req.clone()].concat(),
        String::from_utf8_lossy(&req).replace("HTTP/1.1", "HTTP/1.0").into_bytes(),
        String::from_utf8_lossy(&req).replace("HTTP/1.1", "HTTP/2.0").into_bytes(),
        String::from_utf8_lossy(&req).replace("GET", "POST").into_bytes(),
        String::from_utf8_lossy(&req).replace("Version: 13", "Version: 12").into_bytes(),
        String::from_utf8_lossy(&req).replace("Upgrade: websocket", "upgrade: WebSocket").into_bytes(),
        String::from_utf8_lossy(&req).replace("Host: 10.0.0.1:4001\r\n", "").into_bytes(),
        String::from_utf8_lossy(&req).replace("Host:", "Host").into_bytes(),
        String::from_utf8_lossy(&req).replace("Host: ", "Host: \0").into_bytes(),
        String::from_utf8_lossy(&req).replace("Key: dGhlIHNhbXBsZSBub25jZQ==", "Key: x").into_bytes(),
        {
            // more headers than the parser's table holds
            let mut r = b"GET / HTTP/1.1\r\n".to_vec();
            for i in 0..200 {
                r.extend(format!("X-{i}: {i}\r\n").bytes());
            }
            r.extend(&req[req.iter().position(|b| *b == b'\n').unwrap() + 1..]);
            r
        },
        {
            let mut r = b"GET / HTTP/1.1\r\nX-Long: ".to_vec();
            r.extend(vec![b'a'; 20_000]);
            r.extend(b"\r\n");
            r.extend(&req[req.iter().position(|b| *b == b'\n').unwrap() + 1..]);
            r
        },
        {
            let mut r = b"GET /".to_vec();
            r.extend(vec![b'p'; 40_000]);
            r.extend(&req[8..]);
            r
        },
    ];
    for r in variants {
        out.push(c_ws(1, 4096, r.len() as u64, &with(&r)));
    }
    ws_client_systematic(out, thorough);
}

pub const WS_RESPONSE: &[u8] = b"HTTP/1.1 101 Switching Protocols\r\nConnection: Upgrade\r\nUpgrade: websocket\r\nSec-WebSocket-Accept: @@@@@@@@@@@@@@@@@@@@@@@@@@@@\r\n\r\n";

/// the dialer side: the remote's answer to the upgrade request, then its (unmasked) frames
fn ws_client_systematic(out: &mut Vec<Vec<u64>>, thorough: bool) {
    let frames = [ws_ser(&ws_bin(b"hello", None)), ws_ser(&ws_bin(b"world", None))].concat();
    let resp = WS_RESPONSE.to_vec();
    let with = |r: &[u8]| -> Vec<u8> { [r, &frames[..]].concat() };
    for cut in [0usize, 1, 17, resp.len() - 1, resp.len(), resp.len() + 1, resp.len() + frames.len()] {
        out.push(c_ws(3, 4096, cut as u64, &with(&resp)));
    }
    let step = if thorough { 1 } else { 5 };
    for i in (0..resp.len()).step_by(step) {
        out.push(c_ws(3, 4096, 0, &resp[..i]));
    }
    let lines: Vec<&[u8]> = resp.split(|b| *b == b'\n').collect();
    for i in 0..lines.len().saturating_sub(2) {
        let mut l = lines.clone();
        l.remove(i);
        out.push(c_ws(3, 4096, 0, &with(&l.join(&b'\n'))));
        let mut l = lines.clone();
        l.insert(i, lines[i]);
        out.push(c_ws(3, 4096, 0, &with(&l.join(&b'\n'))));
    }
    let text = String::from_utf8_lossy(&resp).to_string();
    let variants: Vec<Vec<u8>> = vec![
        resp.iter().copied().filter(|b| *b != b'\r').collect(),
        text.replace("101", "200").into_bytes(),
        text.replace("101", "1010").into_bytes(),
        text.replace("101", "").into_bytes(),
        text.replace("HTTP/1.1", "HTTP/1.0").into_bytes(),
        text.replace("HTTP/1.1", "HTTP/9.9").into_bytes(),
        text.replace("@@@@@@@@@@@@@@@@@@@@@@@@@@@@", "AAAAAAAAAAAAAAAAAAAAAAAAAAAA").into_bytes(),
        text.replace("@@@@@@@@@@@@@@@@@@@@@@@@@@@@", "").into_bytes(),
        text.replace("Upgrade: websocket", "Upgrade: h2c").into_bytes(),
        text.replace("Connection: Upgrade", "connection: upgrade").into_bytes(),
        text.replace("Upgrade: websocket\r\n", "Upgrade: websocket\r\nSec-WebSocket-Protocol: x\r\nSec-WebSocket-Extensions: permessage-deflate\r\n").into_bytes(),
        text.replace("Connection:", "Connection").into_bytes(),
        text.replace("Connection: ", "Connection: \0").into_bytes(),
        {
            let mut r = b"HTTP/1.1 101 Switching Protocols\r\n".to_vec();
            for i in 0..200 {
                r.extend(format!("X-{i}: {i}\r\n").bytes());
            }
            r.extend(&resp[resp.iter().position(|b| *b == b'\n').unwrap() + 1..]);
            r
        },
        {
            let mut r = b"HTTP/1.1 101 ".to_vec();
            r.extend(vec![b'S'; 20_000]);
            r.extend(&resp[32..]);
            r
        },
    ];
    for r in variants {
        out.push(c_ws(3, 4096, 0, &with(&r)));
    }
    // a server must not mask: masked frame after a good handshake; an oversized announcement
    let bad = [resp.clone(), ws_ser(&ws_bin(b"ok", None)), ws_ser(&ws_bin(b"masked", Some(MASK)))].concat();
    out.push(c_ws(3, 64, 0, &bad));
    for v in ws_len_extremes() {
        let f = WsFrame { fin: true, rsv: 0, op: 2, mask: None, lie: Some((v, 8)), payload: Vec::new() };
        out.push(c_ws(3, 4096, 0, &[resp.clone(), ws_ser(&f), vec![1u8; 50]].concat()));
    }
}

fn ws_random(rng: &mut Rng) -> Vec<u64> {
    let mode = rng.pick(&[0u64, 0, 2, 1, 3]);
    let good = mask_for(mode);
    let mut s = Vec::new();
    let mut big = false;
    for _ in 0..rng.range(1, 5) {
        let n = match rng.below(24) {
            0..=2 => 0,
            3..=5 => 125 + rng.below(3),
            6 if !big => {
                big = true;
                65534 + rng.below(4)
            }
            _ => rng.below(40),
        } as usize;
        let mut f = WsFrame {
            fin: !rng.chance(20),
            rsv: if rng.chance(5) { rng.below(8) as u8 } else { 0 },
            op: if rng.chance(70) {
                2
            } else {
                let any = rng.below(16) as u8;
                rng.pick(&[0u8, 0, 1, 8, 9, 10, any])
            },
            mask: if rng.chance(90) { good.map(|_| [rng.below(256) as u8, rng.below(256) as u8, rng.below(256) as u8, rng.below(256) as u8]) } else if good.is_some() { None } else { Some(MASK) },
            lie: None,
            payload: rand_bytes(rng, n),
        };
        if rng.chance(8) {
            f.lie = Some((if rng.chance(50) { rng.pick(&ws_len_extremes()) } else { rng.below(300) }, rng.pick(&[0u8, 2, 8])));
            if let Some((v, 0)) = f.lie {
                f.lie = Some((v % 126, 0));
            }
            if let Some((v, 2)) = f.lie {
                f.lie = Some((v % 65536, 2));
            }
        }
        s.extend(ws_ser(&f));
    }
    let s = if rng.chance(25) { mutate_bytes(rng, s) } else { s };
    let chunk = rng.pick(&[1u64, 2, 7, 4096, 65536]);
    if mode == 3 {
        let resp = if rng.chance(30) { mutate_bytes(rng, WS_RESPONSE.to_vec()) } else { WS_RESPONSE.to_vec() };
        let cut = if rng.chance(60) { 0 } else { rng.below(resp.len() as u64 + s.len() as u64 + 1) };
        c_ws(3, chunk, cut, &[resp, s].concat())
    } else if mode == 1 {
        let req = if rng.chance(25) { mutate_bytes(rng, WS_REQUEST.to_vec()) } else { WS_REQUEST.to_vec() };
        let cut = if rng.chance(85) { req.len() as u64 } else { rng.below(req.len() as u64 + s.len() as u64 + 1) };
        c_ws(1, chunk, cut, &[req, s].concat())
    } else {
        c_ws(mode, chunk, 0, &s)
    }
}

// ---------------------------------------------------------------- Noise handshake

fn c_noise_raw(role: u64, s: &[u8]) -> Vec<u64> {
    let mut c = vec![22, role, 0];
    el(&mut c, s);
    c
}
fn c_noise_active(role: u64, payload: &[u8], decl: u64) -> Vec<u64> {
    let mut c = vec![22, role, 1];
    el(&mut c, payload);
    c.push(decl);
    c
}
fn hs_msg(declared: u64, have: usize) -> Vec<u8> {
    let mut b = (declared as u16).to_be_bytes().to_vec();
    b.extend(vec![0x5au8; have]);
    b
}
/// an identity payload that verifies against the scripted remote's static key
fn valid_identity(rng: &mut Rng) -> Vec<Fld> {
    use litep2p::crypto::ed25519;
    let mut seed = [0u8; 32];
    for b in seed.iter_mut() {
        *b = rng.below(256) as u8;
    }
    let kp = ed25519::Keypair::from(ed25519::SecretKey::try_from_bytes(seed).unwrap());
    let sig = kp.sign(&net::remote_signed_message());
    vec![fb(1, &ser(&[fv(1, 1), fb(2, &kp.public().to_bytes())])), fb(2, &sig)]
}
fn noise_net_systematic(out: &mut Vec<Vec<u64>>, thorough: bool) {
    let lens = [0u64, 1, 31, 32, 33, 47, 48, 49, 63, 64, 79, 80, 81, 95, 96, 97, 255, 256, 65535];
    for role in [0u64, 1] {
        // nothing, one byte, header only
        for s in [vec![], vec![0u8], vec![0, 0], vec![0xff, 0xff], vec![0, 32]] {
            out.push(c_noise_raw(role, &s));
        }
        for l1 in lens {
            for have in [l1 as usize, (l1 as usize).saturating_sub(1), l1 as usize + 3] {
                let m1 = hs_msg(l1, have.min(70_000));
                out.push(c_noise_raw(role, &m1));
                if have == l1 as usize {
                    for l2 in [0u64, 47, 48, 64, 65535] {
                        for short in [0usize, 1] {
                            let m2 = hs_msg(l2, (l2 as usize).saturating_sub(short));
                            out.push(c_noise_raw(role, &[m1.clone(), m2].concat()));
                        }
                    }
                }
            }
        }
        // the scripted peer: valid identity, then every kind of damage and every length lie
        let mut rng = Rng::derive(0x22 + role);
        let good = valid_identity(&mut rng);
        let b = ser(&good);
        let n = b.len() as u64 + if role == 0 { 96 } else { 64 };
        out.push(c_noise_active(role, &b, 0));
        for d in [0u64, 1, 31, 32, 47, 48, 80, n - 1, n, n + 1, 65535] {
            out.push(c_noise_active(role, &b, d + 1));
        }
        let step = if thorough { 1 } else { 4 };
        for i in (0..b.len()).step_by(step) {
            out.push(c_noise_active(role, &b[..i], 0));
        }
        for l in len_lies(&good) {
            out.push(c_noise_active(role, &l, 0));
        }
        // signature by another key / over another message / missing parts
        let other = valid_identity(&mut rng);
        out.push(c_noise_active(role, &ser(&[good[0].clone(), other[1].clone()]), 0));
        out.push(c_noise_active(role, &ser(&[good[0].clone()]), 0));
        out.push(c_noise_active(role, &ser(&[good[1].clone()]), 0));
        out.push(c_noise_active(role, &ser(&[good[0].clone(), good[1].clone(), fm(4, vec![fb(2, b"/yamux/1.0.0")])]), 0));
        for d in [1u64, 50, 99, 100, 101, 500] {
            out.push(c_noise_active(role, &ser(&[good[0].clone(), good[1].clone(), fm(4, vec![group_bomb(d, 9)])]), 0));
        }
        // the largest payloads that still fit a Noise message
        for extra in [64_800usize] {
            out.push(c_noise_active(role, &ser(&[good[0].clone(), good[1].clone(), fb(9, &vec![1u8; extra])]), 0));
        }
    }
}
fn noise_net_random(rng: &mut Rng) -> Vec<u64> {
    let role = rng.below(2);
    if rng.chance(30) {
        let mut s = Vec::new();
        for _ in 0..rng.range(1, 3) {
            let l = rng.pick(&[0u64, 31, 32, 48, 96, 200, 1000, 65535]);
            let have = if rng.chance(70) { l as usize } else { rng.below(l + 2) as usize };
            let mut m = (l as u16).to_be_bytes().to_vec();
            m.extend(rand_bytes(rng, have));
            s.extend(m);
        }
        c_noise_raw(role, &s)
    } else {
        let t = if rng.chance(60) {
            let mut t = valid_identity(rng);
            if rng.chance(30) {
                t.push(fm(4, vec![fb(2, &string_val(rng))]));
            }
            t
        } else {
            noise_tree(rng)
        };
        let p = if rng.chance(50) { ser(&t) } else { finish(rng, t) };
        let n = p.len() as u64 + if role == 0 { 96 } else { 64 };
        let decl = match rng.below(10) {
            0 => n,         // d = n - 1
            1 => n + 2,     // d = n + 1
            2 => rng.below(65537),
            _ => 0,
        };
        c_noise_active(role, &p, decl.min(65536))
    }
}

// ---------------------------------------------------------------- mDNS

#[derive(Clone)]
enum DnsName {
    Labels(Vec<Vec<u8>>),
    /// labels followed by a compression pointer
    Ptr(Vec<Vec<u8>>, u16),
    Raw(Vec<u8>),
}
fn dns_name(n: &DnsName) -> Vec<u8> {
    let mut b = Vec::new();
    let labels = |b: &mut Vec<u8>, ls: &Vec<Vec<u8>>| {
        for l in ls {
            b.push(l.len() as u8);
            b.extend(l);
        }
    };
    match n {
        DnsName::Labels(ls) => {
            labels(&mut b, ls);
            b.push(0)
        }
        DnsName::Ptr(ls, p) => {
            labels(&mut b, ls);
            b.extend((0xC000u16 | p).to_be_bytes())
        }
        DnsName::Raw(r) => b.extend(r),
    }
    b
}
fn dotted(s: &str) -> DnsName {
    DnsName::Labels(s.split('.').filter(|l| !l.is_empty()).map(|l| l.as_bytes().to_vec()).collect())
}
#[derive(Clone)]
struct Rr {
    name: DnsName,
    ty: u16,
    class: u16,
    ttl: u32,
    rdlen: Option<u16>,
    rdata: Vec<u8>,
}
fn rr_ser(r: &Rr) -> Vec<u8> {
    let mut b = dns_name(&r.name);
    b.extend(r.ty.to_be_bytes());
    b.extend(r.class.to_be_bytes());
    b.extend(r.ttl.to_be_bytes());
    b.extend(r.rdlen.unwrap_or(r.rdata.len() as u16).to_be_bytes());
    b.extend(&r.rdata);
    b
}
fn txt_rdata(strings: &[Vec<u8>]) -> Vec<u8> {
    let mut b = Vec::new();
    for s in strings {
        b.push(s.len().min(255) as u8);
        b.extend(&s[..s.len().min(255)]);
    }
    b
}
struct DnsPacket {
    id: u16,
    flags: u16,
    counts: Option<[u16; 4]>,
    questions: Vec<(DnsName, u16, u16)>,
    answers: Vec<Rr>,
    authority: Vec<Rr>,
    extra: Vec<Rr>,
}
fn dns_ser(p: &DnsPacket) -> Vec<u8> {
    let mut b = p.id.to_be_bytes().to_vec();
    b.extend(p.flags.to_be_bytes());
    let c = p.counts.unwrap_or([p.questions.len() as u16, p.answers.len() as u16, p.authority.len() as u16, p.extra.len() as u16]);
    for x in c {
        b.extend(x.to_be_bytes());
    }
    for (n, t, c) in &p.questions {
        b.extend(dns_name(n));
        b.extend(t.to_be_bytes());
        b.extend(c.to_be_bytes());
    }
    for r in p.answers.iter().chain(&p.authority).chain(&p.extra) {
        b.extend(rr_ser(r));
    }
    b
}
const SERVICE: &str = "_p2p._udp.local";
pub const MDNS_USER: &[u8] = b"verifUser01";
const ADDR_TEXTS: [&str; 12] = [
    "/ip4/10.0.0.7/tcp/30333",
    "/ip4/10.0.0.7/tcp/30333/p2p/12D3KooWDpJ7As7BWAwRMfu1VU2WCqNjvq387JEYKDBj4kx6nXTN",
    "/ip6/fe80::1/tcp/4001/ws",
    "/ip4/192.168.1.9/udp/4001/quic-v1",
    "/dns4/node.example/tcp/443/wss",
    "/ip4/10.0.0.7/tcp/30333",
    "",
    "/",
    "ip4/10.0.0.7/tcp/1",
    "/ip4/999.0.0.1/tcp/1",
    "/ip4/10.0.0.7/tcp/70000",
    "/p2p/notbase58!",
];
fn listen_set(rng: &mut Rng) -> Vec<Vec<u8>> {
    let pool: [&str; 4] = ["/ip4/10.0.0.7/tcp/30333", "/ip6/::1/tcp/4001/ws", "/ip4/192.168.1.9/udp/4001/quic-v1", "/dns4/a.example/tcp/443/wss"];
    let n = rng.below(4) as usize;
    (0..n).map(|i| pool[(i + rng.below(4) as usize) % 4].parse::<litep2p::types::multiaddr::Multiaddr>().unwrap().to_vec()).collect()
}
fn c_mdns(user: &[u8], listen: &[Vec<u8>], d: &[u8]) -> Vec<u64> {
    let mut c = vec![24];
    el(&mut c, user);
    ell(&mut c, listen);
    el(&mut c, d);
    c
}
fn dnsaddr(t: &str) -> Vec<u8> {
    format!("dnsaddr={t}").into_bytes()
}
fn mdns_response(peer: &str, texts: &[Vec<u8>]) -> DnsPacket {
    DnsPacket {
        id: 0,
        flags: 0x8400,
        counts: None,
        questions: vec![],
        answers: vec![Rr { name: dotted(SERVICE), ty: 12, class: 1, ttl: 360, rdlen: None, rdata: dns_name(&dotted(peer)) }],
        authority: vec![],
        extra: texts.iter().map(|t| Rr { name: dotted(peer), ty: 16, class: 1, ttl: 360, rdlen: None, rdata: txt_rdata(&[t.clone()]) }).collect(),
    }
}
fn mdns_systematic(out: &mut Vec<Vec<u64>>, thorough: bool) {
    let mut rng = Rng::derive(0x24);
    let listen = listen_set(&mut rng);
    let user = MDNS_USER;
    let texts: Vec<Vec<u8>> = ADDR_TEXTS.iter().map(|t| dnsaddr(t)).collect();
    let good = mdns_response("remotePeer77", &texts);
    let b = dns_ser(&good);
    out.push(c_mdns(user, &listen, &b));
    // every truncation
    let step = if thorough { 1 } else { 3 };
    for i in (0..b.len()).step_by(step) {
        out.push(c_mdns(user, &listen, &b[..i]));
    }
    // the answer names ourselves / another service / differs in case; two PTR answers
    for (svc, peer) in [(SERVICE, "verifUser01"), ("_p2p._tcp.local", "remotePeer77"), ("_P2P._udp.local", "remotePeer77"), (SERVICE, "a.b.c")] {
        let mut p = mdns_response(peer, &texts[..3]);
        p.answers[0].name = dotted(svc);
        out.push(c_mdns(user, &listen, &dns_ser(&p)));
    }
    {
        let mut p = mdns_response("first", &texts[..2]);
        p.answers.push(Rr { name: dotted(SERVICE), ty: 12, class: 1, ttl: 1, rdlen: None, rdata: dns_name(&dotted("second")) });
        p.extra.push(Rr { name: dotted("second"), ty: 16, class: 1, ttl: 1, rdlen: None, rdata: txt_rdata(&[dnsaddr("/ip4/1.1.1.1/tcp/1")]) });
        out.push(c_mdns(user, &listen, &dns_ser(&p)));
        p.answers.swap(0, 1);
        out.push(c_mdns(user, &listen, &dns_ser(&p)));
        // our own name first: skipped, the second one counts
        p.answers[0].rdata = dns_name(&dotted("verifUser01"));
        out.push(c_mdns(user, &listen, &dns_ser(&p)));
    }
    // TXT shapes: several strings, duplicate keys, no '=', empty value, bad UTF-8, 255 bytes
    let shapes: Vec<Vec<Vec<u8>>> = vec![
        vec![dnsaddr("/ip4/1.1.1.1/tcp/1"), dnsaddr("/ip4/2.2.2.2/tcp/2")],
        vec![dnsaddr("/ip4/1.1.1.1/tcp/1"), b"other=/ip4/3.3.3.3/tcp/3".to_vec(), b"third=/ip4/4.4.4.4/tcp/4".to_vec()],
        vec![b"novalue".to_vec(), b"empty=".to_vec(), b"=/ip4/5.5.5.5/tcp/5".to_vec()],
        vec![vec![b'k', b'=', 0xff, 0xfe], vec![0xff, b'=', b'/']],
        vec![[b"k=".to_vec(), vec![b'/'; 253]].concat()],
        vec![vec![]],
        vec![],
    ];
    for sh in &shapes {
        let mut p = mdns_response("remotePeer77", &[]);
        p.extra.push(Rr { name: dotted("remotePeer77"), ty: 16, class: 1, ttl: 360, rdlen: None, rdata: txt_rdata(sh) });
        out.push(c_mdns(user, &listen, &dns_ser(&p)));
    }
    // names: compression pointers (backwards, to itself, forwards, into the header), long labels, long names
    let ptr_cases: Vec<DnsName> = vec![
        DnsName::Ptr(vec![], 12),
        DnsName::Ptr(vec![b"x".to_vec()], 12),
        DnsName::Ptr(vec![], 0),
        DnsName::Ptr(vec![], 0x3fff),
        DnsName::Ptr(vec![], 40),
        DnsName::Raw(vec![0xC0]),
        DnsName::Raw(vec![63]),
        DnsName::Raw(vec![64, b'a']),
        DnsName::Raw(vec![0x80, 1, 0]),
        DnsName::Labels(vec![vec![b'a'; 63]]),
        DnsName::Labels(vec![vec![b'a'; 63], vec![b'b'; 63], vec![b'c'; 63], vec![b'd'; 61]]),
        DnsName::Labels(vec![vec![b'a'; 63], vec![b'b'; 63], vec![b'c'; 63], vec![b'd'; 62]]),
        DnsName::Labels(vec![]),
    ];
    for n in &ptr_cases {
        let mut p = mdns_response("remotePeer77", &texts[..2]);
        p.extra[0].name = n.clone();
        out.push(c_mdns(user, &listen, &dns_ser(&p)));
        let mut p = mdns_response("remotePeer77", &texts[..2]);
        p.answers[0].rdata = dns_name(n);
        out.push(c_mdns(user, &listen, &dns_ser(&p)));
        let mut p = mdns_response("remotePeer77", &texts[..2]);
        p.answers[0].name = n.clone();
        out.push(c_mdns(user, &listen, &dns_ser(&p)));
    }
    // a pointer loop through two names
    {
        let mut p = mdns_response("remotePeer77", &[]);
        p.answers[0].name = DnsName::Ptr(vec![b"a".to_vec()], 12 + 4 + 10 + 2);
        p.answers[0].rdata = dns_name(&DnsName::Ptr(vec![b"b".to_vec()], 12));
        out.push(c_mdns(user, &listen, &dns_ser(&p)));
    }
    // record counts that lie, rdlength that lies, every record type with a short / empty / long body
    for counts in [[0u16, 2, 0, 0], [0, 1, 0, 50], [0, 0xffff, 0, 0xffff], [9, 1, 0, 0], [0, 0, 0, 0], [0, 1, 7, 1]] {
        let mut p = mdns_response("remotePeer77", &texts[..1]);
        p.counts = Some(counts);
        out.push(c_mdns(user, &listen, &dns_ser(&p)));
    }
    for rdlen in [0u16, 1, 5, 200, 0xffff] {
        for which in [0usize, 1] {
            let mut p = mdns_response("remotePeer77", &texts[..1]);
            if which == 0 {
                p.answers[0].rdlen = Some(rdlen);
            } else {
                p.extra[0].rdlen = Some(rdlen);
            }
            out.push(c_mdns(user, &listen, &dns_ser(&p)));
        }
    }
    let types: Vec<u16> = if thorough { (0..=110).chain([249, 250, 251, 252, 255, 256, 257, 32768, 65535]).collect() } else { (0..=66).chain([99, 108, 109, 255, 257, 65535]).collect() };
    for ty in types {
        for body in [vec![], vec![0u8], vec![1u8; 4], vec![0u8; 40]] {
            let mut p = mdns_response("remotePeer77", &texts[..1]);
            p.authority.push(Rr { name: dotted("x.local"), ty, class: 1, ttl: 0, rdlen: None, rdata: body });
            out.push(c_mdns(user, &listen, &dns_ser(&p)));
        }
    }
    for class in [0u16, 2, 255, 0x8001, 0xffff] {
        let mut p = mdns_response("remotePeer77", &texts[..1]);
        p.answers[0].class = class;
        p.extra[0].class = class;
        out.push(c_mdns(user, &listen, &dns_ser(&p)));
    }
    // queries: answered whatever they ask
    for flags in [0u16, 0x0100, 0x7800] {
        let q = DnsPacket { id: 0x1234, flags, counts: None, questions: vec![(dotted(SERVICE), 12, 1)], answers: vec![], authority: vec![], extra: vec![] };
        out.push(c_mdns(user, &listen, &dns_ser(&q)));
        let q = DnsPacket { id: 1, flags, counts: None, questions: vec![], answers: vec![], authority: vec![], extra: vec![] };
        out.push(c_mdns(user, &listen, &dns_ser(&q)));
    }
    // longer than the receive buffer: cut at 4096
    {
        let many: Vec<Vec<u8>> = (0..120).map(|i| dnsaddr(&format!("/ip4/10.1.{}.{}/tcp/{}", i / 250, i % 250, 1000 + i))).collect();
        let p = mdns_response("remotePeer77", &many);
        let b = dns_ser(&p);
        out.push(c_mdns(user, &listen, &b));
        out.push(c_mdns(user, &listen, &b[..4096.min(b.len())]));
        out.push(c_mdns(user, &listen, &b[..4095.min(b.len())]));
    }
}
fn mdns_random(rng: &mut Rng) -> Vec<u64> {
    let listen = listen_set(rng);
    let peers = ["remotePeer77", "verifUser01", "p", "a.b"];
    let n = rng.below(5) as usize;
    let mut texts = Vec::new();
    for _ in 0..n {
        let t = ADDR_TEXTS[rng.below(ADDR_TEXTS.len() as u64) as usize];
        let key = rng.pick(&["dnsaddr", "dnsaddr", "x", ""]);
        texts.push(if rng.chance(90) { format!("{key}={t}").into_bytes() } else { string_val(rng) });
    }
    let mut p = mdns_response(peers[rng.below(4) as usize], &texts);
    if rng.chance(15) {
        p.flags = rng.pick(&[0u16, 0x8000, 0x0400, 0xffff]);
    }
    if rng.chance(20) {
        // all strings in one TXT record
        let name = p.extra.first().map(|r| r.name.clone()).unwrap_or(dotted("remotePeer77"));
        p.extra = vec![Rr { name, ty: 16, class: 1, ttl: 0, rdlen: None, rdata: txt_rdata(&texts) }];
    }
    if rng.chance(20) && !p.extra.is_empty() {
        let i = rng.below(p.extra.len() as u64) as usize;
        p.extra[i].name = dotted(peers[rng.below(4) as usize]);
    }
    if rng.chance(15) {
        p.answers.insert(0, Rr { name: dotted(rng.pick(&[SERVICE, "x.local"])), ty: rng.pick(&[12u16, 1, 16, 33]), class: 1, ttl: 5, rdlen: None, rdata: dns_name(&dotted(peers[rng.below(4) as usize])) });
    }
    if rng.chance(10) {
        p.questions.push((dotted(SERVICE), 12, 1));
    }
    let b = dns_ser(&p);
    let b = if rng.chance(35) { mutate_bytes(rng, b) } else { b };
    c_mdns(MDNS_USER, &listen, &b)
}

// ---------------------------------------------------------------- entry points

pub fn systematic(out: &mut Vec<Vec<u64>>, thorough: bool) {
    noise_net_systematic(out, thorough);
    ws_systematic(out, thorough);
    mdns_systematic(out, thorough);
    // round trips
    for cw in [0u64, 1] {
        for sizes in [vec![1usize], vec![125, 126, 127], vec![65535], vec![3, 65536, 5]] {
            let mut c = vec![20, 27, cw, sizes.len() as u64];
            for (i, n) in sizes.iter().enumerate() {
                el(&mut c, &vec![(i as u8).wrapping_add(0x41); *n]);
            }
            out.push(c);
        }
    }
    let mut rng = Rng::derive(0x28);
    for _ in 0..4 {
        out.push(rt_mdns(&mut rng));
    }
}

pub fn random(rng: &mut Rng) -> Vec<u64> {
    match rng.below(10) {
        0..=2 => noise_net_random(rng),
        3..=6 => ws_random(rng),
        _ => mdns_random(rng),
    }
}

fn rt_mdns(rng: &mut Rng) -> Vec<u64> {
    let mut c = vec![20, 28];
    el(&mut c, b"hostA");
    el(&mut c, if rng.chance(50) { b"hostB" } else { b"hostb" });
    ell(&mut c, &listen_set(rng));
    c
}

pub fn rt_random(rng: &mut Rng) -> Vec<u64> {
    if rng.chance(60) {
        let n = rng.range(1, 4);
        let mut c = vec![20, 27, rng.below(2), n];
        for _ in 0..n {
            let l = match rng.below(12) {
                0 | 1 => rng.range(124, 128),
                2 if c.len() < 1000 => rng.range(65533, 65538),
                _ => rng.range(1, 60),
            };
            el(&mut c, &rand_bytes(rng, l as usize));
        }
        c
    } else {
        rt_mdns(rng)
    }
}
