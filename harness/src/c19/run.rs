//! Worker side: oracle dictionary, the real decoders under the allocation counter, canonical dumps.
use super::{measure, measure_off};
use crate::util::*;
use bytes::{Bytes, BytesMut};
use futures::{Sink, Stream};
use litep2p::{
    codec::ProtocolCodec,
    crypto::{
        ed25519,
        verif::{verif_parse_and_verify_peer_id, VerifNoiseExtensions, VerifNoiseHandshakePayload, VerifPublicKeyProto},
        PublicKey, RemotePublicKey,
    },
    error::NegotiationError,
    protocol::libp2p::{
        bitswap::verif as bsv,
        identify::verif::SchemaIdentify,
        kademlia::{
            verif::{ConnectionType, KademliaMessage, KademliaPeer, SchemaMessage},
            ContentProvider, Record, RecordKey,
        },
    },
    substream::{verif_read_payload_size, Substream},
    types::{
        cid::Cid,
        multiaddr::{Multiaddr, Protocol},
        multihash::{Code, MultihashDigest},
        SubstreamId,
    },
    types::protocol::ProtocolName,
    verif_multistream_select::{
        webrtc_listener_negotiate, HandshakeResult, HeaderLine, ListenerSelectResult, Message as MsMessage,
        NegotiationError as MsNegotiationError, Protocol as MsProtocol, ProtocolError, WebRtcDialerState,
    },
    PeerId,
};
use prost::Message as _;
use std::{
    panic::{catch_unwind, AssertUnwindSafe},
    pin::Pin,
    sync::{Arc, Mutex},
    task::{Context, Poll},
    time::{Duration, Instant},
};

pub const ALLOC_FACTOR: u64 = 96;
pub const ALLOC_CONST: u64 = 16384;
pub const KAD_PEER_COST: u64 = 6144;
pub const EMBED_BOUND: u64 = 1 << 28;
fn alloc_bound_kad(k: u64, len: usize) -> u64 {
    alloc_bound(len) + KAD_PEER_COST * (2 * k + 1)
}
pub(super) fn alloc_bound(len: usize) -> u64 {
    ALLOC_FACTOR * len as u64 + ALLOC_CONST
}
fn recv_alloc_bound(max: u64, len: usize) -> u64 {
    max + 2 * len as u64 + ALLOC_CONST
}

pub(super) fn el(out: &mut Vec<u64>, b: &[u8]) {
    out.push(b.len() as u64);
    out.extend(b.iter().map(|x| *x as u64));
}
fn eo(out: &mut Vec<u64>, b: Option<&[u8]>) {
    match b {
        Some(b) => {
            out.push(1);
            el(out, b)
        }
        None => out.push(0),
    }
}
pub(super) fn ell(out: &mut Vec<u64>, l: &[Vec<u8>]) {
    out.push(l.len() as u64);
    for b in l {
        el(out, b);
    }
}

pub(super) struct Cur<'a> {
    pub(super) c: &'a [u64],
    pub(super) i: usize,
}
impl<'a> Cur<'a> {
    pub(super) fn n(&mut self) -> Option<u64> {
        let x = *self.c.get(self.i)?;
        self.i += 1;
        Some(x)
    }
    pub(super) fn bytes(&mut self) -> Option<Vec<u8>> {
        let n = self.n()? as usize;
        if self.i + n > self.c.len() {
            return None;
        }
        let v: Option<Vec<u8>> = self.c[self.i..self.i + n].iter().map(|x| u8::try_from(*x).ok()).collect();
        self.i += n;
        v
    }
    pub(super) fn list<T>(&mut self, mut f: impl FnMut(&mut Cur<'a>) -> Option<T>) -> Option<Vec<T>> {
        let n = self.n()? as usize;
        if n > self.c.len() {
            return None;
        }
        let mut v = Vec::with_capacity(n);
        for _ in 0..n {
            v.push(f(self)?);
        }
        Some(v)
    }
    pub(super) fn obytes(&mut self) -> Option<Option<Vec<u8>>> {
        if self.n()? == 0 {
            Some(None)
        } else {
            Some(Some(self.bytes()?))
        }
    }
    pub(super) fn done(&self) -> bool {
        self.i == self.c.len()
    }
}

// ---------------------------------------------------------------- oracle dictionary

#[derive(Default)]
pub(super) struct Orc {
    e: Vec<(u64, Vec<u8>, Vec<u64>)>,
}
impl Orc {
    pub(super) fn add(&mut self, kind: u64, key: &[u8], f: impl FnOnce() -> Vec<u64>) {
        if self.e.iter().any(|(k, b, _)| *k == kind && b == key) {
            return;
        }
        let a = f();
        self.e.push((kind, key.to_vec(), a));
    }
    fn maddr(&mut self, addr: &[u8]) {
        self.add(1, addr, || maddr_answer(addr));
    }
    pub(super) fn push(&self, case: &mut Vec<u64>) {
        case.push(self.e.len() as u64);
        for (k, key, a) in &self.e {
            case.push(*k);
            el(case, key);
            case.push(a.len() as u64);
            case.extend(a);
        }
    }
}

fn maddr_answer(addr: &[u8]) -> Vec<u64> {
    match Multiaddr::try_from(addr.to_vec()) {
        Ok(a) => {
            let mut v = vec![1, a.is_empty() as u64];
            match a.iter().last() {
                Some(Protocol::P2p(p)) => {
                    v.push(1);
                    v.extend(p.to_bytes().iter().map(|x| *x as u64));
                }
                _ => v.push(0),
            }
            v
        }
        Err(_) => vec![0],
    }
}

fn uvi(mut n: u64) -> Vec<u8> {
    let mut v = Vec::new();
    loop {
        if n < 128 {
            v.push(n as u8);
            return v;
        }
        v.push((n & 127) as u8 | 128);
        n >>= 7;
    }
}

// ---------------------------------------------------------------- proto-case <-> case

const ORC_KINDS: [u64; 9] = [1, 5, 6, 7, 8, 11, 22, 23, 24];

/// a proto-case padded to a syntactically complete case (empty dictionary)
pub fn proto_as_case(p: &[u64]) -> Vec<u64> {
    let mut c = p.to_vec();
    if p.first().map(|k| ORC_KINDS.contains(k)).unwrap_or(false) {
        c.push(0);
    }
    c
}

/// strip the dictionary of a stored case (it is recomputed by the worker)
pub fn case_as_proto(c: &[u64]) -> Vec<u64> {
    let Some(kind) = c.first() else { return c.to_vec() };
    if !ORC_KINDS.contains(kind) {
        return c.to_vec();
    }
    let mut cur = Cur { c, i: 1 };
    // the fields in front of the dictionary: n = a number, b = a byte list, l = a list of byte lists
    let fields: &str = match kind {
        1 => "nb",
        7 => "bbb",
        22 => match c.get(2) {
            Some(0) => "nnb",
            _ => "nnbn",
        },
        23 => "nnnb",
        24 => "blb",
        _ => "b",
    };
    for f in fields.chars() {
        let ok = match f {
            'n' => cur.n().is_some(),
            'b' => cur.bytes().is_some(),
            _ => cur.list(|c| c.bytes()).is_some(),
        };
        if !ok {
            return c.to_vec();
        }
    }
    c[..cur.i].to_vec()
}

// ---------------------------------------------------------------- in-memory carrier

#[derive(Clone, Default)]
pub struct Carrier {
    pub input: Arc<Mutex<(Vec<u8>, usize)>>,
    pub written: Arc<Mutex<Vec<u8>>>,
}
impl tokio::io::AsyncRead for Carrier {
    fn poll_read(self: Pin<&mut Self>, _cx: &mut Context<'_>, buf: &mut tokio::io::ReadBuf<'_>) -> Poll<std::io::Result<()>> {
        let mut g = self.input.lock().unwrap();
        let (data, pos) = &mut *g;
        let n = buf.remaining().min(data.len() - *pos);
        buf.put_slice(&data[*pos..*pos + n]);
        *pos += n;
        Poll::Ready(Ok(()))
    }
}
impl tokio::io::AsyncWrite for Carrier {
    fn poll_write(self: Pin<&mut Self>, _cx: &mut Context<'_>, buf: &[u8]) -> Poll<std::io::Result<usize>> {
        self.written.lock().unwrap().extend_from_slice(buf);
        Poll::Ready(Ok(buf.len()))
    }
    fn poll_flush(self: Pin<&mut Self>, _cx: &mut Context<'_>) -> Poll<std::io::Result<()>> {
        Poll::Ready(Ok(()))
    }
    fn poll_shutdown(self: Pin<&mut Self>, _cx: &mut Context<'_>) -> Poll<std::io::Result<()>> {
        Poll::Ready(Ok(()))
    }
}

fn some_peer() -> PeerId {
    let mut b = vec![0x12, 0x20];
    b.extend([7u8; 32]);
    PeerId::from_bytes(&b).unwrap()
}

/// frames handed out by `<Substream as Stream>::poll_next` until it ends (0) or fails (1);
/// 3 = it returned Pending on a carrier that never does
fn receive(max: Option<usize>, stream: &[u8]) -> (Vec<Vec<u8>>, u64) {
    let carrier = Carrier::default();
    *carrier.input.lock().unwrap() = (stream.to_vec(), 0);
    let mut s = Substream::new_verif(some_peer(), SubstreamId::from(0usize), Box::new(carrier), ProtocolCodec::UnsignedVarint(max));
    let waker = futures::task::noop_waker();
    let mut cx = Context::from_waker(&waker);
    let mut frames = Vec::new();
    loop {
        match Pin::new(&mut s).poll_next(&mut cx) {
            Poll::Ready(Some(Ok(f))) => frames.push(f.to_vec()),
            Poll::Ready(Some(Err(_))) => return (frames, 1),
            Poll::Ready(None) => return (frames, 0),
            Poll::Pending => return (frames, 3),
        }
    }
}

fn send_frames(max: usize, fs: &[Vec<u8>]) -> Option<Vec<u8>> {
    let carrier = Carrier::default();
    let written = carrier.written.clone();
    let mut s = Substream::new_verif(some_peer(), SubstreamId::from(0usize), Box::new(carrier), ProtocolCodec::UnsignedVarint(Some(max)));
    let waker = futures::task::noop_waker();
    let mut cx = Context::from_waker(&waker);
    for f in fs {
        match Pin::new(&mut s).poll_ready(&mut cx) {
            Poll::Ready(Ok(())) => {}
            _ => return None,
        }
        Pin::new(&mut s).start_send(Bytes::from(f.clone())).ok()?;
        match Pin::new(&mut s).poll_flush(&mut cx) {
            Poll::Ready(Ok(())) => {}
            _ => return None,
        }
    }
    let w = written.lock().unwrap().clone();
    Some(w)
}

// ---------------------------------------------------------------- dumps

fn dump_kad_peer(out: &mut Vec<u64>, p: &KademliaPeer) {
    el(out, &p.verif_peer().to_bytes());
    out.push(i32::from(p.verif_connection()) as u64);
    let mut addrs: Vec<Vec<u8>> = p.addresses().iter().map(|a| a.to_vec()).collect();
    if addrs.len() < 32 {
        addrs.sort();
        out.push(addrs.len() as u64);
        for a in &addrs {
            el(out, a);
        }
    } else {
        out.push(32);
    }
}
fn dump_kad_peers(out: &mut Vec<u64>, ps: &[KademliaPeer]) {
    out.push(ps.len() as u64);
    for p in ps {
        dump_kad_peer(out, p);
    }
}
fn dump_krec(out: &mut Vec<u64>, r: &Record, before: Instant) {
    el(out, &r.key.to_vec());
    el(out, &r.value);
    match &r.publisher {
        Some(p) => {
            out.push(1);
            el(out, &p.to_bytes())
        }
        None => out.push(0),
    }
    out.push(match r.expires {
        Some(e) => e.saturating_duration_since(before).as_secs().max(1),
        None => 0,
    });
}
fn okey(out: &mut Vec<u64>, k: &Option<RecordKey>) {
    match k {
        Some(k) => {
            out.push(1);
            el(out, &k.to_vec())
        }
        None => out.push(0),
    }
}
/// (cap, dump)
fn dump_kad(m: &Option<KademliaMessage>, before: Instant) -> (u64, Vec<u64>) {
    let mut o = Vec::new();
    let cap;
    match m {
        None => {
            o.push(0);
            cap = 0
        }
        Some(m) => {
            o.push(1);
            match m {
                KademliaMessage::FindNode { target, peers } => {
                    o.push(1);
                    el(&mut o, target);
                    dump_kad_peers(&mut o, peers);
                    cap = peers.len()
                }
                KademliaMessage::PutValue { record } => {
                    o.push(2);
                    dump_krec(&mut o, record, before);
                    cap = 0
                }
                KademliaMessage::GetRecord { key, record, peers } => {
                    o.push(3);
                    okey(&mut o, key);
                    match record {
                        Some(r) => {
                            o.push(1);
                            dump_krec(&mut o, r, before)
                        }
                        None => o.push(0),
                    }
                    dump_kad_peers(&mut o, peers);
                    cap = peers.len()
                }
                KademliaMessage::AddProvider { key, providers } => {
                    o.push(4);
                    el(&mut o, &key.to_vec());
                    dump_kad_peers(&mut o, providers);
                    cap = providers.len()
                }
                KademliaMessage::GetProviders { key, peers, providers } => {
                    o.push(5);
                    okey(&mut o, key);
                    dump_kad_peers(&mut o, peers);
                    dump_kad_peers(&mut o, providers);
                    cap = peers.len().max(providers.len())
                }
            }
        }
    }
    (cap as u64, o)
}

fn dump_kmsg_raw(out: &mut Vec<u64>, m: &SchemaMessage) {
    out.push(m.r#type as u32 as u64);
    out.push(m.cluster_level_raw as u32 as u64);
    el(out, &m.key);
    match &m.record {
        Some(r) => {
            out.push(1);
            el(out, &r.key);
            el(out, &r.value);
            el(out, r.time_received.as_bytes());
            el(out, &r.publisher);
            out.push(r.ttl as u64);
        }
        None => out.push(0),
    }
    for ps in [&m.closer_peers, &m.provider_peers] {
        out.push(ps.len() as u64);
        for p in ps.iter() {
            el(out, &p.id);
            ell(out, &p.addrs);
            out.push(p.connection as u32 as u64);
        }
    }
}

fn dump_msm(r: &Result<MsMessage, ProtocolError>) -> (u64, Vec<u64>) {
    let mut o = Vec::new();
    let mut cap = 0;
    match r {
        Ok(MsMessage::Header(HeaderLine::V1)) => o.extend([1, 1]),
        Ok(MsMessage::Protocol(p)) => {
            o.extend([1, 2]);
            el(&mut o, p.as_ref())
        }
        Ok(MsMessage::ListProtocols) => o.extend([1, 3]),
        Ok(MsMessage::Protocols(ps)) => {
            o.extend([1, 4]);
            o.push(ps.len() as u64);
            for p in ps {
                el(&mut o, p.as_ref());
            }
            cap = ps.len() as u64;
        }
        Ok(MsMessage::NotAvailable) => o.extend([1, 5]),
        Err(ProtocolError::IoError(_)) => o.extend([0, 1]),
        Err(ProtocolError::InvalidMessage) => o.extend([0, 2]),
        Err(ProtocolError::InvalidProtocol) => o.extend([0, 3]),
        Err(ProtocolError::TooManyProtocols) => o.extend([0, 4]),
        Err(ProtocolError::ProtocolNotSupported) => o.extend([0, 5]),
    }
    (cap, o)
}

fn dump_pubkey(out: &mut Vec<u64>, m: &VerifPublicKeyProto) {
    out.push(m.r#type as u32 as u64);
    el(out, &m.data);
}
fn dump_noise(out: &mut Vec<u64>, m: &VerifNoiseHandshakePayload) {
    eo(out, m.identity_key.as_deref());
    eo(out, m.identity_sig.as_deref());
    match &m.extensions {
        Some(e) => {
            out.push(1);
            ell(out, &e.webtransport_certhashes);
            let mux: Vec<Vec<u8>> = e.stream_muxers.iter().map(|s| s.as_bytes().to_vec()).collect();
            ell(out, &mux);
        }
        None => out.push(0),
    }
}
fn dump_identify(out: &mut Vec<u64>, m: &SchemaIdentify) {
    eo(out, m.protocol_version.as_ref().map(|s| s.as_bytes()));
    eo(out, m.agent_version.as_ref().map(|s| s.as_bytes()));
    eo(out, m.public_key.as_deref());
    ell(out, &m.listen_addrs);
    eo(out, m.observed_addr.as_deref());
    let ps: Vec<Vec<u8>> = m.protocols.iter().map(|s| s.as_bytes().to_vec()).collect();
    ell(out, &ps);
}
fn dump_bs(out: &mut Vec<u64>, m: &bsv::SchemaMessage) {
    match &m.wantlist {
        Some(w) => {
            out.push(1);
            out.push(w.entries.len() as u64);
            for e in &w.entries {
                el(out, &e.block);
                out.extend([e.priority as u32 as u64, e.cancel as u64, e.want_type as u32 as u64, e.send_dont_have as u64]);
            }
            out.push(w.full as u64);
        }
        None => out.push(0),
    }
    ell(out, &m.blocks);
    out.push(m.payload.len() as u64);
    for b in &m.payload {
        el(out, &b.prefix);
        el(out, &b.data);
    }
    out.push(m.block_presences.len() as u64);
    for p in &m.block_presences {
        el(out, &p.cid);
        out.push(p.r#type as u32 as u64);
    }
    out.push(m.pending_bytes as u32 as u64);
}

fn dump_prefix(v: u64, c: u64, t: u64, l: u8) -> Vec<u64> {
    let mut o = vec![1, v];
    el(&mut o, &uvi(c));
    el(&mut o, &uvi(t));
    o.push(l as u64);
    o
}


pub const YAMUX_BOUND: u64 = 4 << 20;
fn opaque(peak: u64, bound: u64) -> u64 {
    if peak <= bound {
        bound
    } else {
        peak
    }
}

fn yamux_credit_overflows(l: &[u8]) -> bool {
    u32::from_be_bytes([l[0], l[1], l[2], l[3]]).checked_add(262144).is_none()
}
fn yamux_first_frame_trigger(b: &[u8]) -> bool {
    b.len() >= 12 && b[0] == 0 && b[1] == 1 && b[3] & 1 == 1 && b[3] & 8 == 0 && b[7] & 1 == 1 && yamux_credit_overflows(&b[8..12])
}
/// transcription of coq/C19/Model.v yamux_syn_credit_overflow
fn yamux_syn_credit_overflow(mut b: &[u8]) -> bool {
    while b.len() >= 12 {
        let len = u32::from_be_bytes([b[8], b[9], b[10], b[11]]) as usize;
        if b[1] == 1 && b[3] & 1 == 1 && yamux_credit_overflows(&b[8..12]) {
            return true;
        }
        let rest = &b[12..];
        if b[1] == 0 {
            if rest.len() < len {
                return false;
            }
            b = &rest[len..];
        } else {
            b = rest;
        }
    }
    false
}

/// futures-io carrier for the yamux connection: the bytes, then end of stream; writes are dropped
pub(super) struct FCarrier {
    pub(super) data: Vec<u8>,
    pub(super) pos: usize,
}
impl futures::io::AsyncRead for FCarrier {
    fn poll_read(mut self: Pin<&mut Self>, _cx: &mut Context<'_>, buf: &mut [u8]) -> Poll<std::io::Result<usize>> {
        let n = buf.len().min(self.data.len() - self.pos);
        let p = self.pos;
        buf[..n].copy_from_slice(&self.data[p..p + n]);
        self.pos += n;
        Poll::Ready(Ok(n))
    }
}
impl futures::io::AsyncWrite for FCarrier {
    fn poll_write(self: Pin<&mut Self>, _cx: &mut Context<'_>, buf: &[u8]) -> Poll<std::io::Result<usize>> {
        Poll::Ready(Ok(buf.len()))
    }
    fn poll_flush(self: Pin<&mut Self>, _cx: &mut Context<'_>) -> Poll<std::io::Result<()>> {
        Poll::Ready(Ok(()))
    }
    fn poll_close(self: Pin<&mut Self>, _cx: &mut Context<'_>) -> Poll<std::io::Result<()>> {
        Poll::Ready(Ok(()))
    }
}
/// the yamux connection litep2p runs over every TCP/WebSocket connection (the `yamux` crate behind
/// `litep2p::yamux`), server side, fed the bytes: number of inbound streams it opened
fn yamux_feed(b: &[u8]) -> usize {
    use litep2p::yamux::{Config, Connection, Mode};
    let mut conn = Connection::new(FCarrier { data: b.to_vec(), pos: 0 }, Config::default(), Mode::Server);
    let waker = futures::task::noop_waker();
    let mut cx = Context::from_waker(&waker);
    let mut streams = Vec::new();
    for _ in 0..4096 {
        match conn.poll_next_inbound(&mut cx) {
            Poll::Ready(Some(Ok(s))) => streams.push(s),
            Poll::Ready(Some(Err(_))) | Poll::Ready(None) | Poll::Pending => break,
        }
    }
    streams.len()
}

pub(super) fn hdr(peak: u64, bound: u64, cap: u64, body: Vec<u64>) -> Vec<u64> {
    // C19_SHOW_PEAK=1 (debugging only): print the measured peak even when it is within the bound
    let show = std::env::var_os("C19_SHOW_PEAK").is_some();
    let mut t = vec![1, if peak <= bound && !show { bound } else { peak }, cap];
    t.extend(body);
    t
}

// ---------------------------------------------------------------- running one proto-case

fn run_inner(p: &[u64]) -> Option<(Vec<u64>, Vec<u64>)> {
    let mut cur = Cur { c: p, i: 0 };
    let kind = cur.n()?;
    let mut case: Vec<u64> = p.to_vec();
    match kind {
        1 => {
            let k = cur.n()?;
            let b = cur.bytes()?;
            if !cur.done() || k > 100000 {
                return None;
            }
            let raw = SchemaMessage::decode(&b[..]).ok();
            let mut orc = Orc::default();
            if let Some(m) = &raw {
                for p in m.closer_peers.iter().chain(m.provider_peers.iter()) {
                    for a in &p.addrs {
                        orc.maddr(a);
                    }
                }
            }
            // the ids the consumer stage really uses: the loop's own peer id and the remote's
            orc.add(9, &[], || super::tasks::local_peer().to_bytes().iter().map(|x| *x as u64).collect());
            orc.add(10, &[], || super::consume::remote_peer().to_bytes().iter().map(|x| *x as u64).collect());
            orc.push(&mut case);
            let before = Instant::now();
            let (msg, peak) = measure(|| KademliaMessage::from_bytes(BytesMut::from(&b[..]), k as usize));
            let mut body = Vec::new();
            match &raw {
                Some(m) => {
                    body.push(1);
                    dump_kmsg_raw(&mut body, m)
                }
                None => body.push(0),
            }
            let (cap, d) = dump_kad(&msg, before);
            body.extend(d);
            // consumer stage: the real Kademlia loop receives the very bytes (k >= 1: a loop with
            // replication factor 0 is not a configuration the property speaks about)
            if k >= 1 {
                match super::consume::stage(super::consume::STAGE_KAD, || super::consume::kademlia(k as usize, &b)) {
                    Ok(d) => body.extend(d),
                    Err(st) => return Some((case, vec![super::consume::CONSUMER_PANIC, st])),
                }
            }
            Some((case, hdr(peak, alloc_bound_kad(k, b.len()), cap, body)))
        }
        2 => {
            let b = cur.bytes()?;
            if !cur.done() {
                return None;
            }
            let (r, peak) = measure(|| MsMessage::decode(Bytes::copy_from_slice(&b)));
            let (cap, d) = dump_msm(&r);
            Some((case, hdr(peak, alloc_bound(b.len()), cap, d)))
        }
        3 => {
            let m = cur.n()?;
            let s = cur.bytes()?;
            if !cur.done() {
                return None;
            }
            let max = if m == 0 { None } else { Some((m - 1) as usize) };
            let ((frames, st), peak) = measure(|| receive(max, &s));
            let bound = recv_alloc_bound(max.map(|x| x as u64).unwrap_or(s.len() as u64), s.len());
            let cap = frames.iter().map(|f| f.len()).max().unwrap_or(0) as u64;
            let mut body = Vec::new();
            ell(&mut body, &frames);
            body.push(st);
            Some((case, hdr(peak, bound, cap, body)))
        }
        4 => {
            let b = cur.bytes()?;
            if !cur.done() {
                return None;
            }
            let (r, peak) = measure(|| verif_read_payload_size(&b));
            let body = match r {
                Ok((s, n)) => {
                    let mut o = vec![1];
                    el(&mut o, &uvi(s as u64));
                    o.push(n as u64);
                    o
                }
                Err(e) => vec![0, e as u64],
            };
            Some((case, hdr(peak, alloc_bound(b.len()), 0, body)))
        }
        5 => {
            let b = cur.bytes()?;
            if !cur.done() {
                return None;
            }
            let raw = VerifPublicKeyProto::decode(&b[..]).ok();
            let mut orc = Orc::default();
            if let Some(m) = &raw {
                if m.data.len() == 32 {
                    orc.add(2, &m.data, || vec![ed25519::PublicKey::try_from_bytes(&m.data).is_ok() as u64]);
                }
            }
            orc.push(&mut case);
            let (r, peak) = measure(|| RemotePublicKey::from_protobuf_encoding(&b));
            let mut body = Vec::new();
            match &raw {
                Some(m) => {
                    body.push(1);
                    dump_pubkey(&mut body, m)
                }
                None => body.push(0),
            }
            match r {
                Ok(rk @ RemotePublicKey::Ed25519(_)) => {
                    #[allow(irrefutable_let_patterns)]
                    let pk = if let RemotePublicKey::Ed25519(pk) = &rk { pk.to_bytes() } else { unreachable!() };
                    eo(&mut body, Some(&pk));
                    // consumer stage: the peer id of the key and its conversions
                    match super::consume::stage(super::consume::STAGE_NOISE, || super::consume::peer_id_conversions(rk.to_peer_id(&b))) {
                        Ok(m) => el(&mut body, &m),
                        Err(st) => return Some((case, vec![super::consume::CONSUMER_PANIC, st])),
                    }
                }
                #[allow(unreachable_patterns)]
                Ok(_) => body.push(2),
                Err(_) => body.push(0),
            }
            Some((case, hdr(peak, alloc_bound(b.len()), 0, body)))
        }
        6 => {
            let b = cur.bytes()?;
            if !cur.done() {
                return None;
            }
            let raw = VerifNoiseHandshakePayload::decode(&b[..]).ok();
            let mut orc = Orc::default();
            if let Some(m) = &raw {
                if let Some(k) = &m.identity_key {
                    if let Ok(pk) = VerifPublicKeyProto::decode(&k[..]) {
                        if pk.data.len() == 32 {
                            orc.add(2, &pk.data, || vec![ed25519::PublicKey::try_from_bytes(&pk.data).is_ok() as u64]);
                        }
                    }
                }
            }
            orc.push(&mut case);
            let dh = [9u8; 32];
            let (r, peak) = measure(|| {
                VerifNoiseHandshakePayload::decode(&b[..])
                    .ok()
                    .map(|m| verif_parse_and_verify_peer_id(m.identity_key, m.identity_sig, &dh))
            });
            let mut body = Vec::new();
            match &raw {
                Some(m) => {
                    body.push(1);
                    dump_noise(&mut body, m)
                }
                None => body.push(0),
            }
            let key_ok = matches!(r, Some(Ok(_)) | Some(Err(NegotiationError::BadSignature)));
            if key_ok {
                let k = raw.as_ref().and_then(|m| m.identity_key.clone()).unwrap_or_default();
                match RemotePublicKey::from_protobuf_encoding(&k) {
                    Ok(rk @ RemotePublicKey::Ed25519(_)) => {
                        #[allow(irrefutable_let_patterns)]
                        let pk = if let RemotePublicKey::Ed25519(pk) = &rk { pk.to_bytes() } else { unreachable!() };
                        eo(&mut body, Some(&pk));
                        // consumer stage: the peer id parse_and_verify_peer_id derives, its conversions
                        match super::consume::stage(super::consume::STAGE_NOISE, || super::consume::peer_id_conversions(rk.to_peer_id(&k))) {
                            Ok(m) => el(&mut body, &m),
                            Err(st) => return Some((case, vec![super::consume::CONSUMER_PANIC, st])),
                        }
                    }
                    _ => body.push(3),
                }
            } else {
                body.push(0);
            }
            Some((case, hdr(peak, alloc_bound(b.len()), 0, body)))
        }
        7 => {
            let peer_b = cur.bytes()?;
            let local_b = cur.bytes()?;
            let b = cur.bytes()?;
            if !cur.done() {
                return None;
            }
            let peer = PeerId::from_bytes(&peer_b).ok()?;
            let local = PeerId::from_bytes(&local_b).ok()?;
            let raw = SchemaIdentify::decode(&b[..]).ok();
            let mut orc = Orc::default();
            if let Some(m) = &raw {
                for a in m.listen_addrs.iter().chain(m.observed_addr.iter()) {
                    orc.maddr(a);
                }
            }
            orc.push(&mut case);
            // the REAL identify event loop: connection announced, the substream it opens carries
            // one varint frame with the payload, the public event (if any) is observed
            if local != super::tasks::local_peer() {
                return None;
            }
            let wire = super::tasks::identify_frame(&b);
            let (r, peak) = super::tasks::identify(peer, &wire)?;
            let mut body = Vec::new();
            match &raw {
                Some(m) => {
                    body.push(1);
                    dump_identify(&mut body, m)
                }
                None => body.push(0),
            }
            match r {
                Some(info) => {
                    body.push(1);
                    eo(&mut body, info.protocol_version.as_ref().map(|s| s.as_bytes()));
                    eo(&mut body, info.user_agent.as_ref().map(|s| s.as_bytes()));
                    ell(&mut body, &info.protocols);
                    eo(&mut body, info.observed.as_deref());
                    ell(&mut body, &info.listen);
                    // consumer stage: the addresses of the event go to the address book
                    for a in info.listen.iter().chain(info.observed.iter()) {
                        if let Ok(a) = Multiaddr::try_from(a.clone()) {
                            if super::consume::stage(super::consume::STAGE_MADDR, || super::consume::maddr_consumers(&a)).is_err() {
                                return Some((case, vec![super::consume::CONSUMER_PANIC, super::consume::STAGE_MADDR]));
                            }
                        }
                    }
                }
                None => body.push(0),
            }
            Some((case, hdr(peak, alloc_bound(b.len()), 0, body)))
        }
        8 => {
            let b = cur.bytes()?;
            if !cur.done() {
                return None;
            }
            let raw = bsv::SchemaMessage::decode(&b[..]).ok();
            let mut orc = Orc::default();
            if let Some(m) = &raw {
                let cid_answer = |c: &[u8]| match Cid::read_bytes(c) {
                    Ok(cid) => {
                        let mut v = vec![1];
                        v.extend(cid.to_bytes().iter().map(|x| *x as u64));
                        v
                    }
                    Err(_) => vec![0],
                };
                if let Some(w) = &m.wantlist {
                    for e in &w.entries {
                        orc.add(3, &e.block, || cid_answer(&e.block));
                    }
                }
                for p in &m.block_presences {
                    orc.add(3, &p.cid, || cid_answer(&p.cid));
                }
                for blk in &m.payload {
                    if let Some((_, _, t, _)) = bsv::verif_prefix_from_bytes(&blk.prefix) {
                        let mut key = uvi(t);
                        key.extend(&blk.data);
                        orc.add(4, &key, || match Code::try_from(t) {
                            Ok(code) => {
                                let mh = code.digest(&blk.data);
                                let mut v = vec![1];
                                v.extend(mh.digest().iter().map(|x| *x as u64));
                                v
                            }
                            Err(_) => vec![0],
                        });
                    }
                }
            }
            orc.push(&mut case);
            // the REAL bitswap event loop: the remote's inbound substream carries one varint frame
            let peer = some_peer();
            let wire = super::tasks::bitswap_frame(&b);
            let (seen, peak) = super::tasks::bitswap(peer, &wire)?;
            let r = raw.as_ref().map(|_| (seen.requests, seen.blocks, seen.presences));
            let mut body = Vec::new();
            match (&raw, r) {
                (Some(m), Some((req, blocks, pres))) => {
                    body.push(1);
                    dump_bs(&mut body, m);
                    body.push(req.len() as u64);
                    for (c, t) in &req {
                        el(&mut body, c);
                        body.push(*t);
                    }
                    ell(&mut body, &blocks);
                    body.push(pres.len() as u64);
                    for (c, t) in &pres {
                        el(&mut body, c);
                        body.push(*t);
                    }
                }
                (None, None) => body.push(0),
                _ => body.push(7),
            }
            Some((case, hdr(peak, alloc_bound(b.len()), 0, body)))
        }
        9 => {
            let b = cur.bytes()?;
            if !cur.done() {
                return None;
            }
            let (r, peak) = measure(|| bsv::verif_prefix_from_bytes(&b));
            let body = match r {
                Some((v, c, t, l)) => {
                    let mut o = dump_prefix(v, c, t, l);
                    el(&mut o, &bsv::verif_prefix_to_bytes(v, c, t, l).unwrap_or_default());
                    o
                }
                None => vec![0],
            };
            Some((case, hdr(peak, alloc_bound(b.len()), 0, body)))
        }
        10 => {
            let b = cur.bytes()?;
            if !cur.done() {
                return None;
            }
            let (r, peak) = measure(|| PeerId::from_bytes(&b));
            let body = match r {
                Ok(p) => {
                    let mut o = vec![1];
                    el(&mut o, &p.to_bytes());
                    // consumer stage: every conversion into the multiaddr / multihash crates' types
                    match super::consume::stage(super::consume::STAGE_PEER_ID, || super::consume::peer_id_conversions(p)) {
                        Ok(m) => el(&mut o, &m),
                        Err(st) => return Some((case, vec![super::consume::CONSUMER_PANIC, st])),
                    }
                    o
                }
                Err(_) => vec![0],
            };
            Some((case, hdr(peak, alloc_bound(b.len()), 0, body)))
        }
        11 => {
            let b = cur.bytes()?;
            if !cur.done() {
                return None;
            }
            let (r, peak) = measure(|| maddr_answer(&b));
            let mut orc = Orc::default();
            orc.add(1, &b, || r.clone());
            orc.push(&mut case);
            let mut body = r;
            // consumer stage: what the address book, the transports and the routing table do with it
            if let Ok(a) = Multiaddr::try_from(b.clone()) {
                match super::consume::stage(super::consume::STAGE_MADDR, || super::consume::maddr_consumers(&a)) {
                    Ok(d) => body.extend(d),
                    Err(st) => return Some((case, vec![super::consume::CONSUMER_PANIC, st])),
                }
            }
            Some((case, hdr(peak, alloc_bound(b.len()), 0, body)))
        }
        17 => {
            let b = cur.bytes()?;
            if !cur.done() {
                return None;
            }
            let (r, peak) = measure(|| Cid::read_bytes(&b[..]).ok().map(|c| c.to_bytes()));
            let body = match r {
                Some(c) => {
                    let mut o = vec![1];
                    el(&mut o, &c);
                    o
                }
                None => vec![0],
            };
            Some((case, hdr(peak, alloc_bound(b.len()), 0, body)))
        }
        12 => {
            let h = cur.n()? != 0;
            let names = cur.list(|c| c.bytes())?;
            let pl = cur.bytes()?;
            if !cur.done() {
                return None;
            }
            let pnames: Option<Vec<ProtocolName>> =
                names.iter().map(|n| String::from_utf8(n.clone()).ok().map(ProtocolName::from)).collect();
            let pnames = pnames?;
            let (r, peak) = measure(|| webrtc_listener_negotiate(pnames.clone(), Bytes::copy_from_slice(&pl), h));
            let mut body = Vec::new();
            match r {
                Ok(ListenerSelectResult::Accepted { protocol, message }) => {
                    let i = names.iter().position(|n| n.as_slice() == protocol.as_bytes())?;
                    body.extend([0, i as u64]);
                    el(&mut body, &message);
                }
                Ok(ListenerSelectResult::Rejected { message }) => {
                    body.push(1);
                    el(&mut body, &message);
                }
                Ok(ListenerSelectResult::PendingProtocol { message }) => {
                    body.push(2);
                    el(&mut body, &message);
                }
                Err(e) => {
                    use litep2p::error::Error;
                    let code = match e {
                        Error::NegotiationError(NegotiationError::ParseError(_)) => 1,
                        Error::NegotiationError(NegotiationError::MultistreamSelectError(_)) => 2,
                        Error::InvalidData => 3,
                        _ => 9,
                    };
                    body.extend([3, code]);
                }
            }
            Some((case, hdr(peak, alloc_bound(pl.len()), 0, body)))
        }
        13 => {
            let proto = cur.bytes()?;
            let ops = cur.list(|c| c.bytes())?;
            if !cur.done() {
                return None;
            }
            let name = ProtocolName::from(String::from_utf8(proto).ok()?);
            let (mut st, _msg) = WebRtcDialerState::propose(name, vec![]).ok()?;
            let total: usize = ops.iter().map(|o| o.len()).sum();
            let (codes, peak) = measure(|| {
                let mut codes = Vec::new();
                for pl in ops.iter() {
                    let code = match st.register_response(pl.clone()) {
                        Ok(HandshakeResult::NotReady) => 0,
                        Ok(HandshakeResult::Succeeded(_)) => 1,
                        Ok(HandshakeResult::Rejected) => 2,
                        Err(NegotiationError::ParseError(_)) => 11,
                        Err(NegotiationError::MultistreamSelectError(MsNegotiationError::Failed)) => 12,
                        Err(NegotiationError::StateMismatch) => 13,
                        Err(NegotiationError::MultistreamSelectError(MsNegotiationError::ProtocolError(_))) => 14,
                        Err(_) => 19,
                    };
                    codes.push(code);
                }
                codes
            });
            Some((case, hdr(peak, alloc_bound(total), 0, codes)))
        }
        14 | 15 | 16 => {
            // another property's whole scenario (its own per-call catch_unwind and trace format)
            let raw = &p[1..];
            let (t, peak) = measure(|| match kind {
                14 => super::ext::x02::run(raw),
                15 => super::ext::x04::run(raw),
                _ => super::ext::x03::run(raw),
            });
            let mut out = vec![1, if peak <= EMBED_BOUND { EMBED_BOUND } else { peak }, 0];
            out.extend(t);
            Some((case, out))
        }
        // kinds 18 (TLS certificate), 19 (WebRTC codec) and 9918 belong to the feature worker
        // (src/c19/xworker.rs); the driver never sends them here
        21 => {
            let b = cur.bytes()?;
            if !cur.done() {
                return None;
            }
            // inputs containing the trigger of known finding class 1 (yamux SYN credit overflow) are
            // run for real but only the first-frame case is predicted (see coq/C19/Glue.v)
            if yamux_first_frame_trigger(&b) {
                let r = catch_unwind(AssertUnwindSafe(|| yamux_feed(&b)));
                measure_off();
                return Some((case, vec![777, r.is_err() as u64]));
            }
            if yamux_syn_credit_overflow(&b) {
                let _ = catch_unwind(AssertUnwindSafe(|| yamux_feed(&b)));
                measure_off();
                return Some((case, vec![777, 2]));
            }
            let (_, peak) = measure(|| yamux_feed(&b));
            Some((case, vec![1, opaque(peak, YAMUX_BOUND), 0]))
        }
        20 => run_rt(&mut cur).map(|t| (case, t)),
        22 => super::net::noise(&mut cur, &mut case).map(|t| (case, t)),
        23 => super::net::websocket(&mut cur, &mut case).map(|t| (case, t)),
        24 => super::net::mdns(&mut cur, &mut case).map(|t| (case, t)),
        _ => None,
    }
}

fn kad_peer_of(cur: &mut Cur) -> Option<(PeerId, Vec<Multiaddr>, u64)> {
    let id = cur.bytes()?;
    let addrs = cur.list(|c| c.bytes())?;
    let conn = cur.n()?;
    let peer = PeerId::from_bytes(&id).ok()?;
    let addrs: Option<Vec<Multiaddr>> = addrs.into_iter().map(|a| Multiaddr::try_from(a).ok()).collect();
    Some((peer, addrs?, conn))
}
fn conn_of(c: u64) -> Option<ConnectionType> {
    ConnectionType::try_from(c as i32).ok()
}
fn mk_peer(p: (PeerId, Vec<Multiaddr>, u64)) -> Option<KademliaPeer> {
    Some(KademliaPeer::new(p.0, p.1, conn_of(p.2)?))
}
fn krec_of(cur: &mut Cur) -> Option<Record> {
    let key = cur.bytes()?;
    let value = cur.bytes()?;
    let publisher = if cur.n()? == 0 { None } else { Some(PeerId::from_bytes(&cur.bytes()?).ok()?) };
    let ttl = cur.n()?;
    Some(Record {
        key: RecordKey::from(key),
        value,
        publisher,
        expires: if ttl == 0 { None } else { Some(Instant::now() + Duration::from_secs(ttl)) },
    })
}

fn run_rt(cur: &mut Cur) -> Option<Vec<u64>> {
    let sub = cur.n()?;
    let kad = |enc: Vec<u8>, k: usize, single: bool| -> Vec<u64> {
        let before = Instant::now();
        let (msg, peak) = measure(|| KademliaMessage::from_bytes(BytesMut::from(&enc[..]), k));
        let mut body = vec![enc.len() as u64];
        if single {
            body.push(1);
            el(&mut body, &enc);
        } else {
            body.push(0);
        }
        let (cap, d) = dump_kad(&msg, before);
        body.extend(d);
        hdr(peak, alloc_bound_kad(k as u64, enc.len()), cap, body)
    };
    let single = |ps: &[&(PeerId, Vec<Multiaddr>, u64)]| ps.iter().all(|p| p.1.len() <= 1);
    match sub {
        1 => {
            let key = cur.bytes()?;
            Some(kad(KademliaMessage::find_node(key).to_vec(), 20, true))
        }
        2 => {
            let r = krec_of(cur)?;
            Some(kad(KademliaMessage::put_value(r).to_vec(), 20, true))
        }
        3 => {
            let key = cur.bytes()?;
            Some(kad(KademliaMessage::get_record(RecordKey::from(key)).to_vec(), 20, true))
        }
        4 => {
            let key = cur.bytes()?;
            let ps = cur.list(kad_peer_of)?;
            let s = single(&ps.iter().collect::<Vec<_>>());
            let n = ps.len();
            let peers: Option<Vec<KademliaPeer>> = ps.into_iter().map(mk_peer).collect();
            Some(kad(KademliaMessage::find_node_response(key, peers?), n, s))
        }
        5 => {
            let key = cur.bytes()?;
            let v = cur.bytes()?;
            Some(kad(KademliaMessage::put_value_response(RecordKey::from(key), v).to_vec(), 20, true))
        }
        6 => {
            let key = cur.bytes()?;
            let ps = cur.list(kad_peer_of)?;
            let r = if cur.n()? == 0 { None } else { Some(krec_of(cur)?) };
            let s = single(&ps.iter().collect::<Vec<_>>());
            let n = ps.len();
            let peers: Option<Vec<KademliaPeer>> = ps.into_iter().map(mk_peer).collect();
            Some(kad(KademliaMessage::get_value_response(RecordKey::from(key), peers?, r), n, s))
        }
        7 => {
            let key = cur.bytes()?;
            let p = kad_peer_of(cur)?;
            let s = p.1.len() <= 1;
            let enc = KademliaMessage::add_provider(RecordKey::from(key), ContentProvider { peer: p.0, addresses: p.1 });
            Some(kad(enc.to_vec(), 20, s))
        }
        8 => {
            let key = cur.bytes()?;
            Some(kad(KademliaMessage::get_providers_request(RecordKey::from(key)).to_vec(), 20, true))
        }
        9 => {
            let providers = cur.list(kad_peer_of)?;
            let closer = cur.list(kad_peer_of)?;
            let s = single(&providers.iter().chain(closer.iter()).collect::<Vec<_>>());
            let n = providers.len() + closer.len();
            let provs: Vec<ContentProvider> = providers.into_iter().map(|p| ContentProvider { peer: p.0, addresses: p.1 }).collect();
            let closer: Option<Vec<KademliaPeer>> = closer.into_iter().map(mk_peer).collect();
            Some(kad(KademliaMessage::get_providers_response(provs, &closer?), n, s))
        }
        20 => {
            let t = cur.n()?;
            let proto = |b: Vec<u8>| MsProtocol::try_from(Bytes::from(b)).ok();
            let m = match t {
                1 => MsMessage::Header(HeaderLine::V1),
                2 => MsMessage::Protocol(proto(cur.bytes()?)?),
                3 => MsMessage::ListProtocols,
                4 => {
                    let ps = cur.list(|c| c.bytes())?;
                    let ps: Option<Vec<MsProtocol>> = ps.into_iter().map(proto).collect();
                    MsMessage::Protocols(ps?)
                }
                5 => MsMessage::NotAvailable,
                _ => return None,
            };
            let mut buf = BytesMut::new();
            m.encode(&mut buf).ok()?;
            let enc = buf.to_vec();
            let (r, peak) = measure(|| MsMessage::decode(Bytes::copy_from_slice(&enc)));
            let (cap, d) = dump_msm(&r);
            let mut body = Vec::new();
            el(&mut body, &enc);
            body.extend(d);
            Some(hdr(peak, alloc_bound(enc.len()), cap, body))
        }
        21 => {
            let k = cur.bytes()?;
            let pk = ed25519::PublicKey::try_from_bytes(&k).ok()?;
            let enc = PublicKey::Ed25519(pk).to_protobuf_encoding();
            let (r, peak) = measure(|| RemotePublicKey::from_protobuf_encoding(&enc));
            let mut body = Vec::new();
            el(&mut body, &enc);
            match VerifPublicKeyProto::decode(&enc[..]) {
                Ok(m) => {
                    body.push(1);
                    dump_pubkey(&mut body, &m)
                }
                Err(_) => body.push(0),
            }
            match r {
                Ok(RemotePublicKey::Ed25519(pk)) => eo(&mut body, Some(&pk.to_bytes())),
                _ => body.push(0),
            }
            Some(hdr(peak, alloc_bound(enc.len()), 0, body))
        }
        22 => {
            let s = |o: Option<Vec<u8>>| -> Option<Option<String>> {
                match o {
                    Some(b) => Some(Some(String::from_utf8(b).ok()?)),
                    None => Some(None),
                }
            };
            let pv = s(cur.obytes()?)?;
            let av = s(cur.obytes()?)?;
            let pk = cur.obytes()?;
            let la = cur.list(|c| c.bytes())?;
            let oa = cur.obytes()?;
            let ps = cur.list(|c| c.bytes())?;
            let ps: Option<Vec<String>> = ps.into_iter().map(|b| String::from_utf8(b).ok()).collect();
            let m = SchemaIdentify { protocol_version: pv, agent_version: av, public_key: pk, listen_addrs: la, observed_addr: oa, protocols: ps? };
            let enc = m.encode_to_vec();
            let (r, peak) = measure(|| SchemaIdentify::decode(enc.to_vec().as_slice()));
            let mut body = Vec::new();
            el(&mut body, &enc);
            match r {
                Ok(d) => {
                    body.push(1);
                    dump_identify(&mut body, &d)
                }
                Err(_) => body.push(0),
            }
            Some(hdr(peak, alloc_bound(enc.len()), 0, body))
        }
        23 => {
            let wantlist = if cur.n()? == 0 {
                None
            } else {
                let entries = cur.list(|c| {
                    Some(bsv::SchemaEntry {
                        block: c.bytes()?,
                        priority: c.n()? as u32 as i32,
                        cancel: c.n()? != 0,
                        want_type: c.n()? as u32 as i32,
                        send_dont_have: c.n()? != 0,
                    })
                })?;
                Some(bsv::SchemaWantlist { entries, full: cur.n()? != 0 })
            };
            let blocks = cur.list(|c| c.bytes())?;
            let payload = cur.list(|c| Some(bsv::SchemaBlock { prefix: c.bytes()?, data: c.bytes()? }))?;
            let block_presences = cur.list(|c| Some(bsv::SchemaBlockPresence { cid: c.bytes()?, r#type: c.n()? as u32 as i32 }))?;
            let pending_bytes = cur.n()? as u32 as i32;
            let m = bsv::SchemaMessage { wantlist, blocks, payload, block_presences, pending_bytes };
            let enc = m.encode_to_vec();
            let (r, peak) = measure(|| bsv::SchemaMessage::decode(BytesMut::from(&enc[..])));
            let mut body = Vec::new();
            el(&mut body, &enc);
            match r {
                Ok(d) => {
                    body.push(1);
                    dump_bs(&mut body, &d)
                }
                Err(_) => body.push(0),
            }
            Some(hdr(peak, alloc_bound(enc.len()), 0, body))
        }
        24 => {
            let identity_key = cur.obytes()?;
            let identity_sig = cur.obytes()?;
            let extensions = if cur.n()? == 0 {
                None
            } else {
                let c = cur.list(|c| c.bytes())?;
                let m = cur.list(|c| c.bytes())?;
                let m: Option<Vec<String>> = m.into_iter().map(|b| String::from_utf8(b).ok()).collect();
                Some(VerifNoiseExtensions { webtransport_certhashes: c, stream_muxers: m? })
            };
            let m = VerifNoiseHandshakePayload { identity_key, identity_sig, extensions };
            let enc = m.encode_to_vec();
            let (r, peak) = measure(|| VerifNoiseHandshakePayload::decode(&enc[..]));
            let mut body = Vec::new();
            el(&mut body, &enc);
            match r {
                Ok(d) => {
                    body.push(1);
                    dump_noise(&mut body, &d)
                }
                Err(_) => body.push(0),
            }
            Some(hdr(peak, alloc_bound(enc.len()), 0, body))
        }
        25 => {
            let (v, c, t, l) = (cur.n()?, cur.n()?, cur.n()?, cur.n()?);
            let enc = bsv::verif_prefix_to_bytes(v, c, t, u8::try_from(l).ok()?)?;
            let (r, peak) = measure(|| bsv::verif_prefix_from_bytes(&enc));
            let mut body = Vec::new();
            el(&mut body, &enc);
            match r {
                Some((v, c, t, l)) => body.extend(dump_prefix(v, c, t, l)),
                None => body.push(0),
            }
            Some(hdr(peak, alloc_bound(enc.len()), 0, body))
        }
        26 => {
            let max = cur.n()?;
            let fs = cur.list(|c| c.bytes())?;
            let s = send_frames(max as usize, &fs)?;
            let ((frames, st), peak) = measure(|| receive(Some(max as usize), &s));
            let cap = frames.iter().map(|f| f.len()).max().unwrap_or(0) as u64;
            let mut body = Vec::new();
            el(&mut body, &s);
            ell(&mut body, &frames);
            body.push(st);
            Some(hdr(peak, recv_alloc_bound(max, s.len()), cap, body))
        }
        27 => {
            let cw = cur.n()? != 0;
            let chunks = cur.list(|c| c.bytes())?;
            let (wire_len, out, st, peak) = super::net::ws_roundtrip(cw, &chunks)?;
            let mut body = Vec::new();
            el(&mut body, &out);
            body.push(st);
            Some(hdr(peak, super::net::ws_bound(wire_len), 0, body))
        }
        28 => {
            let ua = String::from_utf8(cur.bytes()?).ok()?;
            let ub = String::from_utf8(cur.bytes()?).ok()?;
            let listen = cur.list(|c| c.bytes())?;
            let listen: Option<Vec<Multiaddr>> = listen.into_iter().map(|a| Multiaddr::try_from(a).ok()).collect();
            let (_reply, l, peak) = super::net::mdns_roundtrip(&ua, &ub, listen?, 7)?;
            let mut body = Vec::new();
            ell(&mut body, &l);
            Some(hdr(peak, alloc_bound(4096) + (1 << 16), 0, body))
        }
        _ => None,
    }
}

pub fn run_proto(p: &[u64]) -> (Vec<u64>, Vec<u64>) {
    let r = catch_unwind(AssertUnwindSafe(|| run_inner(p)));
    measure_off();
    match r {
        Ok(Some((c, t))) => (c, t),
        Ok(None) => (proto_as_case(p), vec![0]),
        Err(_) => (proto_as_case(p), vec![PANIC_MARK]),
    }
}
