//! The REAL identify and bitswap event loops (`Identify::run`, `Bitswap::run`) on a
//! `TransportService` fed by this harness: a connection is announced, the substream the protocol
//! asks for (identify) or that the remote opens (bitswap) is an in-memory carrier holding the
//! adversarial bytes, and what the protocol reports on its public event channel is observed.
use super::{measure, run::Carrier};
use futures::{future::BoxFuture, Stream};
use litep2p::{
    codec::ProtocolCodec,
    crypto::{ed25519, PublicKey},
    protocol::{
        libp2p::{
            bitswap::{self, BitswapEvent, ResponseType},
            identify::{self, IdentifyEvent},
        },
        TransportService,
    },
    transport::verif::{TransportManager, TransportManagerBuilder},
    types::{multiaddr::Multiaddr, protocol::ProtocolName},
    PeerId,
};
use std::{
    pin::Pin,
    task::{Context, Poll},
    time::Duration,
};

struct Env {
    rt: tokio::runtime::Runtime,
    manager: TransportManager,
}
thread_local! {
    static ENV: Env = Env {
        rt: tokio::runtime::Builder::new_current_thread().enable_all().build().unwrap(),
        manager: TransportManagerBuilder::new().build(),
    };
}

pub fn local_keypair() -> ed25519::Keypair {
    ed25519::Keypair::from(ed25519::SecretKey::try_from_bytes([1u8; 32]).unwrap())
}
pub fn local_peer() -> PeerId {
    PublicKey::Ed25519(local_keypair().public()).to_peer_id()
}

fn poll_task(task: &mut BoxFuture<'static, ()>, n: usize) {
    let waker = futures::task::noop_waker();
    let mut cx = Context::from_waker(&waker);
    for _ in 0..n {
        if task.as_mut().poll(&mut cx).is_ready() {
            break;
        }
    }
}
fn frame(payload: &[u8]) -> Vec<u8> {
    let mut n = payload.len() as u64;
    let mut v = Vec::new();
    loop {
        if n < 128 {
            v.push(n as u8);
            break;
        }
        v.push((n & 127) as u8 | 128);
        n >>= 7;
    }
    v.extend(payload);
    v
}

pub struct Identified {
    pub protocol_version: Option<String>,
    pub user_agent: Option<String>,
    pub protocols: Vec<Vec<u8>>,
    pub observed: Option<Vec<u8>>,
    pub listen: Vec<Vec<u8>>,
}

/// `wire` is what the remote writes on the identify substream (normally one varint frame)
/// Returns the event (if any) and the peak allocation from handing over the substream onwards.
pub fn identify(peer: PeerId, wire: &[u8]) -> Option<(Option<Identified>, u64)> {
    ENV.with(|env| {
        let _g = env.rt.enter();
        let (service, input) = TransportService::verif_new(
            &env.manager,
            local_peer(),
            ProtocolName::from("/ipfs/id/1.0.0"),
            ProtocolCodec::UnsignedVarint(Some(identify::verif::VERIF_IDENTIFY_PAYLOAD_SIZE)),
            Duration::from_secs(3600),
        );
        let (config, mut events) = identify::Config::new("/verif/1".to_string(), Some("verif".to_string()));
        let mut task = identify::verif::verif_identify_task(service, config, PublicKey::Ed25519(local_keypair().public()));
        let addr: Multiaddr = "/ip4/10.0.0.1/tcp/4001".parse().unwrap();
        let mut conn = input.connection_established(peer, 1, addr, 16)?;
        poll_task(&mut task, 4);
        let id = *conn.take_open_requests().first()?;
        let carrier = Carrier::default();
        *carrier.input.lock().unwrap() = (wire.to_vec(), 0);
        let (opened, peak) = measure(|| {
            let ok = input.substream_opened(peer, Some(id), id, Box::new(carrier), &conn);
            poll_task(&mut task, 12);
            ok
        });
        if !opened {
            return None;
        }
        let waker = futures::task::noop_waker();
        let mut cx = Context::from_waker(&waker);
        match Pin::new(&mut events).poll_next(&mut cx) {
            Poll::Ready(Some(IdentifyEvent::PeerIdentified {
                protocol_version,
                user_agent,
                supported_protocols,
                observed_address,
                listen_addresses,
                ..
            })) => {
                let mut protocols: Vec<Vec<u8>> = supported_protocols.iter().map(|p| p.as_bytes().to_vec()).collect();
                protocols.sort();
                Some((
                    Some(Identified {
                        protocol_version,
                        user_agent,
                        protocols,
                        observed: if observed_address.is_empty() { None } else { Some(observed_address.to_vec()) },
                        listen: listen_addresses.iter().map(|a| a.to_vec()).collect(),
                    }),
                    peak,
                ))
            }
            _ => Some((None, peak)),
        }
    })
}
pub fn identify_frame(payload: &[u8]) -> Vec<u8> {
    frame(payload)
}

#[derive(Default)]
pub struct BitswapSeen {
    pub requests: Vec<(Vec<u8>, u64)>,
    pub blocks: Vec<Vec<u8>>,
    pub presences: Vec<(Vec<u8>, u64)>,
}

/// `wire` is what the remote writes on an inbound bitswap substream
pub fn bitswap(peer: PeerId, wire: &[u8]) -> Option<(BitswapSeen, u64)> {
    ENV.with(|env| {
        let _g = env.rt.enter();
        let (service, input) = TransportService::verif_new(
            &env.manager,
            local_peer(),
            ProtocolName::from("/ipfs/bitswap/1.2.0"),
            ProtocolCodec::UnsignedVarint(Some(bitswap::verif::MAX_MESSAGE_SIZE)),
            Duration::from_secs(3600),
        );
        let (config, mut handle) = bitswap::Config::new();
        let mut task = bitswap::verif::verif_bitswap_task(service, config);
        let addr: Multiaddr = "/ip4/10.0.0.1/tcp/4001".parse().unwrap();
        let conn = input.connection_established(peer, 1, addr, 16)?;
        poll_task(&mut task, 4);
        let carrier = Carrier::default();
        *carrier.input.lock().unwrap() = (wire.to_vec(), 0);
        let (opened, peak) = measure(|| {
            let ok = input.substream_opened(peer, None, 7, Box::new(carrier), &conn);
            poll_task(&mut task, 12);
            ok
        });
        if !opened {
            return None;
        }
        let waker = futures::task::noop_waker();
        let mut cx = Context::from_waker(&waker);
        let mut seen = BitswapSeen::default();
        while let Poll::Ready(Some(ev)) = Pin::new(&mut handle).poll_next(&mut cx) {
            match ev {
                BitswapEvent::Request { cids, .. } =>
                    for (cid, want) in cids {
                        seen.requests.push((cid.to_bytes(), want as i32 as u64));
                    },
                BitswapEvent::Response { responses, .. } =>
                    for r in responses {
                        match r {
                            ResponseType::Block { cid, .. } => seen.blocks.push(cid.to_bytes()),
                            ResponseType::Presence { cid, presence } => seen.presences.push((cid.to_bytes(), presence as i32 as u64)),
                        }
                    },
            }
        }
        Some((seen, peak))
    })
}
pub fn bitswap_frame(payload: &[u8]) -> Vec<u8> {
    frame(payload)
}
