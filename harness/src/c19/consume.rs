//! CONSUMER STAGE: what the event loops do with a value a decoder let through.  A decoder that
//! returns a value the next line of the event loop panics on is, from the node's point of view, a
//! decoder that panics on remote bytes; so every decoded value is handed on exactly as the real
//! code hands it on, and a panic / abort / hang in here is a property failure like one in the
//! decoder (trace `3 stage`, or the worker's ABORT / TIMEOUT marks).
//!
//!   Kademlia message   the REAL `Kademlia::run` loop (hooks `VerifKademlia`, `VerifServiceInput`)
//!                      receives the very bytes in five roles: as an inbound request (no query id),
//!                      and as the reply to an outbound FIND_NODE / GET_VALUE / GET_PROVIDERS /
//!                      PUT_VALUE query of its own (`update_routing_table` ->
//!                      `TransportService::add_known_address`, `RoutingTable::add_known_peer`, the
//!                      query engine's `register_response`, the store, the user events);
//!   PeerId             every conversion of litep2p's `PeerId` into the types of the multiaddr /
//!                      multihash crates and back (the `expect` of `From<PeerId> for
//!                      multiaddr::PeerId` first of all), the Kademlia key, the text forms;
//!   Multiaddr          the consumers of a decoded address: text form, `PeerId::try_from_multiaddr`,
//!                      `AddressRecord::from_multiaddr`, the socket-address parsers of the
//!                      transports, `TransportManagerHandle::add_known_address`, the routing table.
use super::{
    run::{el, Carrier},
    tasks::{local_keypair, local_peer},
};
use futures::{FutureExt, Stream};
use litep2p::{
    codec::ProtocolCodec,
    protocol::{
        libp2p::kademlia::{
            verif::{Key, VerifKademlia, VerifProbe},
            ConfigBuilder, KademliaEvent, KademliaHandle, Quorum, Record, RecordKey,
        },
        verif::{VerifConnection, VerifServiceInput},
        TransportService,
    },
    transport::verif::{AddressRecord, TransportManager, TransportManagerBuilder},
    types::{
        multiaddr::{Multiaddr, Protocol},
        protocol::ProtocolName,
    },
    PeerId,
};
use std::{
    future::Future,
    panic::{catch_unwind, AssertUnwindSafe},
    pin::Pin,
    str::FromStr,
    task::{Context, Poll},
    time::{Duration, Instant},
};

/// first number of the trace of a case whose decoder returned and whose consumer stage panicked
pub const CONSUMER_PANIC: u64 = 3;

pub const STAGE_KAD: u64 = 1;
pub const STAGE_PEER_ID: u64 = 2;
pub const STAGE_MADDR: u64 = 3;
pub const STAGE_NOISE: u64 = 4;

/// runs one consumer stage; `Err(stage)` = it panicked
pub fn stage<R>(stage: u64, f: impl FnOnce() -> R) -> Result<R, u64> {
    let r = catch_unwind(AssertUnwindSafe(f));
    super::measure_off();
    r.map_err(|_| stage)
}

// ---------------------------------------------------------------- PeerId

/// the remote peer every scripted connection belongs to
pub fn remote_peer() -> PeerId {
    let mut b = vec![0x12, 0x20];
    b.extend([7u8; 32]);
    PeerId::from_bytes(&b).unwrap()
}

/// Every conversion of a decoded `PeerId` into the multiaddr / multihash crates' types and back.
/// Returns the bytes of the `multiaddr::PeerId` (= the bytes of the id when all is well); a
/// conversion that returns but loses the id yields the marker `[255, n]`.
pub fn peer_id_conversions(p: PeerId) -> Vec<u8> {
    let bytes = p.to_bytes();
    // From<PeerId> for multiaddr::PeerId (`expect`s that the multiaddr crate accepts the multihash)
    let m: multiaddr::PeerId = p.into();
    if m.to_bytes() != bytes {
        return vec![255, 1];
    }
    // back through the multihash: From<multiaddr::PeerId> for Multihash, PeerId::from_multihash
    if PeerId::from_multihash(m).ok() != Some(p) {
        return vec![255, 2];
    }
    let mh: litep2p::types::multihash::Multihash<64> = p.into();
    if mh.to_bytes() != bytes || PeerId::try_from(mh).ok() != Some(p) {
        return vec![255, 3];
    }
    if Vec::<u8>::from(p) != bytes || PeerId::try_from(bytes.clone()).ok() != Some(p) {
        return vec![255, 4];
    }
    // the /p2p component every address store appends, and the way back
    let a = Multiaddr::empty().with(Protocol::P2p(p.into()));
    if PeerId::try_from_multiaddr(&a) != Some(p) {
        return vec![255, 5];
    }
    let a2 = Multiaddr::try_from(a.to_vec());
    if a2.as_ref().ok() != Some(&a) {
        return vec![255, 6];
    }
    match AddressRecord::from_multiaddr(a.clone()) {
        Some(r) if r.address() == &a => {}
        _ => return vec![255, 7],
    }
    // AddressRecord::new appends /p2p/<peer> to an address that has none
    let ip: Multiaddr = "/ip4/192.0.2.7/tcp/30333".parse().unwrap();
    let rec = AddressRecord::new(&p, ip.clone(), 0);
    if rec.address() != &ip.with(Protocol::P2p(p.into())) || PeerId::try_from_multiaddr(rec.address()) != Some(p) {
        return vec![255, 11];
    }
    // text forms
    let text = p.to_base58();
    if PeerId::from_str(&text).ok() != Some(p) || format!("{p}") != text || format!("{p:?}").is_empty() {
        return vec![255, 8];
    }
    let at = a.to_string();
    if Multiaddr::from_str(&at).ok().as_ref() != Some(&a) {
        return vec![255, 9];
    }
    // the Kademlia key of the peer (SHA-256 of the id bytes)
    let key = Key::from(p);
    if key.verif_raw().len() != 32 {
        return vec![255, 10];
    }
    m.to_bytes()
}

// ---------------------------------------------------------------- Multiaddr

thread_local! {
    static MANAGER: TransportManager = TransportManagerBuilder::new().build();
}

/// The consumers of a decoded address. Returns
/// `[has a trailing /p2p that litep2p takes, AddressRecord::from_multiaddr is some, tcp parser ok,
///   websocket parser ok]`.
pub fn maddr_consumers(a: &Multiaddr) -> Vec<u64> {
    use litep2p::transport::verif::{GetSocketAddr, TcpAddress, WebSocketAddress};
    let text = a.to_string();
    let back = Multiaddr::from_str(&text).ok();
    // (some valid addresses have no text form that parses back, e.g. a DNS name holding a '/')
    let _ = back.as_ref() == Some(a);
    let _ = format!("{a:?}");
    let n = a.iter().count();
    let _ = a.iter().map(|p| format!("{p}").len()).sum::<usize>();
    let id = PeerId::try_from_multiaddr(a);
    if let Some(p) = id {
        let _ = peer_id_conversions(p);
    }
    let rec = AddressRecord::from_multiaddr(a.clone());
    if let Some(r) = &rec {
        let _ = r.address().to_vec();
    }
    // the socket-address parsers of the transports (dial and listen paths)
    let tcp = TcpAddress::multiaddr_to_socket_address(a).is_ok();
    let ws = WebSocketAddress::multiaddr_to_socket_address(a).is_ok();
    // the address book: with the remote's id, with the id the address carries, with our own id
    MANAGER.with(|m| {
        let mut h = m.verif_handle();
        let r = remote_peer();
        let _ = h.supported_transport(a);
        let _ = h.add_known_address(&r, std::iter::once(a.clone()));
        if let Some(p) = id {
            let _ = h.add_known_address(&p, std::iter::once(a.clone()));
        }
        let _ = h.add_known_address(&local_peer(), std::iter::once(a.clone()));
        // what TransportService::add_known_address and RoutingTable::add_known_peer do first
        if !matches!(a.iter().last(), Some(Protocol::P2p(_))) {
            let b = a.clone().with(Protocol::P2p(r.into()));
            let _ = h.add_known_address(&r, std::iter::once(b.clone()));
            let _ = AddressRecord::from_multiaddr(b);
        }
    });
    let _ = n;
    vec![id.is_some() as u64, rec.is_some() as u64, tcp as u64, ws as u64]
}

// ---------------------------------------------------------------- Kademlia

struct Kad {
    _manager: TransportManager,
    input: VerifServiceInput,
    handle: KademliaHandle,
    _probe: VerifProbe,
    fut: Pin<Box<dyn Future<Output = ()>>>,
    finished: bool,
}

thread_local! {
    static RT: tokio::runtime::Runtime = tokio::runtime::Builder::new_current_thread().enable_all().build().unwrap();
}

impl Kad {
    fn new(k: usize) -> Kad {
        let manager = TransportManagerBuilder::new().build();
        let (service, input) = TransportService::verif_new(
            &manager,
            local_peer(),
            ProtocolName::from("/ipfs/kad/1.0.0"),
            ProtocolCodec::UnsignedVarint(Some(70 * 1024)),
            Duration::from_secs(3600 * 24),
        );
        let (config, handle) = ConfigBuilder::new().with_replication_factor(k).build();
        let probe = VerifProbe::default();
        let kad = VerifKademlia::new(service, config, probe.clone());
        let fut: Pin<Box<dyn Future<Output = ()>>> = Box::pin(async move {
            let _ = kad.run().await;
        });
        let mut s = Kad { _manager: manager, input, handle, _probe: probe, fut, finished: false };
        s.poll();
        s
    }

    fn poll(&mut self) {
        if self.finished {
            return;
        }
        let waker = futures::task::noop_waker();
        let mut cx = Context::from_waker(&waker);
        for _ in 0..6 {
            if let Poll::Ready(()) = self.fut.as_mut().poll(&mut cx) {
                self.finished = true;
                return;
            }
        }
        let _ = self._probe.take();
    }

    fn events(&mut self) -> Vec<KademliaEvent> {
        let waker = futures::task::noop_waker();
        let mut cx = Context::from_waker(&waker);
        let mut out = Vec::new();
        while let Poll::Ready(Some(e)) = Pin::new(&mut self.handle).poll_next(&mut cx) {
            out.push(e);
        }
        out
    }
}

fn frame(payload: &[u8]) -> Vec<u8> {
    let mut v = super::gen::uvi(payload.len() as u64);
    v.extend(payload);
    v
}

/// payload of the first varint frame
fn unframe(data: &[u8]) -> Option<Vec<u8>> {
    let (mut n, mut shift, mut i) = (0usize, 0u32, 0usize);
    loop {
        let b = *data.get(i)?;
        n |= ((b & 0x7f) as usize) << shift;
        i += 1;
        if b & 0x80 == 0 {
            break;
        }
        shift += 7;
        if shift > 28 {
            return None;
        }
    }
    data.get(i..i + n).map(|x| x.to_vec())
}

fn dump_addrs(out: &mut Vec<u64>, addrs: &[Multiaddr]) {
    let mut addrs: Vec<Vec<u8>> = addrs.iter().map(|a| a.to_vec()).collect();
    if addrs.len() < 32 {
        addrs.sort();
        out.push(addrs.len() as u64);
        for a in &addrs {
            el(out, a);
        }
    } else {
        out.push(32);
    }
}

/// the events the model predicts: what the loop tells the user about the remote's message itself
fn dump_events(out: &mut Vec<u64>, evs: &[KademliaEvent], before: Instant) {
    let mut n = 0u64;
    let mut body = Vec::new();
    for e in evs {
        match e {
            KademliaEvent::RoutingTableUpdate { peers } => {
                n += 1;
                body.push(1);
                body.push(peers.len() as u64);
                for p in peers {
                    el(&mut body, &p.to_bytes());
                }
            }
            KademliaEvent::IncomingRecord { record } => {
                n += 1;
                body.push(2);
                dump_record(&mut body, record, before);
            }
            KademliaEvent::IncomingProvider { provided_key, provider } => {
                n += 1;
                body.push(3);
                el(&mut body, &provided_key.to_vec());
                el(&mut body, &provider.peer.to_bytes());
                dump_addrs(&mut body, &provider.addresses);
            }
            // the outcome of the node's own query (engine state, not a function of the message alone)
            _ => {}
        }
    }
    out.push(n);
    out.extend(body);
}

fn dump_record(out: &mut Vec<u64>, r: &Record, before: Instant) {
    el(out, &r.key.to_vec());
    el(out, &r.value);
    match &r.publisher {
        Some(p) => {
            out.push(1);
            el(out, &p.to_bytes())
        }
        None => out.push(0),
    }
    out.push(match r.expires {
        Some(e) => e.saturating_duration_since(before).as_secs().max(1),
        None => 0,
    });
}

/// number of roles the Kademlia loop is run in
pub const KAD_ROLES: u64 = 5;

/// One role of the Kademlia loop fed `payload` as the single frame of a substream.
/// role 0: inbound request; 1..=4: the reply to our FIND_NODE / GET_VALUE / GET_PROVIDERS / PUT_VALUE.
/// Dump: `alive (0 | 1 L reply) events`.
fn kad_role(k: usize, payload: &[u8], role: u64, out: &mut Vec<u64>) {
    let before = Instant::now();
    let mut s = Kad::new(k);
    let r = remote_peer();
    let carrier = Carrier::default();
    *carrier.input.lock().unwrap() = (frame(payload), 0);
    let written = carrier.written.clone();
    let mut conn: Option<VerifConnection> = None;
    let opened = if role == 0 {
        let dummy = s.input.dummy_connection(9_999_999);
        let ok = s.input.substream_opened(r, None, 1_000_000, Box::new(carrier), &dummy);
        conn = Some(dummy);
        ok
    } else {
        let addr: Multiaddr = "/ip4/10.0.0.1/tcp/4001".parse().unwrap();
        let _ = s.handle.try_add_known_peer(r, vec![addr.clone()]);
        s.poll();
        let mut c = match s.input.connection_established(r, 1, addr, 64) {
            Some(c) => c,
            None => {
                out.extend([9, 0, 0]);
                return;
            }
        };
        s.poll();
        let key = RecordKey::from(vec![1u8, 2, 3]);
        match role {
            1 => {
                let _ = s.handle.try_find_node(PeerId::from_bytes(&{
                    let mut b = vec![0x12, 0x20];
                    b.extend([9u8; 32]);
                    b
                })
                .unwrap());
            }
            2 => {
                let _ = s.handle.try_get_record(key, Quorum::One);
            }
            3 => {
                let _ = s.handle.get_providers(key).now_or_never();
            }
            _ => {
                let _ = s.handle.try_put_record_to_peers(
                    Record { key, value: vec![4, 5, 6], publisher: None, expires: None },
                    vec![r],
                    false,
                    Quorum::One,
                );
            }
        }
        s.poll();
        let _ = s.events();
        let ok = match c.take_open_requests().first().copied() {
            Some(sid) => s.input.substream_opened(r, Some(sid), sid, Box::new(carrier), &c),
            None => false,
        };
        conn = Some(c);
        ok
    };
    if !opened {
        out.extend([8, 0, 0]);
        return;
    }
    s.poll();
    s.poll();
    let evs = s.events();
    out.push(!s.finished as u64);
    if role == 0 {
        match unframe(&written.lock().unwrap()) {
            Some(p) => {
                out.push(1);
                el(out, &p)
            }
            None => out.push(0),
        }
    } else {
        out.push(0);
    }
    dump_events(out, &evs, before);
    drop(conn);
}

/// The Kademlia consumer stage of one message (all roles). `k` = replication factor of the loop.
pub fn kademlia(k: usize, payload: &[u8]) -> Vec<u64> {
    RT.with(|rt| {
        let _g = rt.enter();
        let mut out = Vec::new();
        for role in 0..KAD_ROLES {
            kad_role(k, payload, role, &mut out);
        }
        out
    })
}

#[allow(dead_code)]
pub fn local_key() -> litep2p::crypto::ed25519::Keypair {
    local_keypair()
}
