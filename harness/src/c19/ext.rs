//! Other properties' scenario runners reused verbatim: their source files are included as text so
//! that their private `run_case` is callable from here; nothing of them is modified.
#[allow(dead_code, unused_imports, unused_variables, clippy::all)]
pub mod x02 {
    include!(concat!(env!("OUT_DIR"), "/c02_inc.rs"));
    thread_local! {
        static RT: tokio::runtime::Runtime = tokio::runtime::Builder::new_current_thread().enable_all().build().unwrap();
    }
    pub fn run(c: &[u64]) -> Vec<u64> {
        RT.with(|rt| run_case(rt, c)).unwrap_or(vec![0])
    }
}
#[allow(dead_code, unused_imports, unused_variables, clippy::all)]
pub mod x03 {
    include!(concat!(env!("OUT_DIR"), "/c03_inc.rs"));
    pub fn run(c: &[u64]) -> Vec<u64> {
        run_case(c).unwrap_or(vec![0])
    }
}
#[allow(dead_code, unused_imports, unused_variables, clippy::all)]
pub mod x04 {
    include!(concat!(env!("OUT_DIR"), "/c04_inc.rs"));
    pub fn run(c: &[u64]) -> Vec<u64> {
        run_case(c)
    }
}
