//! Other properties' scenario runners reused verbatim: their source files are included as text so
//! that their private `run_case` is callable from here; nothing of them is modified.
#[allow(dead_code, unused_imports, unused_variables, clippy::all)]
pub mod x02 {
    include!(concat!(env!("OUT_DIR"), "/c02_inc.rs"));
    thread_local! {
        static RT: tokio::runtime::Runtime = tokio::runtime::Builder::new_current_thread().enable_all().build().unwrap();
    }
    pub fn run(c: &[u64]) -> Vec<u64> {
        RT.with(|rt| run_case(rt, c)).unwrap_or(vec![0])
    }
}
#[allow(dead_code, unused_imports, unused_variables, clippy::all)]
pub mod x03 {
    include!(concat!(env!("OUT_DIR"), "/c03_inc.rs"));
    pub fn run(c: &[u64]) -> Vec<u64> {
        run_case(c).unwrap_or(vec![0])
    }
    /// C03's own generators for the cases in which a negotiated name is LOOKED UP: mode 5 (a real
    /// `ProtocolSet`: `protocol_codec` under every advertised name, `report_substream_open` under
    /// fallback names) and mode 6 (the transports' `negotiate_protocol`)
    pub fn gen_lookup(rng: &mut crate::util::Rng) -> Vec<u64> {
        if rng.chance(50) {
            fallback::gen(rng)
        } else {
            gen_mode6(rng)
        }
    }
}
#[allow(dead_code, unused_imports, unused_variables, clippy::all)]
pub mod x04 {
    include!(concat!(env!("OUT_DIR"), "/c04_inc.rs"));
    pub fn run(c: &[u64]) -> Vec<u64> {
        run_case(c)
    }
}
